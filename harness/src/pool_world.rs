//! Gated doubles and a step-wise simulator for the real `ConnectionPoolService`.
//!
//! Everything the pool talks to is a double whose futures stay `Pending` until the schedule opens
//! the corresponding gate, so that one harness step is one action of `spec/Pool.tla`:
//!
//! * `VTransport` (`tower::Service<http::request::Parts>`): `connect()` is a dial; its future resolves
//!   when the dial's connect gate is set (`EnvConnect`).
//! * `VProtocol` (`Service<ProtocolRequest<VStream,B>>`): handshake gate (`EnvHandshake`).
//! * `VConn` (`Connection + PoolableConnection`): open / busy / upgraded flags, live-handle count,
//!   `can_share` only for HTTP/2, `is_open = open && !busy && !upgraded` (as `HttpConnection::is_open` = `is_ready`).
//! * `VExec`: the inner service; stores the `Pooled` handle it is given (`Handoff`).
//!
//! Foreground flag: the doubles make progress only while the harness itself polls a request future
//! (`Poll(r)`); polled from the runtime (a `WhenReady` task, a delayed checkout) they stay `Pending`
//! until the schedule grants exactly that task one step.
use std::collections::{BTreeMap, HashMap, HashSet};
use std::future::Future;
use std::pin::Pin;
use std::sync::atomic::{AtomicUsize, Ordering};
use std::sync::{Arc, Mutex};
use std::task::{Context, Poll, Wake, Waker};

use bytes::Bytes;
use http_body_util::Empty;
use hyperdriver::client::conn::connection::ConnectionError;
use hyperdriver::client::conn::protocol::ProtocolRequest;
use hyperdriver::client::conn::Connection;
use hyperdriver::client::pool::{Config, PoolableConnection, PoolableStream, Pooled, UriKey};
use hyperdriver::client::ConnectionPoolService;
use hyperdriver::info::{ConnectionInfo, HasConnectionInfo};
use hyperdriver::service::ExecuteRequest;
use serde_json::{json, Value};

pub type B = Empty<Bytes>;

#[derive(Default)]
pub struct Dial {
    pub rid: usize,
    pub origin: usize,
    pub h2: bool,
    pub connect: Option<bool>,
    pub handshake: Option<bool>,
    pub waker: Option<Waker>,
    /// the last poll of this dial's current future came from the runtime (a background task)
    pub bg_parked: bool,
    pub grant: bool,
    /// "connecting" | "handshaking" | "ok" | "failed" | "dropped"
    pub stage: &'static str,
}

#[derive(Default)]
pub struct ConnS {
    pub origin: usize,
    pub h2: bool,
    pub open: bool,
    pub busy: bool,
    pub upgraded: bool,
    pub grant: bool,
    pub waker: Option<Waker>,
    /// a `WhenReady` task (or anything else in the background) is parked on `poll_ready`
    pub parked: bool,
    /// number of live `VConn` values referring to this connection
    pub live: usize,
    /// real-time bracket around the last hand-back (WhenReady step) of this connection
    pub back: Option<(std::time::Instant, std::time::Instant)>,
}

#[derive(Default)]
pub struct WorldI {
    pub dials: Vec<Dial>, // dial id = index + 1; a connection has the id of its dial
    pub conns: BTreeMap<usize, ConnS>,
    pub held: BTreeMap<usize, Pooled<VConn, B>>,
    pub twaker: HashMap<usize, Waker>,
    pub clones: usize,
    pub foreground: bool,
    pub tgrant: HashSet<usize>,
    pub events: Vec<String>,
    pub origin_of_uri: HashMap<String, usize>,
    /// `is_open` reports only whether the connection is open (not upgraded); readiness is then visible
    /// through `poll_ready` alone, as the `PoolableConnection` / `Connection` traits allow.
    pub lax_open: bool,
    /// `poll_ready` reports readiness (not busy) even when the connection has been closed or upgraded; liveness is
    /// then visible through `is_open` alone (the crate's own mock connection behaves like this).
    pub lax_ready: bool,
}

#[derive(Clone, Default)]
pub struct World(pub Arc<Mutex<WorldI>>);

impl World {
    fn ev(&self, s: String) {
        self.0.lock().unwrap().events.push(s);
    }
}

pub struct VTransport {
    pub world: World,
    pub clone_id: usize,
}

impl Clone for VTransport {
    fn clone(&self) -> Self {
        let mut w = self.world.0.lock().unwrap();
        w.clones += 1;
        VTransport { world: self.world.clone(), clone_id: w.clones }
    }
}

#[derive(Debug, thiserror::Error)]
#[error("vtransport error")]
pub struct VErr;

pub struct VStream {
    dial: usize,
}

impl HasConnectionInfo for VStream {
    type Addr = String;
    fn info(&self) -> ConnectionInfo<String> {
        ConnectionInfo { local_addr: "l".into(), remote_addr: "r".into() }
    }
}

impl PoolableStream for VStream {
    fn can_share(&self) -> bool {
        false
    }
}

/// Marks a dial as dropped if its future goes away before completing.
struct DialGuard {
    world: World,
    id: usize,
    done: bool,
}

impl Drop for DialGuard {
    fn drop(&mut self) {
        if !self.done {
            if let Ok(mut w) = self.world.0.lock() {
                let d = &mut w.dials[self.id - 1];
                if d.stage == "connecting" || d.stage == "handshaking" {
                    d.stage = "dropped";
                }
                d.waker = None;
                d.bg_parked = false;
            }
        }
    }
}

impl tower::Service<http::request::Parts> for VTransport {
    type Response = VStream;
    type Error = VErr;
    type Future = Pin<Box<dyn Future<Output = Result<VStream, VErr>> + Send>>;

    fn poll_ready(&mut self, cx: &mut Context<'_>) -> Poll<Result<(), VErr>> {
        let mut w = self.world.0.lock().unwrap();
        if !w.foreground && !w.tgrant.contains(&self.clone_id) {
            w.twaker.insert(self.clone_id, cx.waker().clone());
            return Poll::Pending;
        }
        Poll::Ready(Ok(()))
    }

    fn call(&mut self, req: http::request::Parts) -> Self::Future {
        let world = self.world.clone();
        let rid: usize = req.headers.get("x-rid").unwrap().to_str().unwrap().parse().unwrap();
        let h2 = req.version == http::Version::HTTP_2;
        let id = {
            let mut w = world.0.lock().unwrap();
            let okey = origin_key(&req.uri);
            let origin = *w.origin_of_uri.get(&okey).unwrap_or(&0);
            w.dials.push(Dial { rid, origin, h2, stage: "connecting", ..Default::default() });
            w.dials.len()
        };
        world.ev(format!("DialStart r={rid} d={id}"));
        let mut guard = DialGuard { world: world.clone(), id, done: false };
        Box::pin(std::future::poll_fn(move |cx| {
            let guard = &mut guard; // capture the whole guard: it must live as long as the future
            let mut w = world.0.lock().unwrap();
            let fg = w.foreground;
            let d = &mut w.dials[id - 1];
            match d.connect {
                Some(ok) if fg || d.grant => {
                    guard.done = true;
                    d.waker = None;
                    d.bg_parked = false;
                    if ok {
                        d.stage = "handshaking";
                        Poll::Ready(Ok(VStream { dial: id }))
                    } else {
                        d.stage = "failed";
                        Poll::Ready(Err(VErr))
                    }
                }
                _ => {
                    d.waker = Some(cx.waker().clone());
                    d.bg_parked = !fg;
                    Poll::Pending
                }
            }
        }))
    }
}

#[derive(Clone)]
pub struct VProtocol(pub World);

impl tower::Service<ProtocolRequest<VStream, B>> for VProtocol {
    type Response = VConn;
    type Error = ConnectionError;
    type Future = Pin<Box<dyn Future<Output = Result<VConn, ConnectionError>> + Send>>;

    fn poll_ready(&mut self, _: &mut Context<'_>) -> Poll<Result<(), ConnectionError>> {
        Poll::Ready(Ok(()))
    }

    fn call(&mut self, req: ProtocolRequest<VStream, B>) -> Self::Future {
        let world = self.0.clone();
        let id = req.transport.dial;
        let h2 = req.version.multiplex();
        let mut guard = DialGuard { world: world.clone(), id, done: false };
        Box::pin(std::future::poll_fn(move |cx| {
            let guard = &mut guard; // capture the whole guard: it must live as long as the future
            let mut w = world.0.lock().unwrap();
            let fg = w.foreground;
            let d = &mut w.dials[id - 1];
            match d.handshake {
                Some(ok) if fg || d.grant => {
                    guard.done = true;
                    d.waker = None;
                    d.bg_parked = false;
                    if !ok {
                        d.stage = "failed";
                        return Poll::Ready(Err(ConnectionError::Handshake("vhandshake".into())));
                    }
                    d.stage = "ok";
                    let origin = d.origin;
                    w.conns.insert(id, ConnS { origin, h2, open: true, live: 1, ..Default::default() });
                    Poll::Ready(Ok(VConn { id, world: world.clone() }))
                }
                _ => {
                    d.waker = Some(cx.waker().clone());
                    d.bg_parked = !fg;
                    Poll::Pending
                }
            }
        }))
    }
}

pub struct VConn {
    pub id: usize,
    world: World,
}

impl Drop for VConn {
    fn drop(&mut self) {
        if let Ok(mut w) = self.world.0.lock() {
            if let Some(c) = w.conns.get_mut(&self.id) {
                c.live = c.live.saturating_sub(1);
                if c.live == 0 {
                    c.parked = false;
                    c.waker = None;
                }
            }
        }
    }
}

#[derive(Debug, thiserror::Error)]
#[error("vconn error")]
pub struct VConnErr;

impl Connection<B> for VConn {
    type ResBody = B;
    type Error = VConnErr;
    type Future = Pin<Box<dyn Future<Output = Result<http::Response<B>, VConnErr>> + Send>>;

    fn send_request(&mut self, _r: http::Request<B>) -> Self::Future {
        Box::pin(async { Ok(http::Response::new(Empty::new())) })
    }

    fn poll_ready(&mut self, cx: &mut Context<'_>) -> Poll<Result<(), VConnErr>> {
        let mut w = self.world.0.lock().unwrap();
        let lax_ready = w.lax_ready;
        let c = w.conns.get_mut(&self.id).unwrap();
        if !c.grant {
            c.waker = Some(cx.waker().clone());
            c.parked = true;
            return Poll::Pending;
        }
        if (!c.open || c.upgraded) && !lax_ready {
            c.parked = false;
            return Poll::Ready(Err(VConnErr));
        }
        if !c.busy {
            c.parked = false;
            Poll::Ready(Ok(()))
        } else {
            c.waker = Some(cx.waker().clone());
            c.parked = true;
            Poll::Pending
        }
    }

    fn version(&self) -> http::Version {
        if self.world.0.lock().unwrap().conns[&self.id].h2 {
            http::Version::HTTP_2
        } else {
            http::Version::HTTP_11
        }
    }
}

impl PoolableConnection<B> for VConn {
    fn is_open(&self) -> bool {
        let w = self.world.0.lock().unwrap();
        let c = &w.conns[&self.id];
        c.open && !c.upgraded && (w.lax_open || !c.busy)
    }

    fn can_share(&self) -> bool {
        self.world.0.lock().unwrap().conns[&self.id].h2
    }

    fn reuse(&mut self) -> Option<Self> {
        let mut w = self.world.0.lock().unwrap();
        let c = w.conns.get_mut(&self.id).unwrap();
        if c.h2 {
            c.live += 1;
            Some(VConn { id: self.id, world: self.world.clone() })
        } else {
            None
        }
    }
}

#[derive(Clone)]
pub struct VExec(pub World);

impl tower::Service<ExecuteRequest<Pooled<VConn, B>, B>> for VExec {
    type Response = http::Response<B>;
    type Error = hyperdriver::client::Error;
    type Future = Pin<Box<dyn Future<Output = Result<http::Response<B>, Self::Error>> + Send>>;

    fn poll_ready(&mut self, _: &mut Context<'_>) -> Poll<Result<(), Self::Error>> {
        Poll::Ready(Ok(()))
    }

    fn call(&mut self, req: ExecuteRequest<Pooled<VConn, B>, B>) -> Self::Future {
        let (conn, request) = req.into_parts();
        let rid: usize = request.headers().get("x-rid").unwrap().to_str().unwrap().parse().unwrap();
        let cid = conn.id;
        {
            let mut w = self.0 .0.lock().unwrap();
            if let Some(c) = w.conns.get_mut(&cid) {
                if !c.h2 {
                    c.busy = true;
                }
            }
            w.held.insert(rid, conn);
        }
        self.0.ev(format!("Handoff r={rid} c={cid}"));
        Box::pin(async move { Ok(http::Response::new(Empty::new())) })
    }
}

pub struct CountWaker(pub AtomicUsize);

impl Wake for CountWaker {
    fn wake(self: Arc<Self>) {
        self.0.fetch_add(1, Ordering::SeqCst);
    }
}

pub type Svc = ConnectionPoolService<VTransport, VProtocol, VExec, B>;
pub type Fut = <Svc as tower::Service<http::Request<B>>>::Future;

pub struct Req {
    pub fut: Option<Pin<Box<Fut>>>,
    pub waker: Arc<CountWaker>,
    pub seen: usize,
    pub clone_id: usize,
    pub origin: usize,
    pub h2: bool,
    pub polled: bool,
    /// "checkout" | "sending" | "done" | "error" | "cancelled"
    pub st: &'static str,
}

pub async fn settle() {
    tokio::time::sleep(std::time::Duration::from_millis(1)).await;
}

fn origin_key(uri: &http::Uri) -> String {
    format!("{}://{}", uri.scheme_str().unwrap_or(""), uri.authority().map(|a| a.as_str()).unwrap_or(""))
}

/// Result of a `Poll(r)` step.
#[derive(Debug, Clone, PartialEq)]
pub enum PollRes {
    Pending,
    DialStart(usize),
    Handoff(usize),
    Err(String),
    Panicked(String),
}

impl PollRes {
    pub fn name(&self) -> &'static str {
        match self {
            PollRes::Pending => "PollPending",
            PollRes::DialStart(_) => "DialStart",
            PollRes::Handoff(_) => "Handoff",
            PollRes::Err(_) => "PollErr",
            PollRes::Panicked(_) => "Panicked",
        }
    }
}

pub struct PoolCfg {
    /// connection double: is_open ignores the busy flag
    pub lax_open: bool,
    /// connection double: poll_ready ignores closed / upgraded
    pub lax_ready: bool,
    pub cap: bool,
    /// `ConnectionPoolService::without_pool`: every checkout is detached
    pub no_pool: bool,
    pub max_idle: usize,
    /// 0 = None, 1 = Some(0), 2 = small (40 ms), 3 = large (100 s)
    pub idle_timeout: u8,
}

pub struct Sim {
    pub world: World,
    pub svc: Option<Svc>,
    pub reqs: BTreeMap<usize, Req>,
    /// concrete URI of each origin (1-based index = position + 1)
    pub uris: Vec<String>,
    /// origin class of each origin: origins whose `UriKey`s are equal share a class (the smallest index)
    pub class: Vec<usize>,
    /// Debug rendering of the key -> class
    key_class: HashMap<String, usize>,
    pub cfg: PoolCfg,
    pub ticks: usize,
}

pub fn classify_err(msg: &str) -> &'static str {
    if msg.contains("vtransport") {
        "Connecting"
    } else if msg.contains("vhandshake") {
        "Handshaking"
    } else if msg.contains("pool closed") || msg.contains("connection closed") || msg.contains("no connection") {
        "Unavailable"
    } else {
        "Other"
    }
}

impl Sim {
    pub fn new(cfg: PoolCfg, uris: Vec<String>) -> Sim {
        let world = World::default();
        let mut c = Config::default();
        c.continue_after_preemption = cfg.cap;
        c.max_idle_per_host = cfg.max_idle;
        c.idle_timeout = match cfg.idle_timeout {
            0 => None,
            1 => Some(std::time::Duration::ZERO),
            2 => Some(std::time::Duration::from_millis(40)),
            _ => Some(std::time::Duration::from_secs(100)),
        };
        let svc: Svc = ConnectionPoolService::new(
            VTransport { world: world.clone(), clone_id: 0 },
            VProtocol(world.clone()),
            VExec(world.clone()),
            c,
        );
        let svc = if cfg.no_pool { svc.without_pool() } else { svc };
        // origin classes by UriKey equality
        let keys: Vec<UriKey> = uris.iter().map(|u| UriKey::try_from(u.parse::<http::Uri>().unwrap()).unwrap()).collect();
        let mut class = Vec::new();
        let mut key_class = HashMap::new();
        for (i, k) in keys.iter().enumerate() {
            let cl = (0..i).find(|j| keys[*j] == *k).map(|j| class[j]).unwrap_or(i + 1);
            class.push(cl);
            key_class.insert(format!("{k:?}"), cl);
        }
        {
            let mut w = world.0.lock().unwrap();
            w.lax_open = cfg.lax_open;
            w.lax_ready = cfg.lax_ready;
            for (i, u) in uris.iter().enumerate() {
                let uri: http::Uri = u.parse().unwrap();
                w.origin_of_uri.insert(origin_key(&uri), i + 1);
            }
        }
        Sim { world, svc: Some(svc), reqs: BTreeMap::new(), uris, class, key_class, cfg, ticks: 0 }
    }

    fn catch<R>(f: impl FnOnce() -> R) -> Result<R, String> {
        std::panic::catch_unwind(std::panic::AssertUnwindSafe(f)).map_err(|e| {
            if let Some(s) = e.downcast_ref::<&str>() {
                s.to_string()
            } else if let Some(s) = e.downcast_ref::<String>() {
                s.clone()
            } else {
                "panic".to_string()
            }
        })
    }

    /// For every connection: [min, max] real age in ms of its last hand-back, seen from a checkout
    /// bracketed by (t0, t1); [0, 1000000] when it was never handed back (unknown).
    pub fn ages(&self, t0: std::time::Instant, t1: std::time::Instant) -> Vec<[u64; 2]> {
        let w = self.world.0.lock().unwrap();
        (1..=w.dials.len())
            .map(|c| match w.conns.get(&c).and_then(|cs| cs.back) {
                Some((b0, b1)) => [t0.saturating_duration_since(b1).as_millis() as u64, t1.saturating_duration_since(b0).as_millis() as u64 + 1],
                None => [0, 1_000_000],
            })
            .collect()
    }

    pub fn issue(&mut self, r: usize, origin: usize, h2: bool) -> Result<(), String> {
        let req = http::Request::builder()
            .uri(format!("{}/", self.uris[origin - 1]))
            .version(if h2 { http::Version::HTTP_2 } else { http::Version::HTTP_11 })
            .header("x-rid", r.to_string())
            .body(Empty::new())
            .unwrap();
        let svc = self.svc.as_mut().ok_or("pool dropped")?;
        let fut = Self::catch(|| Box::pin(tower::Service::call(svc, req)))?;
        let clone_id = self.world.0.lock().unwrap().clones;
        self.reqs.insert(
            r,
            Req { fut: Some(fut), waker: Arc::new(CountWaker(AtomicUsize::new(0))), seen: 0, clone_id, origin, h2, polled: false, st: "checkout" },
        );
        Ok(())
    }

    pub fn woken(&self, r: usize) -> bool {
        let q = &self.reqs[&r];
        q.waker.0.load(Ordering::SeqCst) > q.seen
    }

    /// One call of `Future::poll` on the request future, with the doubles in the foreground.
    pub fn poll(&mut self, r: usize) -> Result<PollRes, String> {
        let world = self.world.clone();
        let q = self.reqs.get_mut(&r).ok_or("no such request")?;
        if q.st != "checkout" {
            return Err("request not in checkout".into());
        }
        let w = Waker::from(q.waker.clone());
        let mut cx = Context::from_waker(&w);
        q.seen = q.waker.0.load(Ordering::SeqCst);
        q.polled = true;
        world.0.lock().unwrap().events.clear();
        world.0.lock().unwrap().foreground = true;
        let fut = q.fut.as_mut().ok_or("poll of finished request")?;
        let res = Self::catch(|| fut.as_mut().poll(&mut cx));
        world.0.lock().unwrap().foreground = false;
        let evs = world.0.lock().unwrap().events.clone();
        let find = |p: &str, k: &str| -> usize {
            evs.iter()
                .find(|x| x.starts_with(p))
                .and_then(|x| x.split(k).nth(1))
                .and_then(|x| x.trim().parse().ok())
                .unwrap_or(0)
        };
        Ok(match res {
            Err(p) => {
                q.fut = None;
                q.st = "error";
                PollRes::Panicked(p)
            }
            Ok(Poll::Pending) => {
                if evs.iter().any(|x| x.starts_with("DialStart")) {
                    PollRes::DialStart(find("DialStart", "d="))
                } else {
                    PollRes::Pending
                }
            }
            Ok(Poll::Ready(Ok(_))) => {
                q.fut = None;
                q.st = "sending";
                PollRes::Handoff(find("Handoff", "c="))
            }
            Ok(Poll::Ready(Err(err))) => {
                q.fut = None;
                q.st = "error";
                PollRes::Err(classify_err(&err.to_string()).to_string())
            }
        })
    }

    pub fn cancel(&mut self, r: usize) -> Result<&'static str, String> {
        let q = self.reqs.get_mut(&r).ok_or("no such request")?;
        match q.st {
            "checkout" => {
                let f = q.fut.take();
                q.st = "cancelled";
                Self::catch(|| drop(f))?;
                Ok("checkout")
            }
            "sending" => {
                let p = self.world.0.lock().unwrap().held.remove(&r);
                q.st = "cancelled";
                Self::catch(|| drop(p))?;
                Ok("sending")
            }
            _ => Err("cancel of finished request".into()),
        }
    }

    pub fn release(&mut self, r: usize) -> Result<(), String> {
        let q = self.reqs.get_mut(&r).ok_or("no such request")?;
        if q.st != "sending" {
            return Err("release but not sending".into());
        }
        let p = self.world.0.lock().unwrap().held.remove(&r);
        if p.is_none() {
            return Err("release but nothing held".into());
        }
        q.st = "done";
        Self::catch(|| drop(p))?;
        Ok(())
    }

    pub fn env_gate(&mut self, d: usize, connect: bool, ok: bool) -> Result<(), String> {
        let mut w = self.world.0.lock().unwrap();
        if d == 0 || d > w.dials.len() {
            return Err("no such dial".into());
        }
        let dl = &mut w.dials[d - 1];
        if connect {
            if dl.connect.is_some() {
                return Err("connect gate already set".into());
            }
            dl.connect = Some(ok)
        } else {
            if dl.connect != Some(true) || dl.handshake.is_some() {
                return Err("handshake gate not settable".into());
            }
            dl.handshake = Some(ok)
        }
        if let Some(wk) = dl.waker.take() {
            wk.wake()
        }
        Ok(())
    }

    pub fn conn_flag(&mut self, c: usize, what: &str) -> Result<(), String> {
        let mut w = self.world.0.lock().unwrap();
        let held_by = w.held.values().any(|p| p.id == c);
        let cs = w.conns.get_mut(&c).ok_or("no such conn")?;
        match what {
            "ConnReady" => {
                if !cs.busy || held_by || !cs.open || cs.upgraded {
                    return Err("ConnReady not enabled".into());
                }
                cs.busy = false
            }
            "PeerClose" => {
                if !cs.open {
                    return Err("already closed".into());
                }
                cs.open = false
            }
            "Upgrade" => {
                if cs.h2 || !held_by || cs.upgraded {
                    return Err("Upgrade not enabled".into());
                }
                cs.upgraded = true
            }
            _ => return Err("unknown flag".into()),
        }
        if let Some(wk) = cs.waker.take() {
            wk.wake()
        }
        Ok(())
    }

    /// Grants the `WhenReady` task of connection `c` one step.
    pub async fn when_ready_step(&mut self, c: usize) -> Result<(), String> {
        let t_before = std::time::Instant::now();
        {
            let mut w = self.world.0.lock().unwrap();
            let cs = w.conns.get_mut(&c).ok_or("no such conn")?;
            if !cs.parked {
                return Err("no WhenReady task parked on this connection".into());
            }
            cs.grant = true;
            if let Some(wk) = cs.waker.take() {
                wk.wake()
            }
        }
        settle().await;
        if let Some(cs) = self.world.0.lock().unwrap().conns.get_mut(&c) {
            cs.grant = false;
            cs.back = Some((t_before, std::time::Instant::now()));
        }
        Ok(())
    }

    /// Background (delayed) checkout of request `r`: what it is waiting for, if it exists.
    pub fn bg_state(&self, r: usize) -> Option<&'static str> {
        let q = self.reqs.get(&r)?;
        let w = self.world.0.lock().unwrap();
        if w.twaker.contains_key(&q.clone_id) {
            return Some("start");
        }
        for d in w.dials.iter().filter(|d| d.rid == r) {
            if d.bg_parked && (d.stage == "connecting" || d.stage == "handshaking") {
                let resolved = matches!((d.connect, d.handshake), (Some(false), _) | (Some(true), Some(_)));
                return Some(if resolved { "finish" } else { "blocked" });
            }
        }
        None
    }

    /// Grants the delayed checkout of `r` one step. Returns the dial it started, if any.
    pub async fn bg_poll(&mut self, r: usize) -> Result<Option<usize>, String> {
        match self.bg_state(r) {
            Some("start") => {
                let cid = self.reqs[&r].clone_id;
                {
                    let mut w = self.world.0.lock().unwrap();
                    w.events.clear();
                    w.tgrant.insert(cid);
                    if let Some(wk) = w.twaker.remove(&cid) {
                        wk.wake()
                    }
                }
                settle().await;
                let mut w = self.world.0.lock().unwrap();
                w.tgrant.remove(&cid);
                let d = w.events.iter().find(|x| x.starts_with("DialStart")).and_then(|x| x.split("d=").nth(1)).and_then(|x| x.trim().parse().ok());
                Ok(d)
            }
            Some("finish") => {
                {
                    let mut w = self.world.0.lock().unwrap();
                    for d in w.dials.iter_mut().filter(|d| d.rid == r) {
                        d.grant = true;
                        if let Some(wk) = d.waker.take() {
                            wk.wake()
                        }
                    }
                }
                settle().await;
                let mut w = self.world.0.lock().unwrap();
                for d in w.dials.iter_mut().filter(|d| d.rid == r) {
                    d.grant = false;
                }
                Ok(None)
            }
            _ => Err("no runnable background checkout".into()),
        }
    }

    pub fn tick(&mut self) {
        // idle expiry uses std::time::Instant: a real sleep well beyond the small timeout
        std::thread::sleep(std::time::Duration::from_millis(120));
        self.ticks += 8; // the model clock counts units of 15 ms
    }

    /// 15 ms pass: less than the small idle timeout (40 ms)
    pub fn small_tick(&mut self) {
        std::thread::sleep(std::time::Duration::from_millis(15));
        self.ticks += 1;
    }

    /// Lock contention as a schedule: another thread takes the pool lock and keeps it for `us` microseconds; returns once
    /// the lock is held (None without a pool). Code that takes the lock blocks a little; code that only *tries* to take
    /// it (and skips its work otherwise) shows what it skips.
    pub fn hold_pool_lock(&self, us: u64) -> Option<std::thread::JoinHandle<()>> {
        let lock = self.svc.as_ref()?.verif_lock()?;
        let (tx, rx) = std::sync::mpsc::channel();
        let h = std::thread::spawn(move || {
            lock.hold(move || {
                let _ = tx.send(());
                std::thread::sleep(std::time::Duration::from_micros(us));
            })
        });
        let _ = rx.recv_timeout(std::time::Duration::from_millis(200));
        Some(h)
    }

    pub fn drop_pool(&mut self) {
        self.svc = None;
    }

    /// The observable state after a step.
    pub fn obs(&self) -> Value {
        let w = self.world.0.lock().unwrap();
        let nor = self.uris.len();
        let mut idle: Vec<Vec<usize>> = vec![vec![]; nor];
        let mut waiting: Vec<Vec<bool>> = vec![vec![]; nor];
        let mut connecting: Vec<bool> = vec![false; nor];
        if let Some(svc) = self.svc.as_ref() {
            if let Some(snap) = svc.verif_snapshot(|c: &VConn| c.id) {
                for po in snap {
                    if let Some(cl) = self.key_class.get(&po.key) {
                        idle[cl - 1] = po.idle;
                        waiting[cl - 1] = po.waiting;
                        connecting[cl - 1] = po.connecting;
                    }
                }
            }
        }
        let nreq = self.reqs.keys().max().copied().unwrap_or(0);
        let mut req = Vec::new();
        for r in 1..=nreq {
            match self.reqs.get(&r) {
                Some(q) => req.push(json!({"st": q.st, "o": q.origin, "h2": q.h2, "polled": q.polled,
                    "woken": q.st == "checkout" && q.waker.0.load(Ordering::SeqCst) > q.seen,
                    "held": w.held.get(&r).map(|p| p.id).unwrap_or(0)})),
                None => req.push(json!({"st": "new", "o": 0, "h2": false, "polled": false, "woken": false, "held": 0})),
            }
        }
        let mut conn = Vec::new();
        for (i, d) in w.dials.iter().enumerate() {
            let c = i + 1;
            match w.conns.get(&c) {
                Some(cs) => conn.push(json!({"st": if cs.open { "open" } else { "closed" }, "o": cs.origin, "h2": cs.h2,
                    "busy": cs.busy, "up": cs.upgraded, "live": cs.live, "by": d.rid, "parked": cs.parked, "dial": d.stage})),
                None => conn.push(json!({"st": "none", "o": d.origin, "h2": d.h2, "busy": false, "up": false, "live": 0,
                    "by": d.rid, "parked": false, "dial": d.stage})),
            }
        }
        json!({"req": req, "conn": conn, "idle": idle, "wq": waiting, "cing": connecting, "ndial": w.dials.len(), "ticks": self.ticks})
    }
}
