//! Shared utilities of the verification harness.
pub mod pool_world;
pub mod trace;
