//! Shared utilities of the verification harness.
pub mod trace;
