//! C17 driver: every Pipeline vector as a concrete request through the real client stacks.
//!
//!   pipeline run <vectors.json> <certdir> <out.ndjson> <seed> <nspell> [<shard> <nshards> [<probe.json>]]
//!   pipeline probe <vectors.json> <certdir> <out.ndjson> <seed> <nspell>    (the probes only; writes <out>.probe.json)
//!   pipeline one <vectors.json> <certdir> <out.ndjson> <seed> <nspell>      (no probing; used for the probes)
//!
//! Stacks: `client` (hyperdriver::Client from client::Builder with a custom transport), `pool`
//! (ConnectionPoolService with a pool, inner layers as the builder stacks them), `nopool`
//! (ConnectionPoolService::without_pool), `connector` (ConnectorService with the same inner layers),
//! `connectorBare` (ConnectorLayer directly on RequestExecutor, as in tests/client/connector.rs).
//! Transports: `plain` (TlsTransport without TLS), `tls` (TLS configuration, no ALPN), `tlsalpn` (TLS
//! configuration offering h2 + http/1.1). The peer is a real hyper server (HTTP/1 and HTTP/2) behind an
//! optional real rustls acceptor, all over in-memory pipes.
//!
//! Configuration and history (C17 quantifies over "inputs, configurations"): a vector also carries classes of the
//! pool configuration (with / without pool, idle_timeout, max_idle_per_host, continue_after_preemption), of the
//! client builder (request timeout, redirect policy), of the transport below TLS (`net`: in memory, or the real
//! `TcpTransport` on loopback with TcpTransportConfig classes for connect_timeout, happy_eyeballs_timeout,
//! happy_eyeballs_concurrency, keep_alive_timeout, buffer sizes) and a history: the request is the 1st, 2nd or 3rd
//! request of the same client to the same origin, every previous one either completed with its connection idle,
//! still in flight (the peer's answer is held back on the wire), or completed with the connections then closed by
//! the peer. A vector at the centre of all of these runs exactly as before (`run_vector`); every other vector runs in
//! `run_scenario`: the same stacks built with the configuration, a relay between the transport and the peer that
//! can hold back the peer's bytes per connection and close connections, the previous requests, then the vector's
//! request in the caller's task inside catch_unwind. TCP vectors use a real clock (a paused clock fires every timer
//! as soon as the runtime waits for a socket) and loopback listeners.
//!
//! A configuration class that blocks the executor thread (a poll that never returns) cannot be timed out from
//! inside: the vectors that differ from the centre in exactly one configuration class are executed first, each in
//! a child process under a wall-clock limit (`probe`); a class whose probe is stuck twice is recorded as `stuck`
//! on the probe vector and the other vectors of that class are recorded as not executed.
//!
//! Every request runs on its own current-thread runtime with a paused clock, inside catch_unwind, with a
//! global panic hook; after the request resolved the runtime is settled and torn down, so a panic in any
//! task spawned for the request is recorded too. The binary is built twice by the check: release, and release
//! with debug assertions + overflow checks (what a `cargo build` user gets); a vector carries `da` and is only
//! executed by the matching build.

#[path = "../tls_common.rs"]
mod common;

use std::future::Future;
use std::pin::Pin;
use std::sync::atomic::{AtomicBool, AtomicU64, Ordering};
use std::sync::{Arc, Mutex};
use std::time::Duration;

use common::*;
use http_body_util::BodyExt;
use hyperdriver::client::conn::connection::HttpConnection;
use hyperdriver::client::conn::connector::{ConnectorLayer, ConnectorService};
use hyperdriver::client::conn::protocol::auto::HttpConnectionBuilder;
use hyperdriver::client::conn::transport::tcp::{TcpTransport, TcpTransportConfig};
use hyperdriver::client::conn::transport::TlsTransport;
use hyperdriver::client::pool::Pooled;
use hyperdriver::client::ConnectionPoolService;
use hyperdriver::service::{Http1ChecksLayer, Http2ChecksLayer, RequestExecutor, SetHostHeaderLayer};
use hyperdriver::Body;
use rand::{Rng, SeedableRng};
use serde_json::{json, Value};
use tokio::io::{AsyncRead, AsyncReadExt, AsyncWrite, AsyncWriteExt};

fn s<'a>(v: &'a Value, k: &str) -> &'a str {
    v.get(k).and_then(|x| x.as_str()).unwrap_or_else(|| panic!("vector field {k} missing in {v}"))
}

struct Concrete {
    method: String,
    uri: String,
    version: http::Version,
    headers: Vec<(String, Vec<u8>)>,
    body: Vec<u8>,
}

fn host_spellings(class: &str) -> Vec<String> {
    match class {
        "name" => vec!["verif.test".into(), "localhost".into(), "sub.verif.test".into(), "user:pw@verif.test".into()],
        "v4" => vec!["127.0.0.1".into(), "10.0.0.7".into(), "u@127.0.0.1".into()],
        "v6" => vec!["[::1]".into(), "[2001:db8::7]".into(), "[0:0:0:0:0:0:0:1]".into(), "[::ffff:127.0.0.1]".into()],
        // unusual but accepted as a DNS name by rustls
        "legal" => vec![
            "verif.test.".into(),
            "VERIF.TEST".into(),
            "ver_if.test".into(),
            "xn--nxasmq6b.test".into(),
            format!("{}.test", "a".repeat(63)),
            "1verif.2test".into(),
        ],
        // URI-legal (accepted by http::Uri), neither a DNS name nor an IP address
        _ => vec![
            "a!b.test".into(),
            "".into(),
            format!("{}.test", "a".repeat(64)),
            "a..b".into(),
            "127.1".into(),
            "[v1.x]".into(),
            "-".into(),
            "a,b;c=d".into(),
            format!("{}.test", "b".repeat(300)),
        ],
    }
}

/// hosts that resolve on loopback (or fail to resolve quickly, without the network) for the TCP vectors
fn host_spellings_tcp(class: &str) -> Vec<String> {
    match class {
        "name" => vec!["localhost".into()],
        "v4" => vec!["127.0.0.1".into(), "u@127.0.0.1".into()],
        "v6" => vec!["[::1]".into()],
        "legal" => vec!["LOCALHOST".into(), "localhost.".into(), "local_host".into()],
        _ => vec!["a!b.test".into(), "127.1".into(), "-".into(), "[v1.x]".into(), "".into(), "a..b".into()],
    }
}

/// `tcp_port`: Some(port of the loopback listener) for a vector over the real TCP transport
fn concrete(v: &Value, sp: usize, rng: &mut rand::rngs::StdRng, tcp_port: Option<u16>) -> Concrete {
    let pick = |n: usize, rng: &mut rand::rngs::StdRng| if sp == 0 { 0 } else { (sp + rng.gen_range(0..n)) % n };
    let version = match s(v, "ver") {
        "0.9" => http::Version::HTTP_09,
        "1.0" => http::Version::HTTP_10,
        "1.1" => http::Version::HTTP_11,
        "2" => http::Version::HTTP_2,
        _ => http::Version::HTTP_3,
    };
    let method = match s(v, "method") {
        "ext" => {
            let m = ["PROPFIND", "M-SEARCH", "X", "get", "!#$%&'*+-.^_`|~", "QUERYQUERYQUERYQUERYQUERYQUERYQUERYQUERYQUERYQUERY"];
            m[pick(m.len(), rng)].to_string()
        }
        m => m.to_string(),
    };
    let hs = if tcp_port.is_some() { host_spellings_tcp(s(v, "host")) } else { host_spellings(s(v, "host")) };
    let host = hs[pick(hs.len(), rng)].clone();
    let form = s(v, "uri");
    let secure = matches!(form, "https" | "wss");
    let port = if let Some(lp) = tcp_port {
        // the listener's port (always for the first spelling), sometimes the scheme's default or none
        let lp = format!(":{lp}");
        let p = [lp.as_str(), lp.as_str(), lp.as_str(), "", ":0", ":"];
        let i = pick(p.len(), rng);
        if host.is_empty() && (p[i].is_empty() || p[i] == ":") { lp.clone() } else { p[i].to_string() }
    } else {
        let p = [if secure { ":443" } else { ":80" }, "", ":8443", ":", ":65535", ":0"];
        let i = pick(p.len(), rng);
        // an empty host needs something after it to remain an authority
        if host.is_empty() && (p[i].is_empty() || p[i] == ":") { ":443".to_string() } else { p[i].to_string() }
    };
    let path = ["/", "/p?q=1", "", "/a%20b/../c;x=1?y[]=2", "/*"][pick(5, rng)];
    let uri = match form {
        "origin" => ["/p", "/", "/p?q=1", "/a%20b"][pick(4, rng)].to_string(),
        "asterisk" => "*".to_string(),
        "authority" => {
            // authority-form: host:port (what CONNECT uses); a bare host without port is also accepted by http::Uri
            let lp = tcp_port.map(|p| format!(":{p}")).unwrap_or_else(|| ":443".to_string());
            let p = [lp.as_str(), ":80", ":", "", ":8443"];
            let i = pick(p.len(), rng);
            let port = if host.is_empty() && (p[i].is_empty() || p[i] == ":") { lp.as_str() } else { p[i] };
            format!("{host}{port}")
        }
        "other" => {
            let sc = ["grpc", "foo+bar", "h2c", "ftp", "WSS"];
            format!("{}://{host}{port}{path}", sc[pick(sc.len(), rng)])
        }
        scheme => format!("{scheme}://{host}{port}{path}"),
    };
    let mut headers: Vec<(String, Vec<u8>)> = Vec::new();
    match s(v, "hdr") {
        "none" => {}
        "host" => {
            let h: [&[u8]; 5] = [b"other.test", b"verif.test:443", b"", b"\xff\xfe opaque", b"[::1]:1"];
            headers.push(("host".into(), h[pick(h.len(), rng)].to_vec()));
        }
        "conn" => {
            let c = ["keep-alive", "close", "upgrade", "keep-alive, upgrade, te"];
            headers.push(("connection".into(), c[pick(c.len(), rng)].as_bytes().to_vec()));
            headers.push(("upgrade".into(), b"websocket".to_vec()));
            headers.push(("keep-alive".into(), b"timeout=5".to_vec()));
            headers.push(("proxy-connection".into(), b"keep-alive".to_vec()));
            headers.push(("te".into(), b"trailers".to_vec()));
            if sp > 0 && rng.gen_bool(0.5) {
                headers.push(("transfer-encoding".into(), b"chunked".to_vec()));
            }
        }
        _ => {
            for i in 0..40 {
                headers.push((format!("x-h-{i}"), format!("v{i}").into_bytes()));
            }
            headers.push(("x-long".into(), vec![b'a'; [100usize, 9000, 70000][pick(3, rng)]]));
            headers.push(("x-opaque".into(), vec![0x80, 0xff, b' ', 0x09, b'z']));
            headers.push(("x-empty".into(), Vec::new()));
            match pick(4, rng) {
                1 => headers.push(("content-length".into(), b"3".to_vec())),
                2 => headers.push(("expect".into(), b"100-continue".to_vec())),
                3 => headers.push(("content-length".into(), b"notanumber".to_vec())),
                _ => {}
            }
            headers.push(("user-agent".into(), b"verif/0".to_vec()));
        }
    }
    let body = match s(v, "body") {
        "empty" => Vec::new(),
        _ => {
            let n = [10usize, 1, 100_000][pick(3, rng)];
            vec![b'x'; n]
        }
    };
    Concrete { method, uri, version, headers, body }
}

fn build_request(c: &Concrete) -> Result<http::Request<Body>, String> {
    let uri: http::Uri = c.uri.parse().map_err(|e| format!("uri: {e}"))?;
    let method = http::Method::from_bytes(c.method.as_bytes()).map_err(|e| format!("method: {e}"))?;
    let mut rb = http::Request::builder().method(method).uri(uri).version(c.version);
    for (k, val) in &c.headers {
        let hv = http::HeaderValue::from_bytes(val).map_err(|e| format!("header value: {e}"))?;
        rb = rb.header(k.as_str(), hv);
    }
    let body = if c.body.is_empty() { Body::empty() } else { Body::from(c.body.clone()) };
    rb.body(body).map_err(|e| format!("request: {e}"))
}

fn err_chain(e: &(dyn std::error::Error + 'static)) -> String {
    let mut s = e.to_string();
    let mut cur = e.source();
    while let Some(c) = cur {
        let t = c.to_string();
        if !s.contains(&t) {
            s.push_str(" <- ");
            s.push_str(&t);
        }
        cur = c.source();
    }
    s
}

type Outcome = Result<(u16, String, usize), (String, String)>;

/// ready + call + response + body, all inside the guarded region
async fn drive<S, RB>(svc: S, req: http::Request<Body>) -> Outcome
where
    S: tower::Service<http::Request<Body>, Response = http::Response<RB>, Error = hyperdriver::client::Error>,
    RB: http_body::Body,
{
    match tower::ServiceExt::oneshot(svc, req).await {
        Ok(resp) => {
            let status = resp.status().as_u16();
            let ver = format!("{:?}", resp.version());
            let n = match resp.into_body().collect().await {
                Ok(c) => c.to_bytes().len(),
                Err(_) => usize::MAX,
            };
            Ok((status, ver, n))
        }
        Err(e) => {
            let d = format!("{e:?}");
            let kind = d.split(|c: char| !c.is_alphanumeric()).next().unwrap_or("").to_string();
            Err((kind, err_chain(&e)))
        }
    }
}

fn run_vector(certs: &Certs, scfg: &Arc<rustls::ServerConfig>, id: usize, v: &Value, spx: usize, seed: u64) -> Option<Value> {
    let mut rng = rand::rngs::StdRng::seed_from_u64(seed ^ ((id as u64) << 8) ^ (spx as u64).wrapping_mul(0x9E37_79B9));
    let c = concrete(v, spx, &mut rng, None);
    let req = match build_request(&c) {
        Ok(r) => r,
        Err(e) => {
            // not a well-typed request value (http refuses to construct it): outside the property
            eprintln!("skip vector {id}/{spx}: {e} ({} {})", c.method, c.uri.chars().take(60).collect::<String>());
            return None;
        }
    };
    let stack = s(v, "stack").to_string();
    let transport_kind = s(v, "transport").to_string();
    let log: PeerLog = Arc::new(Mutex::new(Vec::new()));
    let _ = take_panics();
    let rt = tokio::runtime::Builder::new_current_thread().enable_all().start_paused(true).build().expect("runtime");
    let outcome = std::panic::catch_unwind(std::panic::AssertUnwindSafe(|| {
        rt.block_on(async {
            let (mem, rx) = MemTransport::new();
            let peer = tokio::spawn(run_peer(rx, PeerCfg { tls: Some(scfg.clone()), fault: Fault::None, app: App::Http }, log.clone()));
            let ccfg = match transport_kind.as_str() {
                "plain" => None,
                "tls" => Some(certs.client_config(&[]).0),
                _ => Some(certs.client_config(&["h2", "http/1.1"]).0),
            };
            let tt = || -> TlsTransport<MemTransport> {
                match &ccfg {
                    None => TlsTransport::new(mem.clone()),
                    Some(c) => TlsTransport::new(mem.clone()).with_tls(Arc::new(c.clone())),
                }
            };
            let fut: std::pin::Pin<Box<dyn std::future::Future<Output = Outcome>>> = match stack.as_str() {
                "client" => {
                    let b = hyperdriver::Client::builder()
                        .with_protocol(HttpConnectionBuilder::default())
                        .with_transport(mem.clone())
                        .with_default_pool();
                    let b = match &ccfg {
                        None => b.without_tls(),
                        Some(c) => b.with_tls(c.clone()),
                    };
                    let client = b.build();
                    Box::pin(drive(client, req))
                }
                "pool" | "nopool" => {
                    let inner = tower::ServiceBuilder::new()
                        .layer(SetHostHeaderLayer::new())
                        .layer(Http2ChecksLayer::new())
                        .layer(Http1ChecksLayer::new())
                        .service(RequestExecutor::<Pooled<HttpConnection<Body>, Body>, Body>::new());
                    let svc: ConnectionPoolService<_, _, _, Body> = ConnectionPoolService::new(
                        tt(),
                        HttpConnectionBuilder::<Body>::default(),
                        inner,
                        hyperdriver::client::PoolConfig::default(),
                    );
                    let svc = if stack == "nopool" { svc.without_pool() } else { svc };
                    Box::pin(drive(svc, req))
                }
                "connector" => {
                    let inner = tower::ServiceBuilder::new()
                        .layer(SetHostHeaderLayer::new())
                        .layer(Http2ChecksLayer::new())
                        .layer(Http1ChecksLayer::new())
                        .service(RequestExecutor::<HttpConnection<Body>, Body>::new());
                    let svc = ConnectorService::new(inner, tt(), HttpConnectionBuilder::<Body>::default());
                    Box::pin(drive(svc, req))
                }
                _ => {
                    let svc = tower::ServiceBuilder::new()
                        .layer(ConnectorLayer::new(tt(), HttpConnectionBuilder::<Body>::default()))
                        .service(RequestExecutor::<HttpConnection<Body>, Body>::new());
                    Box::pin(drive(svc, req))
                }
            };
            drop(mem);
            let res = match tokio::time::timeout(Duration::from_secs(30), guarded(fut)).await {
                Err(_) => json!({"result": "hang"}),
                Ok(Err(())) => json!({"result": "panic"}),
                Ok(Ok(Err((k, m)))) => json!({"result": "err", "errKind": k, "errMsg": m.chars().take(300).collect::<String>()}),
                Ok(Ok(Ok((status, ver, n)))) => json!({"result": "resp", "status": status, "respVersion": ver, "bodyLen": n}),
            };
            // every task spawned for the request (connection drivers, delayed checkouts, hyper's h2 tasks) runs to
            // quiescence; then the peer goes away and the rest is torn down with the runtime
            tokio::time::sleep(Duration::from_millis(1)).await;
            peer.abort();
            let _ = peer.await;
            tokio::time::sleep(Duration::from_millis(1)).await;
            res
        })
    }));
    let teardown = std::panic::catch_unwind(std::panic::AssertUnwindSafe(move || drop(rt)));
    let panics = take_panics();
    let mut obs = match outcome {
        Ok(r) => r,
        Err(_) => json!({"result": "panic", "where": "runtime"}),
    };
    if teardown.is_err() && obs["result"] != "panic" {
        obs["teardownPanic"] = json!(true);
    }
    for p in &panics {
        if is_harness_loc(&p.file) {
            eprintln!("harness panic at {}:{}: {} (vector {id}/{spx})", p.file, p.line, p.msg);
            std::process::exit(3);
        }
    }
    let caller = obs["result"] == "panic";
    if let Some(p) = panics.first() {
        obs["panicMsg"] = json!(p.msg.chars().take(160).collect::<String>());
        obs["panicLoc"] = json!(format!("{}:{}", short_loc(&p.file), p.line));
        obs["panicFile"] = json!(short_loc(&p.file));
    } else {
        obs["panicFile"] = json!("");
    }
    obs["panics"] = json!(panics.len());
    obs["panicLocs"] = json!(panics.iter().map(|p| format!("{}:{} {}", short_loc(&p.file), p.line, p.msg.chars().take(60).collect::<String>())).collect::<Vec<_>>());
    obs["taskPanics"] = json!(if caller { panics.len().saturating_sub(1) } else { panics.len() });
    obs["panicked"] = json!(!panics.is_empty() || caller);
    if obs["errKind"].is_null() {
        obs["errKind"] = json!("");
    }
    let conns = log.lock().unwrap().clone();
    obs["conns"] = json!(conns.len());
    obs["peerTls"] = json!(conns.iter().any(|c| c.hs_done));
    obs["peerAlpnH2"] = json!(conns.iter().any(|c| c.alpn.as_deref() == Some("h2")));
    obs["reqs"] = json!(conns.iter().flat_map(|c| c.reqs.iter().map(|r| r.chars().take(120).collect::<String>())).collect::<Vec<_>>());
    obs["class"] = json!(match obs["result"].as_str().unwrap_or("") {
        "panic" => "panic",
        _ if !panics.is_empty() => "task-panic",
        "resp" => "resp",
        "err" => "err",
        _ => "hang",
    });
    // the fields of the configuration x history vectors, for a uniform record: one request, every connection dialled
    // for it, first request of its client
    obs["stuck"] = json!(false);
    obs["dialsFinal"] = json!(conns.len());
    obs["prev"] = json!([]);
    obs["panicHist"] = json!(if panics.is_empty() && !caller { "" } else { "first" });
    Some(record(id, spx, v, &c, obs))
}

// ------------------------------------------------------------------------------------------------
// configuration x history vectors

const SC_DIMS: [(&str, &str); 13] = [
    ("net", "mem"),
    ("pool", "on"),
    ("idle", "default"),
    ("maxidle", "default"),
    ("cap", "on"),
    ("rto", "none"),
    ("redir", "off"),
    ("ct", "default"),
    ("het", "default"),
    ("hec", "default"),
    ("ka", "default"),
    ("buf", "none"),
    ("hist", "first"),
];

/// class of dimension `d` (the centre's when the vector does not carry it: vectors of the request grammar)
fn sc<'a>(v: &'a Value, d: &str) -> &'a str {
    match v.get(d).and_then(|x| x.as_str()) {
        Some(x) => x,
        None => SC_DIMS.iter().find(|(k, _)| *k == d).map(|(_, c)| *c).unwrap_or_else(|| panic!("unknown dimension {d}")),
    }
}

fn is_centre(v: &Value) -> bool {
    SC_DIMS.iter().all(|(d, c)| sc(v, d) == *c)
}

fn dur(class: &str, default: Duration) -> Option<Duration> {
    match class {
        "none" => None,
        "zero" => Some(Duration::ZERO),
        "tiny" => Some(Duration::from_nanos(1)),
        "max" => Some(Duration::MAX),
        "default" => Some(default),
        other => panic!("duration class {other}"),
    }
}

fn pool_config(v: &Value) -> hyperdriver::client::PoolConfig {
    let mut c = hyperdriver::client::PoolConfig::default();
    c.idle_timeout = dur(sc(v, "idle"), Duration::from_secs(90));
    c.max_idle_per_host = match sc(v, "maxidle") {
        "zero" => 0,
        "one" => 1,
        "max" => usize::MAX,
        _ => 32,
    };
    c.continue_after_preemption = sc(v, "cap") == "on";
    c
}

fn tcp_config(v: &Value) -> TcpTransportConfig {
    let mut c = TcpTransportConfig::default();
    c.connect_timeout = dur(sc(v, "ct"), Duration::from_secs(10));
    c.happy_eyeballs_timeout = dur(sc(v, "het"), Duration::from_secs(30));
    c.keep_alive_timeout = dur(sc(v, "ka"), Duration::from_secs(90));
    c.happy_eyeballs_concurrency = match sc(v, "hec") {
        "none" => None,
        "zero" => Some(0),
        "one" => Some(1),
        "max" => Some(usize::MAX),
        _ => Some(2),
    };
    let b = match sc(v, "buf") {
        "zero" => Some(0),
        "max" => Some(usize::MAX),
        _ => None,
    };
    c.send_buffer_size = b;
    c.recv_buffer_size = b;
    c
}

type OutFut = Pin<Box<dyn Future<Output = Outcome> + Send>>;
/// sends one request through (a clone of) the stack of the vector: every call is a request of the same client
type Sender = Box<dyn FnMut(http::Request<Body>) -> OutFut>;

fn sender_of<S, RB>(svc: S) -> Sender
where
    S: tower::Service<http::Request<Body>, Response = http::Response<RB>, Error = hyperdriver::client::Error> + Clone + Send + 'static,
    S::Future: Send,
    RB: http_body::Body + Send + 'static,
    RB::Data: Send,
{
    Box::new(move |req| Box::pin(drive(svc.clone(), req)))
}

/// the five stacks over the transport expression `$t` (evaluated once per use), configured by the vector
macro_rules! stack_sender {
    ($stack:expr, $v:expr, $ccfg:expr, $t:expr) => {{
        let v: &Value = $v;
        let ccfg: &Option<rustls::ClientConfig> = $ccfg;
        match $stack {
            "client" => {
                let b = hyperdriver::Client::builder().with_protocol(HttpConnectionBuilder::default()).with_transport($t);
                let b = if sc(v, "pool") == "on" { b.with_pool(pool_config(v)) } else { b.without_pool() };
                let b = b.with_optional_timeout(dur(sc(v, "rto"), Duration::from_secs(30)));
                let b = if sc(v, "redir") == "on" { b.with_standard_redirect_policy() } else { b.without_redirects() };
                let b = match ccfg {
                    None => b.without_tls(),
                    Some(c) => b.with_tls(c.clone()),
                };
                sender_of(b.build())
            }
            "pool" | "nopool" => {
                let tt = match ccfg {
                    None => TlsTransport::new($t),
                    Some(c) => TlsTransport::new($t).with_tls(Arc::new(c.clone())),
                };
                let inner = tower::ServiceBuilder::new()
                    .layer(SetHostHeaderLayer::new())
                    .layer(Http2ChecksLayer::new())
                    .layer(Http1ChecksLayer::new())
                    .service(RequestExecutor::<Pooled<HttpConnection<Body>, Body>, Body>::new());
                let svc: ConnectionPoolService<_, _, _, Body> =
                    ConnectionPoolService::new(tt, HttpConnectionBuilder::<Body>::default(), inner, pool_config(v));
                let svc = if $stack == "nopool" { svc.without_pool() } else { svc };
                sender_of(svc)
            }
            "connector" => {
                let tt = match ccfg {
                    None => TlsTransport::new($t),
                    Some(c) => TlsTransport::new($t).with_tls(Arc::new(c.clone())),
                };
                let inner = tower::ServiceBuilder::new()
                    .layer(SetHostHeaderLayer::new())
                    .layer(Http2ChecksLayer::new())
                    .layer(Http1ChecksLayer::new())
                    .service(RequestExecutor::<HttpConnection<Body>, Body>::new());
                sender_of(ConnectorService::new(inner, tt, HttpConnectionBuilder::<Body>::default()))
            }
            _ => {
                let tt = match ccfg {
                    None => TlsTransport::new($t),
                    Some(c) => TlsTransport::new($t).with_tls(Arc::new(c.clone())),
                };
                let svc = tower::ServiceBuilder::new()
                    .layer(ConnectorLayer::new(tt, HttpConnectionBuilder::<Body>::default()))
                    .service(RequestExecutor::<HttpConnection<Body>, Body>::new());
                sender_of(svc)
            }
        }
    }};
}

/// One relayed connection: the peer's bytes reach the client only while the gate is open; aborting the relay
/// closes the connection in both directions (what a peer closing it looks like).
struct ConnCtl {
    gate: tokio::sync::watch::Sender<bool>,
    relay: tokio::task::AbortHandle,
}

/// The wire between the transport and the peer.
#[derive(Default)]
struct NetCtl {
    conns: Mutex<Vec<ConnCtl>>,
    hold_new: AtomicBool,
}

impl NetCtl {
    fn attach<A>(&self, client_side: A, peer_tx: &tokio::sync::mpsc::UnboundedSender<tokio::io::DuplexStream>)
    where
        A: AsyncRead + AsyncWrite + Send + Unpin + 'static,
    {
        let (c, d) = tokio::io::duplex(64 * 1024);
        let _ = peer_tx.send(d);
        let (gate, rx) = tokio::sync::watch::channel(!self.hold_new.load(Ordering::SeqCst));
        let relay = tokio::spawn(relay(client_side, c, rx)).abort_handle();
        self.conns.lock().unwrap().push(ConnCtl { gate, relay });
    }
    fn count(&self) -> usize {
        self.conns.lock().unwrap().len()
    }
    fn close_gates(&self) {
        for c in self.conns.lock().unwrap().iter() {
            c.gate.send_replace(false);
        }
    }
    fn open_gate(&self, i: usize) {
        if let Some(c) = self.conns.lock().unwrap().get(i) {
            c.gate.send_replace(true);
        }
    }
    fn open_all(&self) {
        self.hold_new.store(false, Ordering::SeqCst);
        for c in self.conns.lock().unwrap().iter() {
            c.gate.send_replace(true);
        }
    }
    fn kill_all(&self) {
        for c in self.conns.lock().unwrap().iter() {
            c.relay.abort();
        }
    }
}

async fn gate_open(gate: &mut tokio::sync::watch::Receiver<bool>) -> bool {
    loop {
        if *gate.borrow() {
            return true;
        }
        if gate.changed().await.is_err() {
            return false;
        }
    }
}

async fn relay<A>(client_side: A, server_side: tokio::io::DuplexStream, mut gate: tokio::sync::watch::Receiver<bool>)
where
    A: AsyncRead + AsyncWrite + Send + Unpin + 'static,
{
    let (mut cr, mut cw) = tokio::io::split(client_side);
    let (mut sr, mut sw) = tokio::io::split(server_side);
    let up = async {
        let _ = tokio::io::copy(&mut cr, &mut sw).await;
        let _ = sw.shutdown().await;
    };
    let down = async {
        let mut buf = vec![0u8; 16 * 1024];
        loop {
            if !gate_open(&mut gate).await {
                break;
            }
            let n = match sr.read(&mut buf).await {
                Ok(0) | Err(_) => break,
                Ok(n) => n,
            };
            if !gate_open(&mut gate).await {
                break;
            }
            if cw.write_all(&buf[..n]).await.is_err() || cw.flush().await.is_err() {
                break;
            }
        }
        let _ = cw.shutdown().await;
    };
    tokio::join!(up, down);
}

/// every task that can run has run: under the paused clock 1 ms passes only when the runtime is idle; with real
/// sockets a few milliseconds of real time
async fn settle(real: bool) {
    if real {
        for _ in 0..4 {
            tokio::task::yield_now().await;
        }
        tokio::time::sleep(Duration::from_millis(1)).await;
        for _ in 0..4 {
            tokio::task::yield_now().await;
        }
    } else {
        tokio::time::sleep(Duration::from_millis(1)).await;
    }
}

fn outcome_json(o: Result<Result<Outcome, ()>, tokio::time::error::Elapsed>) -> Value {
    match o {
        Err(_) => json!({"result": "hang"}),
        Ok(Err(())) => json!({"result": "panic"}),
        Ok(Ok(Err((k, m)))) => json!({"result": "err", "errKind": k, "errMsg": m.chars().take(300).collect::<String>()}),
        Ok(Ok(Ok((status, ver, n)))) => json!({"result": "resp", "status": status, "respVersion": ver, "bodyLen": n}),
    }
}

fn hist_states(h: &str) -> Vec<&str> {
    if h == "first" {
        Vec::new()
    } else {
        h.split('-').collect()
    }
}

fn hist_name(states: &[&str]) -> String {
    match states.len() {
        0 => "first".to_string(),
        1 => format!("second-{}", states[0]),
        _ => format!("third-{}", states.join("-")),
    }
}

fn run_scenario(certs: &Certs, scfg: &Arc<rustls::ServerConfig>, id: usize, v: &Value, spx: usize, seed: u64) -> Option<Value> {
    let mut rng = rand::rngs::StdRng::seed_from_u64(seed ^ ((id as u64) << 8) ^ (spx as u64).wrapping_mul(0x9E37_79B9));
    let tcp = sc(v, "net") == "tcp";
    let stack = s(v, "stack").to_string();
    let transport_kind = s(v, "transport").to_string();
    let states: Vec<String> = hist_states(sc(v, "hist")).into_iter().map(|x| x.to_string()).collect();
    let log: PeerLog = Arc::new(Mutex::new(Vec::new()));
    let _ = take_panics();
    let mut rtb = tokio::runtime::Builder::new_current_thread();
    rtb.enable_all();
    if !tcp {
        rtb.start_paused(true);
    }
    let rt = rtb.build().expect("runtime");
    // panics seen so far, with the step during which they were raised (0-based request index, or "settle")
    let steps: Arc<Mutex<Vec<(String, PanicRec)>>> = Arc::new(Mutex::new(Vec::new()));
    let note = |steps: &Arc<Mutex<Vec<(String, PanicRec)>>>, step: String| {
        for p in take_panics() {
            steps.lock().unwrap().push((step.clone(), p));
        }
    };
    let mut conc: Option<Concrete> = None;
    let mut skipped: Option<String> = None;
    let outcome = std::panic::catch_unwind(std::panic::AssertUnwindSafe(|| {
        rt.block_on(async {
            let net = Arc::new(NetCtl::default());
            let (peer_tx, peer_rx) = tokio::sync::mpsc::unbounded_channel();
            let peer = tokio::spawn(run_peer(peer_rx, PeerCfg { tls: Some(scfg.clone()), fault: Fault::None, app: App::Http }, log.clone()));
            let ccfg = match transport_kind.as_str() {
                "plain" => None,
                "tls" => Some(certs.client_config(&[]).0),
                _ => Some(certs.client_config(&["h2", "http/1.1"]).0),
            };
            let mut acceptors = Vec::new();
            let mut port = None;
            let mut send: Sender = if tcp {
                // loopback listeners (IPv4, and IPv6 on the same port when available)
                let l4 = tokio::net::TcpListener::bind("127.0.0.1:0").await.expect("bind 127.0.0.1");
                let p = l4.local_addr().expect("local addr").port();
                port = Some(p);
                let mut ls = vec![l4];
                if let Ok(l6) = tokio::net::TcpListener::bind(("::1", p)).await {
                    ls.push(l6);
                }
                for l in ls {
                    let (net, peer_tx) = (net.clone(), peer_tx.clone());
                    acceptors.push(tokio::spawn(async move {
                        while let Ok((io, _)) = l.accept().await {
                            net.attach(io, &peer_tx);
                        }
                    }));
                }
                let cfg = tcp_config(v);
                let mk = || -> TcpTransport { TcpTransport::builder().with_config(cfg.clone()).with_gai_resolver().build() };
                stack_sender!(stack.as_str(), v, &ccfg, mk())
            } else {
                let (mem, mut rx) = MemTransport::new();
                let (net2, peer_tx2) = (net.clone(), peer_tx.clone());
                acceptors.push(tokio::spawn(async move {
                    while let Some(io) = rx.recv().await {
                        net2.attach(io, &peer_tx2);
                    }
                }));
                stack_sender!(stack.as_str(), v, &ccfg, mem.clone())
            };
            drop(peer_tx);
            let c = concrete(v, spx, &mut rng, port);
            let req = match build_request(&c) {
                Ok(r) => r,
                Err(e) => {
                    skipped = Some(format!("{e} ({} {})", c.method, c.uri.chars().take(60).collect::<String>()));
                    conc = Some(c);
                    return json!({"result": "skipped"});
                }
            };
            // previous requests: ordinary GETs to the origin of the vector's URI (or the default origin when the
            // URI has none), in the vector's HTTP version when the library speaks it
            let origin = match c.uri.parse::<http::Uri>() {
                Ok(u) if u.scheme().is_some() && u.authority().is_some() => format!("{}://{}", u.scheme_str().unwrap(), u.authority().unwrap()),
                _ => match port {
                    Some(p) => format!("http://127.0.0.1:{p}"),
                    None => "http://verif.test".to_string(),
                },
            };
            let pver = match c.version {
                http::Version::HTTP_10 | http::Version::HTTP_11 | http::Version::HTTP_2 => c.version,
                _ => http::Version::HTTP_11,
            };
            let bound = if tcp { Duration::from_millis(200) } else { Duration::from_secs(2) };
            let mut pending: Vec<(usize, tokio::task::JoinHandle<Result<Outcome, ()>>)> = Vec::new();
            let mut prev: Vec<Value> = Vec::new();
            for (k, st) in states.iter().enumerate() {
                let preq = http::Request::builder()
                    .method("GET")
                    .uri(format!("{origin}/prev-{k}"))
                    .version(pver)
                    .body(Body::empty())
                    .expect("previous request");
                if st == "inflight" {
                    // the answer stays on the wire: on every connection open now and on those dialled for it
                    net.close_gates();
                    net.hold_new.store(true, Ordering::SeqCst);
                }
                let fut = send(preq);
                let mut h = tokio::spawn(guarded(fut));
                if st == "inflight" {
                    settle(tcp).await;
                    net.hold_new.store(false, Ordering::SeqCst);
                    prev.push(json!({"state": st, "result": "inflight"}));
                    pending.push((k, h));
                } else {
                    match tokio::time::timeout(bound, &mut h).await {
                        Ok(Ok(o)) => prev.push({
                            let mut j = outcome_json(Ok(o));
                            j["state"] = json!(st);
                            j
                        }),
                        Ok(Err(_join)) => prev.push(json!({"state": st, "result": "panic"})),
                        Err(_) => {
                            // cannot complete (multiplexed on a connection whose answers are held back): stays in flight
                            prev.push(json!({"state": st, "result": "inflight"}));
                            pending.push((k, h));
                        }
                    }
                    settle(tcp).await;
                    if st == "closed" {
                        net.kill_all();
                        settle(tcp).await;
                    }
                }
                note(&steps, format!("{k}"));
            }
            let before = net.count();
            // the vector's request, in the caller's task; while a previous request is in flight new connections are
            // held too, then the wire is released connection by connection in the order they were dialled
            if !pending.is_empty() {
                net.hold_new.store(true, Ordering::SeqCst);
            }
            let releaser = {
                let net = net.clone();
                let held = !pending.is_empty();
                tokio::spawn(async move {
                    if !held {
                        return;
                    }
                    settle(tcp).await;
                    let mut i = 0;
                    loop {
                        if i >= net.count() {
                            // everything dialled so far is released; later connections are not held
                            net.hold_new.store(false, Ordering::SeqCst);
                            settle(tcp).await;
                            if i >= net.count() {
                                break;
                            }
                        }
                        net.open_gate(i);
                        i += 1;
                        settle(tcp).await;
                    }
                })
            };
            let fut = send(req);
            drop(send);
            let guard = if tcp { Duration::from_secs(20) } else { Duration::from_secs(30) };
            let mut res = outcome_json(tokio::time::timeout(guard, guarded(fut)).await);
            let after = net.count();
            note(&steps, format!("{}", states.len()));
            res["dialsFinal"] = json!(after - before);
            // let everything finish: the wire is open, the requests still in flight complete
            let _ = releaser.await;
            net.open_all();
            for (k, h) in pending {
                let r = match tokio::time::timeout(bound, h).await {
                    Ok(Ok(o)) => outcome_json(Ok(o))["result"].clone(),
                    Ok(Err(_)) => json!("panic"),
                    Err(_) => json!("hang"),
                };
                prev[k]["later"] = r;
            }
            settle(tcp).await;
            res["prev"] = json!(prev);
            for a in &acceptors {
                a.abort();
            }
            net.kill_all();
            peer.abort();
            let _ = peer.await;
            settle(tcp).await;
            conc = Some(c);
            res
        })
    }));
    let teardown = std::panic::catch_unwind(std::panic::AssertUnwindSafe(move || drop(rt)));
    note(&steps, "teardown".to_string());
    if let Some(why) = skipped {
        eprintln!("skip vector {id}/{spx}: {why}");
        return None;
    }
    let steps = steps.lock().unwrap().clone();
    let mut obs = match outcome {
        Ok(r) => r,
        Err(_) => json!({"result": "panic", "where": "runtime"}),
    };
    if teardown.is_err() && obs["result"] != "panic" {
        obs["teardownPanic"] = json!(true);
    }
    for (_, p) in &steps {
        if is_harness_loc(&p.file) {
            eprintln!("harness panic at {}:{}: {} (vector {id}/{spx})", p.file, p.line, p.msg);
            std::process::exit(3);
        }
    }
    let caller = obs["result"] == "panic";
    if let Some((step, p)) = steps.first() {
        obs["panicMsg"] = json!(p.msg.chars().take(160).collect::<String>());
        obs["panicLoc"] = json!(format!("{}:{}", short_loc(&p.file), p.line));
        obs["panicFile"] = json!(short_loc(&p.file));
        // the history at the first panic: the requests before the one during which it was raised
        let upto = step.parse::<usize>().unwrap_or(states.len()).min(states.len());
        let st: Vec<&str> = states.iter().take(upto).map(|x| x.as_str()).collect();
        obs["panicHist"] = json!(hist_name(&st));
        obs["panicStep"] = json!(step);
        // whose task: the caller's task of the request during which it was raised (that request unwound), or another
        let unwound = match step.parse::<usize>() {
            Ok(k) if k < states.len() => obs["prev"][k]["result"] == "panic" || obs["prev"][k]["later"] == "panic",
            Ok(_) => caller,
            Err(_) => false,
        };
        obs["panicWhere"] = json!(if unwound { "caller" } else { "task" });
    } else {
        obs["panicFile"] = json!("");
        obs["panicHist"] = json!("");
    }
    let prev_panicked = obs["prev"].as_array().map(|a| a.iter().any(|p| p["result"] == "panic" || p["later"] == "panic")).unwrap_or(false);
    obs["panics"] = json!(steps.len());
    obs["panicLocs"] = json!(steps.iter().map(|(st, p)| format!("[{st}] {}:{} {}", short_loc(&p.file), p.line, p.msg.chars().take(60).collect::<String>())).collect::<Vec<_>>());
    obs["taskPanics"] = json!(if caller { steps.len().saturating_sub(1) } else { steps.len() });
    obs["panicked"] = json!(!steps.is_empty() || caller || prev_panicked);
    obs["stuck"] = json!(false);
    if obs["errKind"].is_null() {
        obs["errKind"] = json!("");
    }
    if obs["dialsFinal"].is_null() {
        obs["dialsFinal"] = json!(0);
    }
    if obs["prev"].is_null() {
        obs["prev"] = json!([]);
    }
    let conns = log.lock().unwrap().clone();
    obs["conns"] = json!(conns.len());
    obs["peerTls"] = json!(conns.iter().any(|c| c.hs_done));
    obs["peerAlpnH2"] = json!(conns.iter().any(|c| c.alpn.as_deref() == Some("h2")));
    obs["reqs"] = json!(conns.iter().flat_map(|c| c.reqs.iter().map(|r| r.chars().take(120).collect::<String>())).collect::<Vec<_>>());
    obs["class"] = json!(match obs["result"].as_str().unwrap_or("") {
        "panic" => "panic",
        _ if obs["panicked"] == true => "task-panic",
        "resp" => "resp",
        "err" => "err",
        _ => "hang",
    });
    let c = conc.unwrap_or(Concrete { method: String::new(), uri: String::new(), version: http::Version::HTTP_11, headers: Vec::new(), body: Vec::new() });
    Some(record(id, spx, v, &c, obs))
}

fn record(id: usize, spx: usize, v: &Value, c: &Concrete, obs: Value) -> Value {
    let mut vv = v.as_object().cloned().unwrap_or_default();
    for k in ["exp", "expAsBuilt", "id", "spx"] {
        vv.remove(k);
    }
    // a vector of the request grammar alone is at the centre of every other dimension
    for (d, c) in SC_DIMS {
        vv.entry(d.to_string()).or_insert(json!(c));
    }
    json!({
        "e": "Vec", "id": id, "spx": spx, "build": if cfg!(debug_assertions) { "da" } else { "release" }, "v": Value::Object(vv),
        "sp": {"method": c.method, "uri": c.uri.chars().take(400).collect::<String>(), "version": format!("{:?}", c.version),
               "headers": c.headers.iter().map(|(k, v)| format!("{k}: {}", String::from_utf8_lossy(&v[..std::cmp::min(v.len(), 40)]))).collect::<Vec<_>>(),
               "bodyLen": c.body.len()},
        "exp": v.get("exp").cloned().unwrap_or(json!({})),
        "expAsBuilt": v.get("expAsBuilt").cloned().unwrap_or(json!({})),
        "obs": obs,
    })
}

/// a record for a vector that was not run in this process: `stuck` (its probe never returned) or `notrun`
/// (it belongs to a class whose probe is stuck)
fn unrun_record(id: usize, spx: usize, v: &Value, class: &str, why: &str) -> Value {
    let c = Concrete { method: String::new(), uri: String::new(), version: http::Version::HTTP_11, headers: Vec::new(), body: Vec::new() };
    let obs = json!({"result": class, "class": class, "panicked": false, "stuck": class == "stuck", "why": why, "panicFile": "", "panicHist": "",
                     "panics": 0, "panicLocs": [], "taskPanics": 0, "errKind": "", "dialsFinal": 0, "prev": [], "conns": 0,
                     "peerTls": false, "peerAlpnH2": false, "reqs": []});
    record(id, spx, v, &c, obs)
}

/// configuration dimensions a probe isolates
const CFG_DIMS: [&str; 11] = ["pool", "idle", "maxidle", "cap", "rto", "redir", "ct", "het", "hec", "ka", "buf"];

/// Some((dimension, class)) if the vector is the centre request, first request, with exactly one configuration
/// class off the centre
fn probe_class(v: &Value) -> Option<(String, String)> {
    let req_ok = s(v, "ver") == "1.1" && s(v, "method") == "GET" && s(v, "uri") == "http" && s(v, "stack") == "client"
        && s(v, "transport") == "plain" && sc(v, "hist") == "first" && matches!(s(v, "host"), "name" | "v4");
    if !req_ok {
        return None;
    }
    let off: Vec<&str> = CFG_DIMS.iter().copied().filter(|d| sc(v, d) != SC_DIMS.iter().find(|(k, _)| k == d).unwrap().1).collect();
    if off.len() == 1 {
        Some((off[0].to_string(), sc(v, off[0]).to_string()))
    } else {
        None
    }
}

enum Probe {
    Done(Value),
    /// the child did not finish within the limit (killed)
    Stuck,
    /// the child failed for another reason (a tool error)
    Failed(String),
}

/// run one vector in a child process under a wall-clock limit
fn probe(args: &[String], v: &Value, id: usize, limit: Duration) -> Probe {
    let dir = std::path::Path::new(&args[4]).parent().map(|p| p.to_path_buf()).unwrap_or_else(|| ".".into());
    let tag = format!("probe-{}-{}-{id}", if cfg!(debug_assertions) { "da" } else { "release" }, std::process::id());
    let vp = dir.join(format!("{tag}.json"));
    let op = dir.join(format!("{tag}.ndjson"));
    let mut one = v.clone();
    one["spx"] = json!(0);
    std::fs::write(&vp, serde_json::to_string(&vec![one]).unwrap()).expect("write probe vector");
    let mut child = std::process::Command::new(std::env::current_exe().expect("current exe"))
        .args(["one", vp.to_str().unwrap(), &args[3], op.to_str().unwrap(), &args[5], "1"])
        .stdout(std::process::Stdio::null())
        .stderr(std::process::Stdio::null())
        .spawn()
        .expect("spawn probe");
    let t0 = std::time::Instant::now();
    let res = loop {
        match child.try_wait() {
            Ok(Some(st)) if st.success() => {
                break match std::fs::read_to_string(&op).ok().and_then(|t| t.lines().next().and_then(|l| serde_json::from_str::<Value>(l).ok())) {
                    Some(r) => Probe::Done(r),
                    None => Probe::Failed("no record".to_string()),
                }
            }
            Ok(Some(st)) => break Probe::Failed(format!("exit {st}")),
            Ok(None) if t0.elapsed() > limit => {
                let _ = child.kill();
                let _ = child.wait();
                break Probe::Stuck;
            }
            Ok(None) => std::thread::sleep(Duration::from_millis(5)),
            Err(e) => break Probe::Failed(e.to_string()),
        }
    };
    let _ = std::fs::remove_file(&vp);
    let _ = std::fs::remove_file(&op);
    res
}

fn main() {
    let args: Vec<String> = std::env::args().collect();
    if args.len() < 7 || !(args[1] == "run" || args[1] == "one" || args[1] == "probe") {
        eprintln!("usage: pipeline run|one|probe <vectors.json> <certdir> <out.ndjson> <seed> <nspell> [<shard> <nshards> [<probe.json>]]");
        std::process::exit(2);
    }
    let mode = args[1].clone();
    let vectors: Vec<Value> = serde_json::from_str(&std::fs::read_to_string(&args[2]).expect("read vectors")).expect("vectors json");
    let seed: u64 = args[5].parse().expect("seed");
    let nspell: usize = args[6].parse().expect("nspell");
    let shard: usize = args.get(7).map(|x| x.parse().expect("shard")).unwrap_or(0);
    let nshards: usize = args.get(8).map(|x| x.parse().expect("nshards")).unwrap_or(1);
    let da = cfg!(debug_assertions);
    install_crypto();
    install_panic_hook();
    let certs = Certs { dir: args[3].clone() };
    let scfg = certs.server_config("match", &["h2", "http/1.1"]);
    let mut out = vh::trace::TraceOut::create(&args[4]);
    // watchdog: a vector that blocks this thread for minutes is a tool failure (named on stderr), not a silent hang
    let progress = Arc::new(AtomicU64::new(0));
    {
        let progress = progress.clone();
        std::thread::spawn(move || {
            let mut last = (u64::MAX, std::time::Instant::now());
            loop {
                std::thread::sleep(Duration::from_secs(1));
                let p = progress.load(Ordering::SeqCst);
                if p != last.0 {
                    last = (p, std::time::Instant::now());
                } else if last.1.elapsed() > Duration::from_secs(150) {
                    eprintln!("watchdog: vector id {} blocks the executor thread (no progress for 150 s)", p);
                    std::process::exit(4);
                }
            }
        });
    }
    let mine: Vec<(usize, &Value)> = vectors
        .iter()
        .enumerate()
        .filter(|(_, v)| v.get("da").and_then(|x| x.as_bool()).unwrap_or(false) == da)
        .map(|(i, v)| (v.get("id").and_then(|x| x.as_u64()).map(|x| x as usize).unwrap_or(i + 1), v))
        .filter(|(id, _)| id % nshards == shard)
        .collect();
    // 1. probes: one configuration class off the centre, in a child process under a wall-clock limit. `probe` mode
    //    runs them for the whole build and writes <out>.probe.json; `run` takes that file (args[9]) or probes itself
    let all_mine: Vec<(usize, &Value)> = vectors
        .iter()
        .enumerate()
        .filter(|(_, v)| v.get("da").and_then(|x| x.as_bool()).unwrap_or(false) == da)
        .map(|(i, v)| (v.get("id").and_then(|x| x.as_u64()).map(|x| x as usize).unwrap_or(i + 1), v))
        .collect();
    let mut stuck: Vec<(String, String)> = Vec::new();
    let mut probed: std::collections::HashMap<usize, Value> = std::collections::HashMap::new();
    let mut probed_elsewhere: std::collections::HashSet<usize> = std::collections::HashSet::new();
    let mut nprobes = 0usize;
    if let Some(pf) = args.get(9) {
        let j: Value = serde_json::from_str(&std::fs::read_to_string(pf).expect("read probe file")).expect("probe json");
        for x in j["stuck"].as_array().cloned().unwrap_or_default() {
            stuck.push((x[0].as_str().unwrap().to_string(), x[1].as_str().unwrap().to_string()));
        }
        for x in j["probed"].as_array().cloned().unwrap_or_default() {
            probed_elsewhere.insert(x.as_u64().unwrap() as usize);
        }
    } else if mode != "one" {
        let mut seen = std::collections::HashSet::new();
        for (id, v) in &all_mine {
            if is_centre(v) {
                continue;
            }
            let Some(cl) = probe_class(v) else { continue };
            if !seen.insert((cl.clone(), sc(v, "net").to_string())) {
                continue;
            }
            nprobes += 1;
            progress.store(*id as u64, Ordering::SeqCst);
            let limit = Duration::from_secs(10);
            match probe(&args, v, *id, limit) {
                Probe::Done(rec) => {
                    probed.insert(*id, rec);
                }
                Probe::Failed(why) => {
                    eprintln!("probe of vector {id} ({}={}) failed: {why}", cl.0, cl.1);
                    std::process::exit(5);
                }
                Probe::Stuck => match probe(&args, v, *id, limit) {
                    Probe::Done(rec) => {
                        eprintln!("probe of vector {id} ({}={}) was slow once", cl.0, cl.1);
                        probed.insert(*id, rec);
                    }
                    Probe::Failed(why) => {
                        eprintln!("probe of vector {id} ({}={}) failed: {why}", cl.0, cl.1);
                        std::process::exit(5);
                    }
                    Probe::Stuck => {
                        eprintln!("probe of vector {id}: {}={} blocks the executor thread (no return within {limit:?}, twice)", cl.0, cl.1);
                        probed.insert(*id, unrun_record(*id, 0, v, "stuck", &format!("{}={}", cl.0, cl.1)));
                        stuck.push(cl);
                    }
                },
            }
        }
    }
    if mode == "probe" {
        let mut ids: Vec<usize> = probed.keys().copied().collect();
        ids.sort();
        for id in &ids {
            out.emit(&probed[id]);
        }
        out.finish();
        let summary = json!({"probes": nprobes, "probed": ids, "stuck": stuck.iter().map(|(d, c)| json!([d, c])).collect::<Vec<_>>(),
                             "records": ids.len(), "debug_assertions": da});
        std::fs::write(format!("{}.probe.json", args[4]), summary.to_string()).expect("write probe file");
        println!("{summary}");
        return;
    }
    // 2. the vectors
    let (mut n, mut skipped, mut notrun, mut elsewhere) = (0usize, 0usize, 0usize, 0usize);
    for (id, v) in &mine {
        let id = *id;
        progress.store(id as u64, Ordering::SeqCst);
        let sps: Vec<usize> = match v.get("spx").and_then(|x| x.as_u64()) {
            Some(x) => vec![x as usize],
            None => (0..nspell).collect(),
        };
        for spx in sps {
            if spx == 0 {
                if let Some(rec) = probed.remove(&id) {
                    out.emit(&rec);
                    n += 1;
                    continue;
                }
                if probed_elsewhere.contains(&id) {
                    // executed (and recorded) by the probe phase
                    elsewhere += 1;
                    continue;
                }
            }
            if let Some((d, c)) = stuck.iter().find(|(d, c)| sc(v, d) == c.as_str()) {
                // not executed: it would block this thread like the probe of its class
                out.emit(&unrun_record(id, spx, v, "notrun", &format!("{d}={c}")));
                n += 1;
                notrun += 1;
                continue;
            }
            let rec = if is_centre(v) { run_vector(&certs, &scfg, id, v, spx, seed) } else { run_scenario(&certs, &scfg, id, v, spx, seed) };
            match rec {
                Some(rec) => {
                    out.emit(&rec);
                    n += 1;
                }
                None => skipped += 1,
            }
        }
    }
    out.finish();
    println!(
        "{}",
        json!({"records": n, "skipped": skipped, "vectors": mine.len(), "debug_assertions": da, "probes": nprobes,
               "stuck_classes": stuck.iter().map(|(d, c)| format!("{d}={c}")).collect::<Vec<_>>(), "not_executed": notrun,
               "probed_elsewhere": elsewhere})
    );
}
