//! C17 driver: every Pipeline vector as a concrete request through the real client stacks.
//!
//!   pipeline run <vectors.json> <certdir> <out.ndjson> <seed> <nspell>
//!
//! Stacks: `client` (hyperdriver::Client from client::Builder with a custom transport), `pool`
//! (ConnectionPoolService with a pool, inner layers as the builder stacks them), `nopool`
//! (ConnectionPoolService::without_pool), `connector` (ConnectorService with the same inner layers),
//! `connectorBare` (ConnectorLayer directly on RequestExecutor, as in tests/client/connector.rs).
//! Transports: `plain` (TlsTransport without TLS), `tls` (TLS configuration, no ALPN), `tlsalpn` (TLS
//! configuration offering h2 + http/1.1). The peer is a real hyper server (HTTP/1 and HTTP/2) behind an
//! optional real rustls acceptor, all over in-memory pipes.
//!
//! Every request runs on its own current-thread runtime with a paused clock, inside catch_unwind, with a
//! global panic hook; after the request resolved the runtime is settled and torn down, so a panic in any
//! task spawned for the request is recorded too. The binary is built twice by the check: release, and release
//! with debug assertions + overflow checks (what a `cargo build` user gets); a vector carries `da` and is only
//! executed by the matching build.

#[path = "../tls_common.rs"]
mod common;

use std::sync::{Arc, Mutex};
use std::time::Duration;

use common::*;
use http_body_util::BodyExt;
use hyperdriver::client::conn::connection::HttpConnection;
use hyperdriver::client::conn::connector::{ConnectorLayer, ConnectorService};
use hyperdriver::client::conn::protocol::auto::HttpConnectionBuilder;
use hyperdriver::client::conn::transport::TlsTransport;
use hyperdriver::client::pool::Pooled;
use hyperdriver::client::ConnectionPoolService;
use hyperdriver::service::{Http1ChecksLayer, Http2ChecksLayer, RequestExecutor, SetHostHeaderLayer};
use hyperdriver::Body;
use rand::{Rng, SeedableRng};
use serde_json::{json, Value};

fn s<'a>(v: &'a Value, k: &str) -> &'a str {
    v.get(k).and_then(|x| x.as_str()).unwrap_or_else(|| panic!("vector field {k} missing in {v}"))
}

struct Concrete {
    method: String,
    uri: String,
    version: http::Version,
    headers: Vec<(String, Vec<u8>)>,
    body: Vec<u8>,
}

fn host_spellings(class: &str) -> Vec<String> {
    match class {
        "name" => vec!["verif.test".into(), "localhost".into(), "sub.verif.test".into(), "user:pw@verif.test".into()],
        "v4" => vec!["127.0.0.1".into(), "10.0.0.7".into(), "u@127.0.0.1".into()],
        "v6" => vec!["[::1]".into(), "[2001:db8::7]".into(), "[0:0:0:0:0:0:0:1]".into(), "[::ffff:127.0.0.1]".into()],
        // unusual but accepted as a DNS name by rustls
        "legal" => vec![
            "verif.test.".into(),
            "VERIF.TEST".into(),
            "ver_if.test".into(),
            "xn--nxasmq6b.test".into(),
            format!("{}.test", "a".repeat(63)),
            "1verif.2test".into(),
        ],
        // URI-legal (accepted by http::Uri), neither a DNS name nor an IP address
        _ => vec![
            "a!b.test".into(),
            "".into(),
            format!("{}.test", "a".repeat(64)),
            "a..b".into(),
            "127.1".into(),
            "[v1.x]".into(),
            "-".into(),
            "a,b;c=d".into(),
            format!("{}.test", "b".repeat(300)),
        ],
    }
}

fn concrete(v: &Value, sp: usize, rng: &mut rand::rngs::StdRng) -> Concrete {
    let pick = |n: usize, rng: &mut rand::rngs::StdRng| if sp == 0 { 0 } else { (sp + rng.gen_range(0..n)) % n };
    let version = match s(v, "ver") {
        "0.9" => http::Version::HTTP_09,
        "1.0" => http::Version::HTTP_10,
        "1.1" => http::Version::HTTP_11,
        "2" => http::Version::HTTP_2,
        _ => http::Version::HTTP_3,
    };
    let method = match s(v, "method") {
        "ext" => {
            let m = ["PROPFIND", "M-SEARCH", "X", "get", "!#$%&'*+-.^_`|~", "QUERYQUERYQUERYQUERYQUERYQUERYQUERYQUERYQUERYQUERY"];
            m[pick(m.len(), rng)].to_string()
        }
        m => m.to_string(),
    };
    let hs = host_spellings(s(v, "host"));
    let host = hs[pick(hs.len(), rng)].clone();
    let form = s(v, "uri");
    let secure = matches!(form, "https" | "wss");
    let port = {
        let p = [if secure { ":443" } else { ":80" }, "", ":8443", ":", ":65535", ":0"];
        let i = pick(p.len(), rng);
        // an empty host needs something after it to remain an authority
        if host.is_empty() && (p[i].is_empty() || p[i] == ":") { ":443".to_string() } else { p[i].to_string() }
    };
    let path = ["/", "/p?q=1", "", "/a%20b/../c;x=1?y[]=2", "/*"][pick(5, rng)];
    let uri = match form {
        "origin" => ["/p", "/", "/p?q=1", "/a%20b"][pick(4, rng)].to_string(),
        "asterisk" => "*".to_string(),
        "authority" => {
            // authority-form: host:port (what CONNECT uses); a bare host without port is also accepted by http::Uri
            let p = [":443", ":80", ":", "", ":8443"];
            let i = pick(p.len(), rng);
            let port = if host.is_empty() && (p[i].is_empty() || p[i] == ":") { ":443" } else { p[i] };
            format!("{host}{port}")
        }
        "other" => {
            let sc = ["grpc", "foo+bar", "h2c", "ftp", "WSS"];
            format!("{}://{host}{port}{path}", sc[pick(sc.len(), rng)])
        }
        scheme => format!("{scheme}://{host}{port}{path}"),
    };
    let mut headers: Vec<(String, Vec<u8>)> = Vec::new();
    match s(v, "hdr") {
        "none" => {}
        "host" => {
            let h: [&[u8]; 5] = [b"other.test", b"verif.test:443", b"", b"\xff\xfe opaque", b"[::1]:1"];
            headers.push(("host".into(), h[pick(h.len(), rng)].to_vec()));
        }
        "conn" => {
            let c = ["keep-alive", "close", "upgrade", "keep-alive, upgrade, te"];
            headers.push(("connection".into(), c[pick(c.len(), rng)].as_bytes().to_vec()));
            headers.push(("upgrade".into(), b"websocket".to_vec()));
            headers.push(("keep-alive".into(), b"timeout=5".to_vec()));
            headers.push(("proxy-connection".into(), b"keep-alive".to_vec()));
            headers.push(("te".into(), b"trailers".to_vec()));
            if sp > 0 && rng.gen_bool(0.5) {
                headers.push(("transfer-encoding".into(), b"chunked".to_vec()));
            }
        }
        _ => {
            for i in 0..40 {
                headers.push((format!("x-h-{i}"), format!("v{i}").into_bytes()));
            }
            headers.push(("x-long".into(), vec![b'a'; [100usize, 9000, 70000][pick(3, rng)]]));
            headers.push(("x-opaque".into(), vec![0x80, 0xff, b' ', 0x09, b'z']));
            headers.push(("x-empty".into(), Vec::new()));
            match pick(4, rng) {
                1 => headers.push(("content-length".into(), b"3".to_vec())),
                2 => headers.push(("expect".into(), b"100-continue".to_vec())),
                3 => headers.push(("content-length".into(), b"notanumber".to_vec())),
                _ => {}
            }
            headers.push(("user-agent".into(), b"verif/0".to_vec()));
        }
    }
    let body = match s(v, "body") {
        "empty" => Vec::new(),
        _ => {
            let n = [10usize, 1, 100_000][pick(3, rng)];
            vec![b'x'; n]
        }
    };
    Concrete { method, uri, version, headers, body }
}

fn build_request(c: &Concrete) -> Result<http::Request<Body>, String> {
    let uri: http::Uri = c.uri.parse().map_err(|e| format!("uri: {e}"))?;
    let method = http::Method::from_bytes(c.method.as_bytes()).map_err(|e| format!("method: {e}"))?;
    let mut rb = http::Request::builder().method(method).uri(uri).version(c.version);
    for (k, val) in &c.headers {
        let hv = http::HeaderValue::from_bytes(val).map_err(|e| format!("header value: {e}"))?;
        rb = rb.header(k.as_str(), hv);
    }
    let body = if c.body.is_empty() { Body::empty() } else { Body::from(c.body.clone()) };
    rb.body(body).map_err(|e| format!("request: {e}"))
}

fn err_chain(e: &(dyn std::error::Error + 'static)) -> String {
    let mut s = e.to_string();
    let mut cur = e.source();
    while let Some(c) = cur {
        let t = c.to_string();
        if !s.contains(&t) {
            s.push_str(" <- ");
            s.push_str(&t);
        }
        cur = c.source();
    }
    s
}

type Outcome = Result<(u16, String, usize), (String, String)>;

/// ready + call + response + body, all inside the guarded region
async fn drive<S, RB>(svc: S, req: http::Request<Body>) -> Outcome
where
    S: tower::Service<http::Request<Body>, Response = http::Response<RB>, Error = hyperdriver::client::Error>,
    RB: http_body::Body,
{
    match tower::ServiceExt::oneshot(svc, req).await {
        Ok(resp) => {
            let status = resp.status().as_u16();
            let ver = format!("{:?}", resp.version());
            let n = match resp.into_body().collect().await {
                Ok(c) => c.to_bytes().len(),
                Err(_) => usize::MAX,
            };
            Ok((status, ver, n))
        }
        Err(e) => {
            let d = format!("{e:?}");
            let kind = d.split(|c: char| !c.is_alphanumeric()).next().unwrap_or("").to_string();
            Err((kind, err_chain(&e)))
        }
    }
}

fn run_vector(certs: &Certs, scfg: &Arc<rustls::ServerConfig>, id: usize, v: &Value, spx: usize, seed: u64) -> Option<Value> {
    let mut rng = rand::rngs::StdRng::seed_from_u64(seed ^ ((id as u64) << 8) ^ (spx as u64).wrapping_mul(0x9E37_79B9));
    let c = concrete(v, spx, &mut rng);
    let req = match build_request(&c) {
        Ok(r) => r,
        Err(e) => {
            // not a well-typed request value (http refuses to construct it): outside the property
            eprintln!("skip vector {id}/{spx}: {e} ({} {})", c.method, c.uri.chars().take(60).collect::<String>());
            return None;
        }
    };
    let stack = s(v, "stack").to_string();
    let transport_kind = s(v, "transport").to_string();
    let log: PeerLog = Arc::new(Mutex::new(Vec::new()));
    let _ = take_panics();
    let rt = tokio::runtime::Builder::new_current_thread().enable_all().start_paused(true).build().expect("runtime");
    let outcome = std::panic::catch_unwind(std::panic::AssertUnwindSafe(|| {
        rt.block_on(async {
            let (mem, rx) = MemTransport::new();
            let peer = tokio::spawn(run_peer(rx, PeerCfg { tls: Some(scfg.clone()), fault: Fault::None, app: App::Http }, log.clone()));
            let ccfg = match transport_kind.as_str() {
                "plain" => None,
                "tls" => Some(certs.client_config(&[]).0),
                _ => Some(certs.client_config(&["h2", "http/1.1"]).0),
            };
            let tt = || -> TlsTransport<MemTransport> {
                match &ccfg {
                    None => TlsTransport::new(mem.clone()),
                    Some(c) => TlsTransport::new(mem.clone()).with_tls(Arc::new(c.clone())),
                }
            };
            let fut: std::pin::Pin<Box<dyn std::future::Future<Output = Outcome>>> = match stack.as_str() {
                "client" => {
                    let b = hyperdriver::Client::builder()
                        .with_protocol(HttpConnectionBuilder::default())
                        .with_transport(mem.clone())
                        .with_default_pool();
                    let b = match &ccfg {
                        None => b.without_tls(),
                        Some(c) => b.with_tls(c.clone()),
                    };
                    let client = b.build();
                    Box::pin(drive(client, req))
                }
                "pool" | "nopool" => {
                    let inner = tower::ServiceBuilder::new()
                        .layer(SetHostHeaderLayer::new())
                        .layer(Http2ChecksLayer::new())
                        .layer(Http1ChecksLayer::new())
                        .service(RequestExecutor::<Pooled<HttpConnection<Body>, Body>, Body>::new());
                    let svc: ConnectionPoolService<_, _, _, Body> = ConnectionPoolService::new(
                        tt(),
                        HttpConnectionBuilder::<Body>::default(),
                        inner,
                        hyperdriver::client::PoolConfig::default(),
                    );
                    let svc = if stack == "nopool" { svc.without_pool() } else { svc };
                    Box::pin(drive(svc, req))
                }
                "connector" => {
                    let inner = tower::ServiceBuilder::new()
                        .layer(SetHostHeaderLayer::new())
                        .layer(Http2ChecksLayer::new())
                        .layer(Http1ChecksLayer::new())
                        .service(RequestExecutor::<HttpConnection<Body>, Body>::new());
                    let svc = ConnectorService::new(inner, tt(), HttpConnectionBuilder::<Body>::default());
                    Box::pin(drive(svc, req))
                }
                _ => {
                    let svc = tower::ServiceBuilder::new()
                        .layer(ConnectorLayer::new(tt(), HttpConnectionBuilder::<Body>::default()))
                        .service(RequestExecutor::<HttpConnection<Body>, Body>::new());
                    Box::pin(drive(svc, req))
                }
            };
            drop(mem);
            let res = match tokio::time::timeout(Duration::from_secs(30), guarded(fut)).await {
                Err(_) => json!({"result": "hang"}),
                Ok(Err(())) => json!({"result": "panic"}),
                Ok(Ok(Err((k, m)))) => json!({"result": "err", "errKind": k, "errMsg": m.chars().take(300).collect::<String>()}),
                Ok(Ok(Ok((status, ver, n)))) => json!({"result": "resp", "status": status, "respVersion": ver, "bodyLen": n}),
            };
            // every task spawned for the request (connection drivers, delayed checkouts, hyper's h2 tasks) runs to
            // quiescence; then the peer goes away and the rest is torn down with the runtime
            tokio::time::sleep(Duration::from_millis(1)).await;
            peer.abort();
            let _ = peer.await;
            tokio::time::sleep(Duration::from_millis(1)).await;
            res
        })
    }));
    let teardown = std::panic::catch_unwind(std::panic::AssertUnwindSafe(move || drop(rt)));
    let panics = take_panics();
    let mut obs = match outcome {
        Ok(r) => r,
        Err(_) => json!({"result": "panic", "where": "runtime"}),
    };
    if teardown.is_err() && obs["result"] != "panic" {
        obs["teardownPanic"] = json!(true);
    }
    for p in &panics {
        if is_harness_loc(&p.file) {
            eprintln!("harness panic at {}:{}: {} (vector {id}/{spx})", p.file, p.line, p.msg);
            std::process::exit(3);
        }
    }
    let caller = obs["result"] == "panic";
    if let Some(p) = panics.first() {
        obs["panicMsg"] = json!(p.msg.chars().take(160).collect::<String>());
        obs["panicLoc"] = json!(format!("{}:{}", short_loc(&p.file), p.line));
        obs["panicFile"] = json!(short_loc(&p.file));
    } else {
        obs["panicFile"] = json!("");
    }
    obs["panics"] = json!(panics.len());
    obs["panicLocs"] = json!(panics.iter().map(|p| format!("{}:{} {}", short_loc(&p.file), p.line, p.msg.chars().take(60).collect::<String>())).collect::<Vec<_>>());
    obs["taskPanics"] = json!(if caller { panics.len().saturating_sub(1) } else { panics.len() });
    obs["panicked"] = json!(!panics.is_empty() || caller);
    if obs["errKind"].is_null() {
        obs["errKind"] = json!("");
    }
    let conns = log.lock().unwrap().clone();
    obs["conns"] = json!(conns.len());
    obs["peerTls"] = json!(conns.iter().any(|c| c.hs_done));
    obs["peerAlpnH2"] = json!(conns.iter().any(|c| c.alpn.as_deref() == Some("h2")));
    obs["reqs"] = json!(conns.iter().flat_map(|c| c.reqs.iter().map(|r| r.chars().take(120).collect::<String>())).collect::<Vec<_>>());
    obs["class"] = json!(match obs["result"].as_str().unwrap_or("") {
        "panic" => "panic",
        _ if !panics.is_empty() => "task-panic",
        "resp" => "resp",
        "err" => "err",
        _ => "hang",
    });
    let mut vv = v.as_object().cloned().unwrap_or_default();
    for k in ["exp", "expAsBuilt", "id", "spx"] {
        vv.remove(k);
    }
    Some(json!({
        "e": "Vec", "id": id, "spx": spx, "build": if cfg!(debug_assertions) { "da" } else { "release" }, "v": Value::Object(vv),
        "sp": {"method": c.method, "uri": c.uri.chars().take(400).collect::<String>(), "version": format!("{:?}", c.version),
               "headers": c.headers.iter().map(|(k, v)| format!("{k}: {}", String::from_utf8_lossy(&v[..std::cmp::min(v.len(), 40)]))).collect::<Vec<_>>(),
               "bodyLen": c.body.len()},
        "exp": v.get("exp").cloned().unwrap_or(json!({})),
        "expAsBuilt": v.get("expAsBuilt").cloned().unwrap_or(json!({})),
        "obs": obs,
    }))
}

fn main() {
    let args: Vec<String> = std::env::args().collect();
    if args.len() < 7 || args[1] != "run" {
        eprintln!("usage: pipeline run <vectors.json> <certdir> <out.ndjson> <seed> <nspell>");
        std::process::exit(2);
    }
    let vectors: Vec<Value> = serde_json::from_str(&std::fs::read_to_string(&args[2]).expect("read vectors")).expect("vectors json");
    let seed: u64 = args[5].parse().expect("seed");
    let nspell: usize = args[6].parse().expect("nspell");
    let da = cfg!(debug_assertions);
    install_crypto();
    install_panic_hook();
    let certs = Certs { dir: args[3].clone() };
    let scfg = certs.server_config("match", &["h2", "http/1.1"]);
    let mut out = vh::trace::TraceOut::create(&args[4]);
    let (mut n, mut skipped, mut mine) = (0usize, 0usize, 0usize);
    for (i, v) in vectors.iter().enumerate() {
        // a vector is executed by the build it names
        if v.get("da").and_then(|x| x.as_bool()).unwrap_or(false) != da {
            continue;
        }
        mine += 1;
        let id = v.get("id").and_then(|x| x.as_u64()).map(|x| x as usize).unwrap_or(i + 1);
        let sps: Vec<usize> = match v.get("spx").and_then(|x| x.as_u64()) {
            Some(x) => vec![x as usize],
            None => (0..nspell).collect(),
        };
        for spx in sps {
            match run_vector(&certs, &scfg, id, v, spx, seed) {
                Some(rec) => {
                    out.emit(&rec);
                    n += 1;
                }
                None => skipped += 1,
            }
        }
    }
    out.finish();
    println!("{}", json!({"records": n, "skipped": skipped, "vectors": mine, "debug_assertions": da}));
}
