//! C16 driver: the address plan of the REAL `TcpTransport`.
//!
//!   addrsort plan --vec <tlc-user-file> --out <dir> [--all | --sample K --seed S]
//!       every line `<<"VEC", "<json>">>` of the TLC output is (vector v, plan the intended model expects).
//!       Builds a real TcpTransport with the matching TcpTransportConfig, calls the verif-hooks function
//!       `TcpTransport::verif_plan(addrs, port)` (same path as `connect`: set_port, connecting(), pop) and
//!       writes <dir>/obs.ndjson = {"sid","v","o":{"plan":[{f,t,port}..]},"conform","m16"} for the TLC monitor
//!       AddrSortObs. `conform` (equality with the model's plan) and `m16` (in-process mirror) never decide.
//!   addrsort one --in <replay.json> --out <file.ndjson>
//!   addrsort order --out <file.ndjson>
//!       real start order: `connect_to_addrs` against one dual-stack loopback listener; the order in which the
//!       connections arrive is the observed plan (only if IPv6 loopback is available).
use futures_util::FutureExt as _;
use hyperdriver::client::conn::transport::tcp::{TcpTransport, TcpTransportConfig};
use rand::seq::SliceRandom;
use rand::SeedableRng;
use serde_json::{json, Value};
use std::io::{BufRead, Write};
use std::net::{IpAddr, Ipv4Addr, Ipv6Addr, SocketAddr};
use std::panic::AssertUnwindSafe;
use std::time::Duration;

#[derive(Clone, Debug, PartialEq, Eq)]
struct A {
    f: u8,
    t: u16,
    port: i64,
}

fn arg(args: &[String], name: &str) -> Option<String> {
    args.iter().position(|a| a == name).and_then(|p| args.get(p + 1)).cloned()
}

/// abstract address -> concrete address for the plan hook (never connected to)
fn concrete(f: u8, t: u16) -> IpAddr {
    if f == 4 {
        IpAddr::V4(Ipv4Addr::new(10, 0, (t >> 8) as u8, (t & 255) as u8))
    } else {
        IpAddr::V6(Ipv6Addr::new(0xfd00, 0, 0, 0, 0, 0, 0, t))
    }
}

fn abstract_of(a: &SocketAddr) -> A {
    match a.ip() {
        IpAddr::V4(x) => {
            let o = x.octets();
            A { f: 4, t: ((o[2] as u16) << 8) | o[3] as u16, port: a.port() as i64 }
        }
        IpAddr::V6(x) => A { f: 6, t: x.segments()[7], port: a.port() as i64 },
    }
}

fn config(bind: &str, he: bool) -> TcpTransportConfig {
    let mut cfg = TcpTransportConfig::default();
    cfg.local_address_ipv4 = if bind == "v4" || bind == "both" { Some(Ipv4Addr::LOCALHOST) } else { None };
    cfg.local_address_ipv6 = if bind == "v6" || bind == "both" { Some(Ipv6Addr::LOCALHOST) } else { None };
    cfg.happy_eyeballs_timeout = if he { Some(Duration::from_secs(30)) } else { None };
    cfg
}

fn list_of(v: &Value) -> Vec<(u8, u16)> {
    v["list"].as_array().expect("v.list").iter().map(|a| (a["f"].as_u64().unwrap() as u8, a["t"].as_u64().unwrap() as u16)).collect()
}

fn plan_json(p: &[A]) -> Value {
    Value::Array(p.iter().map(|a| json!({"f": a.f, "t": a.t, "port": a.port})).collect())
}

/// The real plan for one vector, or None if the code under test panicked.
fn real_plan(v: &Value) -> Option<Vec<A>> {
    let list = list_of(v);
    let bind = v["bind"].as_str().unwrap().to_string();
    let he = v["he"].as_bool().unwrap();
    let port = v["port"].as_u64().unwrap() as u16;
    std::panic::catch_unwind(move || {
        let transport: TcpTransport = TcpTransport::builder().with_config(config(&bind, he)).with_gai_resolver().build();
        // the resolver's answer carries its own ports (7000 + tag); set_port must rewrite them
        let addrs: Vec<SocketAddr> = list.iter().map(|&(f, t)| SocketAddr::new(concrete(f, t), 7000 + t)).collect();
        transport.verif_plan(addrs, port).iter().map(abstract_of).collect::<Vec<A>>()
    })
    .ok()
}

// in-process mirror of spec/AddrSortProps.tla C16 (screening only)
fn mirror(v: &Value, plan: &[A]) -> bool {
    let list = list_of(v);
    let pref: u8 = if v["bind"].as_str().unwrap() == "v4" { 4 } else { 6 };
    let other: u8 = if pref == 4 { 6 } else { 4 };
    let port = v["port"].as_i64().unwrap();
    if plan.len() != list.len() {
        return false;
    }
    let mut a: Vec<(u8, u16)> = list.clone();
    let mut b: Vec<(u8, u16)> = plan.iter().map(|x| (x.f, x.t)).collect();
    a.sort();
    b.sort();
    if a != b {
        return false;
    }
    let p = list.iter().position(|x| x.0 == pref);
    let q = list.iter().position(|x| x.0 == other);
    let mut exp: Vec<(u8, u16)> = vec![];
    if let Some(p) = p {
        exp.push(list[p]);
    }
    if let Some(q) = q {
        exp.push(list[q]);
    }
    for (i, x) in list.iter().enumerate() {
        if Some(i) != p && Some(i) != q {
            exp.push(*x);
        }
    }
    let got: Vec<(u8, u16)> = plan.iter().map(|x| (x.f, x.t)).collect();
    got == exp && plan.iter().all(|x| x.port == port)
}

fn read_vecs(path: &str) -> Vec<(Value, Value)> {
    let f = std::io::BufReader::new(std::fs::File::open(path).unwrap_or_else(|e| panic!("open {path}: {e}")));
    let mut out = vec![];
    for line in f.lines() {
        let line = line.unwrap();
        let Some(rest) = line.strip_prefix("<<\"VEC\", ") else { continue };
        let Some(inner) = rest.strip_suffix(">>") else { continue };
        let js: String = serde_json::from_str(inner).expect("VEC payload is a TLA+ string");
        let rec: Value = serde_json::from_str(&js).expect("VEC json");
        out.push((rec["v"].clone(), rec["o"].clone()));
    }
    // TLC's workers print in a nondeterministic order: sort by the canonical text of the vector
    out.sort_by_cached_key(|(v, _)| {
        let l = list_of(v);
        (l.len(), serde_json::to_string(v).unwrap())
    });
    out
}

fn cmd_plan(args: &[String]) {
    let vec_path = arg(args, "--vec").expect("--vec");
    let out_dir = arg(args, "--out").expect("--out");
    let seed: u64 = arg(args, "--seed").map(|s| s.parse().unwrap()).unwrap_or(1);
    let sample: usize = arg(args, "--sample").map(|s| s.parse().unwrap()).unwrap_or(5000);
    let all = args.iter().any(|a| a == "--all");
    let vecs = read_vecs(&vec_path);
    if vecs.is_empty() {
        eprintln!("no VEC lines in {vec_path}");
        std::process::exit(3);
    }
    std::panic::set_hook(Box::new(|_| {}));
    let mut recs = Vec::with_capacity(vecs.len());
    let (mut drift, mut flagged, mut panics, mut nontrivial, mut he_none_drift) = (0usize, 0usize, 0usize, 0usize, 0usize);
    let mut drift_examples = vec![];
    let mut distinct_lists = std::collections::BTreeSet::new();
    for (i, (v, o)) in vecs.iter().enumerate() {
        let real = real_plan(v);
        let (plan, panicked) = match real {
            Some(p) => (p, false),
            None => (vec![], true),
        };
        let pj = plan_json(&plan);
        let conform = !panicked && pj == o["plan"];
        let m16 = !panicked && mirror(v, &plan);
        if !conform {
            drift += 1;
            if !v["he"].as_bool().unwrap() {
                he_none_drift += 1;
            }
            if drift_examples.len() < 8 {
                drift_examples.push(json!({"v": v, "real": pj, "model": o["plan"], "panicked": panicked}));
            }
        }
        flagged += (!m16) as usize;
        panics += panicked as usize;
        let l = list_of(v);
        // non-trivial: both families present and the resolver order differs from the expected plan
        if l.iter().any(|x| x.0 == 4) && l.iter().any(|x| x.0 == 6) {
            nontrivial += 1;
        }
        distinct_lists.insert(serde_json::to_string(&v["list"]).unwrap());
        recs.push((json!({"sid": i + 1, "v": v, "o": {"plan": pj, "panicked": panicked}, "conform": conform, "m16": m16}), conform && m16));
    }
    let mut selected: Vec<bool> = recs.iter().map(|(_, good)| all || !good).collect();
    let mut rest: Vec<usize> = (0..recs.len()).filter(|&i| !selected[i]).collect();
    let mut rng = rand::rngs::StdRng::seed_from_u64(seed);
    rest.shuffle(&mut rng);
    for &i in rest.iter().take(sample) {
        selected[i] = true;
    }
    std::fs::create_dir_all(&out_dir).unwrap();
    let mut w = std::io::BufWriter::new(std::fs::File::create(format!("{out_dir}/obs.ndjson")).unwrap());
    let mut nsel = 0;
    for (i, (r, _)) in recs.iter().enumerate() {
        if selected[i] {
            serde_json::to_writer(&mut w, r).unwrap();
            w.write_all(b"\n").unwrap();
            nsel += 1;
        }
    }
    w.flush().unwrap();
    let samples: Vec<&Value> = [recs.len() / 5, recs.len() / 2, recs.len() - 1].iter().map(|&i| &recs[i].0).collect();
    println!(
        "{}",
        json!({"vectors": recs.len(), "selected": nsel, "conform": recs.len() - drift, "drift": drift, "drift_he_none": he_none_drift,
               "drift_examples": drift_examples, "mirror_flag": flagged, "panics": panics, "nontrivial": nontrivial,
               "distinct_lists": distinct_lists.len(), "samples": samples})
    );
}

fn cmd_one(args: &[String]) {
    let inp = arg(args, "--in").expect("--in");
    let out = arg(args, "--out").expect("--out");
    let doc: Value = serde_json::from_str(&std::fs::read_to_string(&inp).unwrap()).expect("replay json");
    let root = if doc.get("replay").is_some() { doc["replay"].clone() } else { doc };
    let recs: Vec<Value> = if let Some(a) = root.get("records").and_then(|r| r.as_array()) { a.clone() } else { vec![root] };
    std::panic::set_hook(Box::new(|_| {}));
    let mut w = std::io::BufWriter::new(std::fs::File::create(&out).unwrap());
    for (i, r) in recs.iter().enumerate() {
        let v = &r["v"];
        let real = real_plan(v);
        let panicked = real.is_none();
        let plan = real.unwrap_or_default();
        serde_json::to_writer(
            &mut w,
            &json!({"sid": r.get("sid").cloned().unwrap_or(json!(i + 1)), "v": v, "o": {"plan": plan_json(&plan), "panicked": panicked},
                    "conform": true, "m16": !panicked && mirror(v, &plan)}),
        )
        .unwrap();
        w.write_all(b"\n").unwrap();
    }
    w.flush().unwrap();
}

// -------------------------------------------------------------------------------------------------
// real start order on loopback
mod order {
    use super::*;
    use tokio::net::TcpListener;

    fn loop_addr(f: u8, t: u16) -> IpAddr {
        if f == 4 {
            IpAddr::V4(Ipv4Addr::new(127, 0, 0, t as u8))
        } else {
            IpAddr::V6(Ipv6Addr::LOCALHOST)
        }
    }

    /// which candidate a connection accepted on the dual-stack listener was addressed to
    fn abstract_local(a: &SocketAddr, port: u16) -> A {
        match a.ip() {
            IpAddr::V4(x) => A { f: 4, t: x.octets()[3] as u16, port: port as i64 },
            IpAddr::V6(x) => match x.to_ipv4_mapped() {
                Some(m) => A { f: 4, t: m.octets()[3] as u16, port: port as i64 },
                None => A { f: 6, t: 1, port: port as i64 },
            },
        }
    }

    static WAITED_MS: std::sync::atomic::AtomicU64 = std::sync::atomic::AtomicU64::new(0);

    /// A resolver double: answers every host with a fixed list (whose ports are NOT the request port).
    #[derive(Clone)]
    struct FixedResolver(Vec<SocketAddr>);

    impl tower::Service<Box<str>> for FixedResolver {
        type Response = hyperdriver::client::conn::dns::SocketAddrs;
        type Error = std::io::Error;
        type Future = std::future::Ready<Result<Self::Response, std::io::Error>>;
        fn poll_ready(&mut self, _: &mut std::task::Context<'_>) -> std::task::Poll<Result<(), std::io::Error>> {
            std::task::Poll::Ready(Ok(()))
        }
        fn call(&mut self, _host: Box<str>) -> Self::Future {
            std::future::ready(Ok(self.0.iter().copied().collect()))
        }
    }

    /// layer "order": public `connect_to_addrs`; layer "call": the whole public path `Service::call` (resolve,
    /// set_port, connecting, TcpConnecting::connect) with a resolver double whose answer carries other ports.
    async fn one(list: &[(u8, u16)], bind: &str, he: bool, layer: &str) -> Result<(Vec<A>, u16, bool), String> {
        let listener = TcpListener::bind("[::]:0").await.map_err(|e| format!("bind [::]: {e}"))?;
        let port = listener.local_addr().unwrap().port();
        let mut cfg = config(bind, he);
        cfg.happy_eyeballs_timeout = if he { Some(Duration::from_secs(20)) } else { None };
        cfg.happy_eyeballs_concurrency = None; // every candidate is started in the first poll, in plan order
        let layer = if layer == "first" {
            // one attempt at a time: with every candidate accepting, the only connection that is ever started is the head of the
            // resulting order ("connection attempts are started in the resulting order", observed where it is decided)
            cfg.happy_eyeballs_concurrency = Some(1);
            "order"
        } else {
            layer
        };
        let n = list.len();
        let (panicked, conn): (bool, Option<Box<dyn std::any::Any>>) = if layer == "call" {
            use tower::ServiceExt as _;
            let answer: Vec<SocketAddr> = list.iter().map(|&(f, t)| SocketAddr::new(loop_addr(f, t), 7000 + t)).collect();
            let transport: TcpTransport<FixedResolver> = TcpTransport::builder().with_config(cfg).with_resolver(FixedResolver(answer)).build();
            let (parts, _) = http::Request::builder().uri(format!("http://candidates.test:{port}/")).body(()).unwrap().into_parts();
            let r = AssertUnwindSafe(transport.oneshot(parts)).catch_unwind().await;
            (r.is_err(), r.ok().and_then(|c| c.ok()).map(|c| Box::new(c) as Box<dyn std::any::Any>))
        } else {
            let transport: TcpTransport = TcpTransport::builder().with_config(cfg).with_gai_resolver().build();
            let addrs: Vec<SocketAddr> = list.iter().map(|&(f, t)| SocketAddr::new(loop_addr(f, t), port)).collect();
            let r = AssertUnwindSafe(transport.connect_to_addrs(addrs)).catch_unwind().await;
            (r.is_err(), r.ok().and_then(|c| c.ok()).map(|c| Box::new(c) as Box<dyn std::any::Any>))
        };
        let mut plan = vec![];
        for _ in 0..n {
            // connections started before connect returned are already in the accept queue (loopback); waiting is
            // only needed when some are missing, and the total time spent waiting is bounded
            let spent = WAITED_MS.load(std::sync::atomic::Ordering::Relaxed);
            let wait = if conn.is_some() && spent < 20_000 { Duration::from_millis(300) } else { Duration::from_millis(20) };
            match tokio::time::timeout(wait, listener.accept()).await {
                Ok(Ok((s, _peer))) => plan.push(abstract_local(&s.local_addr().map_err(|e| e.to_string())?, port)),
                _ => {
                    WAITED_MS.fetch_add(wait.as_millis() as u64, std::sync::atomic::Ordering::Relaxed);
                    break;
                }
            }
        }
        drop(conn);
        Ok((plan, port, panicked))
    }

    pub async fn run(out: &str) {
        // is a dual-stack loopback listener reachable over both families?
        let probe = async {
            let l = TcpListener::bind("[::]:0").await.ok()?;
            let p = l.local_addr().ok()?.port();
            tokio::net::TcpStream::connect(SocketAddr::new(IpAddr::V6(Ipv6Addr::LOCALHOST), p)).await.ok()?;
            tokio::net::TcpStream::connect(SocketAddr::new(IpAddr::V4(Ipv4Addr::new(127, 0, 0, 2)), p)).await.ok()?;
            Some(())
        };
        let mut w = std::io::BufWriter::new(std::fs::File::create(out).unwrap());
        if probe.await.is_none() {
            w.flush().unwrap();
            println!("{}", json!({"order_runs": 0, "ipv6_loopback": false}));
            return;
        }
        // all lists of length <= 4 over {v4 .1, v4 .2, v6 ::1} (the v6 candidate may repeat: a duplicate)
        let alphabet: [(u8, u16); 3] = [(4, 1), (4, 2), (6, 1)];
        let mut lists: Vec<Vec<(u8, u16)>> = vec![vec![]];
        let mut frontier: Vec<Vec<(u8, u16)>> = vec![vec![]];
        for _ in 0..4 {
            let mut next = vec![];
            for l in &frontier {
                for a in alphabet {
                    let mut m = l.clone();
                    m.push(a);
                    next.push(m);
                }
            }
            lists.extend(next.iter().cloned());
            frontier = next;
        }
        let (mut n, mut unstable) = (0usize, 0usize);
        for list in lists.iter().filter(|l| !l.is_empty()) {
            for bind in ["none", "v4", "v6", "both"] {
                for (he, layer) in [(true, "order"), (false, "order"), (true, "call"), (false, "call"), (true, "first")] {
                    if layer == "first" && list.len() < 2 {
                        continue;
                    }
                    // the arrival order is the observation; it is only used when three runs agree
                    let mut runs = vec![];
                    for _ in 0..3 {
                        match one(list, bind, he, layer).await {
                            Ok(r) => runs.push(r),
                            Err(e) => {
                                eprintln!("order: {e}");
                                std::process::exit(4);
                            }
                        }
                        if runs.len() == 1 {
                            // fast path: re-run only if the first run does not look like the expected plan
                            let v = json!({"list": list.iter().map(|x| json!({"f": x.0, "t": x.1})).collect::<Vec<_>>(), "bind": bind, "he": he, "port": runs[0].1});
                            // re-run only a COMPLETE arrival sequence in an unexpected order (a possible reordering by the
                            // kernel); missing connections are not a matter of ordering
                            if layer == "first" || mirror(&v, &runs[0].0) || runs[0].0.len() != list.len() {
                                break;
                            }
                        }
                    }
                    // (each run has its own listener port: compare the addresses only)
                    let keys = |p: &Vec<A>| p.iter().map(|a| (a.f, a.t)).collect::<Vec<_>>();
                    let stable = runs.iter().all(|r| keys(&r.0) == keys(&runs[0].0));
                    if !stable {
                        unstable += 1;
                        continue;
                    }
                    let (plan, port, panicked) = runs[0].clone();
                    n += 1;
                    serde_json::to_writer(
                        &mut w,
                        &json!({"sid": format!("{layer}-{n}"), "layer": layer,
                                "v": {"list": list.iter().map(|x| json!({"f": x.0, "t": x.1})).collect::<Vec<_>>(), "bind": bind, "he": he, "port": port},
                                "o": {"plan": plan_json(&plan), "panicked": panicked}, "runs": runs.len()}),
                    )
                    .unwrap();
                    w.write_all(b"\n").unwrap();
                }
            }
        }
        w.flush().unwrap();
        println!("{}", json!({"order_runs": n, "order_unstable": unstable, "ipv6_loopback": true}));
    }
}

fn main() {
    let args: Vec<String> = std::env::args().collect();
    match args.get(1).map(|s| s.as_str()) {
        Some("plan") => cmd_plan(&args[2..]),
        Some("one") => cmd_one(&args[2..]),
        Some("order") => {
            let out = arg(&args[2..], "--out").expect("--out");
            let rt = tokio::runtime::Builder::new_current_thread().enable_all().build().unwrap();
            rt.block_on(order::run(&out));
        }
        _ => {
            eprintln!("usage: addrsort plan|one|order ...");
            std::process::exit(2);
        }
    }
}
