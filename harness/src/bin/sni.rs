//! C20 driver: pushes request vectors through the REAL public `ValidateSNI` layer
//! (hyperdriver::server::conn::tls::sni) around a recording inner service.
//!
//!   sni gen   <vectors.ndjson> <out.ndjson> <seed> <spellings>   abstract vectors (from TLC, Sni_gen.cfg) ->
//!                                                                 concrete requests -> real outcome
//!   sni rerun <records.ndjson> <out.ndjson>                       re-executes the concrete part `c` of records
//!
//! One output record per executed request:
//!   {"i":n, "v":{ver,hosthdr,auth,sni,tls}, "c":{ver,host,has_host,uri,tls,sni,has_sni,name,alt},
//!    "o":{kind:"forwarded"|"rejected"|"panicked"|"inner_error", validated:bool, saw_tls:bool, err:string}}
//! The harness decides nothing: SniObs.tla (TLC) evaluates the C20 clauses on every record.
use std::convert::Infallible;
use std::io::{BufRead, BufReader};
use std::panic::{catch_unwind, AssertUnwindSafe};
use std::sync::{Arc, Mutex};
use std::task::{Context, Poll};

use futures_util::FutureExt;
use hyperdriver::info::{Protocol, TlsConnectionInfo};
use hyperdriver::server::conn::tls::sni::{SNIMiddlewareError, ValidateSNI, ValidateSNIError};
use rand::rngs::StdRng;
use rand::{Rng, SeedableRng};
use serde_json::{json, Value};
use tower::{Layer, Service};
use vh::trace::TraceOut;

#[derive(Default, Clone)]
struct Seen {
    called: bool,
    saw_tls: bool,
    validated: bool,
}

#[derive(Clone)]
struct Recorder(Arc<Mutex<Seen>>);

impl Service<http::Request<()>> for Recorder {
    type Response = http::Response<()>;
    type Error = Infallible;
    type Future = std::future::Ready<Result<http::Response<()>, Infallible>>;
    fn poll_ready(&mut self, _: &mut Context<'_>) -> Poll<Result<(), Infallible>> {
        Poll::Ready(Ok(()))
    }
    fn call(&mut self, req: http::Request<()>) -> Self::Future {
        let mut s = self.0.lock().unwrap();
        s.called = true;
        if let Some(t) = req.extensions().get::<TlsConnectionInfo>() {
            s.saw_tls = true;
            s.validated = t.validated_server_name;
        }
        std::future::ready(Ok(http::Response::new(())))
    }
}

fn version(s: &str) -> http::Version {
    match s {
        "1.0" => http::Version::HTTP_10,
        "1.1" => http::Version::HTTP_11,
        "2" => http::Version::HTTP_2,
        o => panic!("bad version {o}"),
    }
}

/// Executes one concrete request on the real middleware.
fn run(c: &Value) -> Value {
    let seen = Arc::new(Mutex::new(Seen::default()));
    let rec = Recorder(seen.clone());
    let c2 = c.clone();
    let res = catch_unwind(AssertUnwindSafe(move || {
        let mut req = http::Request::builder()
            .version(version(c2["ver"].as_str().unwrap()))
            .uri(c2["uri"].as_str().unwrap())
            .body(())
            .expect("harness builds a valid request");
        if c2["has_host"].as_bool().unwrap() {
            req.headers_mut()
                .insert(http::header::HOST, c2["host"].as_str().unwrap().parse().expect("host header value"));
        }
        if c2["tls"].as_bool().unwrap() {
            let alpn = match c2["alpn"].as_str().unwrap_or("") {
                "" => None,
                s => Some(s.parse::<Protocol>().unwrap()),
            };
            let info = TlsConnectionInfo {
                server_name: if c2["has_sni"].as_bool().unwrap() {
                    Some(c2["sni"].as_str().unwrap().to_string())
                } else {
                    None
                },
                validated_server_name: false,
                alpn,
            };
            req.extensions_mut().insert(info);
        }
        let mut svc = ValidateSNI.layer(rec);
        // the public Service impl: poll_ready + call; every future involved is immediately ready
        let waker = futures_util::task::noop_waker();
        let mut cx = Context::from_waker(&waker);
        let _ = svc.poll_ready(&mut cx);
        svc.call(req).now_or_never()
    }));
    let s = seen.lock().unwrap().clone();
    let (kind, err) = match res {
        Err(p) => {
            let m = p
                .downcast_ref::<String>()
                .cloned()
                .or_else(|| p.downcast_ref::<&str>().map(|s| s.to_string()))
                .unwrap_or_default();
            ("panicked", m)
        }
        Ok(None) => ("pending", String::new()),
        Ok(Some(Ok(_))) => (if s.called { "forwarded" } else { "answered_without_inner" }, String::new()),
        Ok(Some(Err(SNIMiddlewareError::SNI(e)))) => {
            let tag = match &e {
                ValidateSNIError::InvalidSNI { .. } => "InvalidSNI",
                ValidateSNIError::MissingSNI { .. } => "MissingSNI",
                _ => "other",
            };
            (if s.called { "rejected_after_inner" } else { "rejected" }, format!("{tag}: {e}"))
        }
        Ok(Some(Err(e))) => ("inner_error", e.to_string()),
    };
    json!({"kind": kind, "validated": s.validated, "saw_tls": s.saw_tls, "err": err})
}

const NAMES: &[&str] = &[
    "example.com",
    "svc.internal",
    "xn--bcher-kva.example",
    "a-b.c0.test",
    "localhost",
    "api.v2.example.org",
];
const PORTS: &[u16] = &[443, 8443, 80, 65535, 1];
const V4: &[&str] = &["127.0.0.1", "192.0.2.7", "10.0.0.255"];
const V6: &[&str] = &["[::1]", "[2001:db8::1]", "[fe80::1234:5678:9abc:def0]"];
const PATHS: &[&str] = &["/", "/index.html", "/a/b?x=1", "/?q=Host"];

/// another letter case of the same name (guaranteed different from `n`)
fn recase(n: &str, rng: &mut StdRng) -> String {
    loop {
        let s: String = n
            .chars()
            .map(|ch| if ch.is_ascii_lowercase() && rng.gen_bool(0.5) { ch.to_ascii_uppercase() } else { ch })
            .collect();
        if s != n {
            return s;
        }
    }
}

/// a different name, often a near miss of `n`
fn other(n: &str, rng: &mut StdRng) -> String {
    match rng.gen_range(0..6) {
        0 => format!("{n}.evil.test"),
        1 => format!("not{n}"),
        2 => n[..n.len() - 1].to_string(),
        3 => format!("{n}x"),
        4 => format!("www.{n}"),
        _ => "example.org".to_string(),
    }
}

fn instantiate(v: &Value, rng: &mut StdRng) -> Value {
    let name = NAMES[rng.gen_range(0..NAMES.len())].to_string();
    let alt = recase(&name, rng);
    let oth = other(&name, rng);
    let v4 = V4[rng.gen_range(0..V4.len())];
    let v6 = V6[rng.gen_range(0..V6.len())];
    let form = |f: &str, rng: &mut StdRng| -> Option<String> {
        let port = PORTS[rng.gen_range(0..PORTS.len())];
        match f {
            "none" => None,
            "a" => Some(name.clone()),
            "A" => Some(alt.clone()),
            "a_port" => Some(format!("{name}:{port}")),
            "A_port" => Some(format!("{alt}:{port}")),
            "b" => Some(oth.clone()),
            "v4" => Some(v4.to_string()),
            "v6" => Some(v6.to_string()),
            "v6_port" => Some(format!("{v6}:{port}")),
            o => panic!("unknown host form {o}"),
        }
    };
    let host = form(v["hosthdr"].as_str().unwrap(), rng);
    let auth = form(v["auth"].as_str().unwrap(), rng);
    let sni = form(v["sni"].as_str().unwrap(), rng);
    let path = PATHS[rng.gen_range(0..PATHS.len())];
    let scheme = if rng.gen_bool(0.7) { "https" } else { "http" };
    let uri = match &auth {
        Some(a) => format!("{scheme}://{a}{path}"),
        None => path.to_string(),
    };
    let alpn = ["", "h2", "http/1.1"][rng.gen_range(0..3)];
    json!({
        "ver": v["ver"], "host": host.clone().unwrap_or_default(), "has_host": host.is_some(),
        "uri": uri, "tls": v["tls"], "sni": sni.clone().unwrap_or_default(), "has_sni": sni.is_some(),
        "alpn": alpn, "name": name, "alt": alt, "other": oth,
    })
}

fn read_lines(path: &str) -> Vec<Value> {
    let f = std::fs::File::open(path).unwrap_or_else(|e| panic!("open {path}: {e}"));
    BufReader::new(f)
        .lines()
        .map(|l| l.unwrap())
        .filter(|l| !l.trim().is_empty())
        .map(|l| serde_json::from_str(&l).unwrap_or_else(|e| panic!("bad json line {l}: {e}")))
        .collect()
}

fn main() {
    // panics of the code under test are data; keep stderr quiet
    std::panic::set_hook(Box::new(|_| {}));
    let a: Vec<String> = std::env::args().collect();
    if a.len() < 4 {
        eprintln!("usage: sni gen <vectors> <out> <seed> <spellings> | sni rerun <records> <out>");
        std::process::exit(2);
    }
    let mut out = TraceOut::create(&a[3]);
    let mut n = 0usize;
    match a[1].as_str() {
        "gen" => {
            let seed: u64 = a[4].parse().unwrap();
            let k: usize = a[5].parse().unwrap();
            let vecs = read_lines(&a[2]);
            let mut rng = StdRng::seed_from_u64(seed ^ 0xC20);
            for line in &vecs {
                let v = &line["v"];
                for _ in 0..k {
                    let c = instantiate(v, &mut rng);
                    let o = run(&c);
                    n += 1;
                    out.emit(&json!({"i": n, "v": v, "c": c, "o": o}));
                }
            }
        }
        "rerun" => {
            for r in read_lines(&a[2]) {
                let o = run(&r["c"]);
                n += 1;
                out.emit(&json!({"i": n, "v": r["v"], "c": r["c"], "o": o}));
            }
        }
        o => {
            eprintln!("unknown mode {o}");
            std::process::exit(2);
        }
    }
    out.finish();
    println!("{}", json!({"records": n}));
}
