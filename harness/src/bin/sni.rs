//! C20 driver: pushes request vectors through the REAL public `ValidateSNI` layer
//! (hyperdriver::server::conn::tls::sni) around a recording inner service.
//!
//!   sni gen   <vectors.ndjson> <out.ndjson> <seed> <spellings>   abstract vectors (from TLC, Sni_gen.cfg) ->
//!                                                                 concrete requests -> real outcome
//!   sni chain <chain.ndjson> <out.ndjson> <seed> <reps>         connection scenarios (behaviour x scenario, from TLC,
//!                                                                 Sni_conngen.cfg) replayed on the REAL chain
//!                                                                 TLS acceptor -> info channel (info/tls.rs) ->
//!                                                                 TlsConnectionInfoLayer's service -> ValidateSNI -> app
//!                                                                 over a real in-memory TLS handshake (env C20_CERTS = dir
//!                                                                 with cert.pem / key.pem); `reps` seeded spellings per line
//!   sni rerun <records.ndjson> <out.ndjson>                       re-executes the concrete part `c` of records
//!                                                                 (chain records: the whole connection scenario)
//!
//! One output record per executed request:
//!   {"i":n, "v":{ver,hosthdr,auth,sni,tls}, "c":{ver,host,has_host,uri,tls,sni,has_sni,name,alt},
//!    "o":{kind:"forwarded"|"rejected"|"panicked"|"inner_error", validated:bool, saw_tls:bool, err:string}}
//! The harness decides nothing: SniObs.tla (TLC) evaluates the C20 clauses on every record.
use std::collections::BTreeMap;
use std::convert::Infallible;
use std::future::Future;
use std::io::{BufRead, BufReader};
use std::pin::Pin;
use std::panic::{catch_unwind, AssertUnwindSafe};
use std::sync::{Arc, Mutex};
use std::task::{Context, Poll};

use futures_util::FutureExt;
use hyperdriver::info::{Protocol, TlsConnectionInfo};
use hyperdriver::server::conn::tls::sni::{SNIMiddlewareError, ValidateSNI, ValidateSNIError};
use rand::rngs::StdRng;
use rand::{Rng, SeedableRng};
use serde_json::{json, Value};
use hyperdriver::server::conn::tls::TlsConnectionInfoLayer;
use hyperdriver::server::conn::AcceptExt as _;
use hyperdriver::stream::tls::TlsHandshakeStream as _;
use tower::make::Shared;
use tower::{Layer, Service};
use vh::trace::TraceOut;

#[derive(Default, Clone)]
struct Seen {
    called: bool,
    saw_tls: bool,
    validated: bool,
}

#[derive(Clone)]
struct Recorder(Arc<Mutex<Seen>>);

impl Service<http::Request<()>> for Recorder {
    type Response = http::Response<()>;
    type Error = Infallible;
    type Future = std::future::Ready<Result<http::Response<()>, Infallible>>;
    fn poll_ready(&mut self, _: &mut Context<'_>) -> Poll<Result<(), Infallible>> {
        Poll::Ready(Ok(()))
    }
    fn call(&mut self, req: http::Request<()>) -> Self::Future {
        let mut s = self.0.lock().unwrap();
        s.called = true;
        if let Some(t) = req.extensions().get::<TlsConnectionInfo>() {
            s.saw_tls = true;
            s.validated = t.validated_server_name;
        }
        std::future::ready(Ok(http::Response::new(())))
    }
}

fn version(s: &str) -> http::Version {
    match s {
        "1.0" => http::Version::HTTP_10,
        "1.1" => http::Version::HTTP_11,
        "2" => http::Version::HTTP_2,
        o => panic!("bad version {o}"),
    }
}

/// Executes one concrete request on the real middleware.
fn run(c: &Value) -> Value {
    let seen = Arc::new(Mutex::new(Seen::default()));
    let rec = Recorder(seen.clone());
    let c2 = c.clone();
    let res = catch_unwind(AssertUnwindSafe(move || {
        let mut req = http::Request::builder()
            .version(version(c2["ver"].as_str().unwrap()))
            .uri(c2["uri"].as_str().unwrap())
            .body(())
            .expect("harness builds a valid request");
        if c2["has_host"].as_bool().unwrap() {
            req.headers_mut()
                .insert(http::header::HOST, c2["host"].as_str().unwrap().parse().expect("host header value"));
        }
        if c2["tls"].as_bool().unwrap() {
            let alpn = match c2["alpn"].as_str().unwrap_or("") {
                "" => None,
                s => Some(s.parse::<Protocol>().unwrap()),
            };
            let info = TlsConnectionInfo {
                server_name: if c2["has_sni"].as_bool().unwrap() {
                    Some(c2["sni"].as_str().unwrap().to_string())
                } else {
                    None
                },
                validated_server_name: false,
                alpn,
            };
            req.extensions_mut().insert(info);
        }
        let mut svc = ValidateSNI.layer(rec);
        // the public Service impl: poll_ready + call; every future involved is immediately ready
        let waker = futures_util::task::noop_waker();
        let mut cx = Context::from_waker(&waker);
        let _ = svc.poll_ready(&mut cx);
        svc.call(req).now_or_never()
    }));
    let s = seen.lock().unwrap().clone();
    let (kind, err) = match res {
        Err(p) => {
            let m = p
                .downcast_ref::<String>()
                .cloned()
                .or_else(|| p.downcast_ref::<&str>().map(|s| s.to_string()))
                .unwrap_or_default();
            ("panicked", m)
        }
        Ok(None) => ("pending", String::new()),
        Ok(Some(Ok(_))) => (if s.called { "forwarded" } else { "answered_without_inner" }, String::new()),
        Ok(Some(Err(SNIMiddlewareError::SNI(e)))) => {
            let tag = match &e {
                ValidateSNIError::InvalidSNI { .. } => "InvalidSNI",
                ValidateSNIError::MissingSNI { .. } => "MissingSNI",
                _ => "other",
            };
            (if s.called { "rejected_after_inner" } else { "rejected" }, format!("{tag}: {e}"))
        }
        Ok(Some(Err(e))) => ("inner_error", e.to_string()),
    };
    json!({"kind": kind, "validated": s.validated, "saw_tls": s.saw_tls, "err": err})
}

const NAMES: &[&str] = &[
    "example.com",
    "svc.internal",
    "xn--bcher-kva.example",
    "a-b.c0.test",
    "localhost",
    "api.v2.example.org",
];
const PORTS: &[u16] = &[443, 8443, 80, 65535, 1];
const V4: &[&str] = &["127.0.0.1", "192.0.2.7", "10.0.0.255"];
const V6: &[&str] = &["[::1]", "[2001:db8::1]", "[fe80::1234:5678:9abc:def0]"];
const PATHS: &[&str] = &["/", "/index.html", "/a/b?x=1", "/?q=Host"];

/// another letter case of the same name (guaranteed different from `n`)
fn recase(n: &str, rng: &mut StdRng) -> String {
    loop {
        let s: String = n
            .chars()
            .map(|ch| if ch.is_ascii_lowercase() && rng.gen_bool(0.5) { ch.to_ascii_uppercase() } else { ch })
            .collect();
        if s != n {
            return s;
        }
    }
}

/// a different name, often a near miss of `n`
fn other(n: &str, rng: &mut StdRng) -> String {
    match rng.gen_range(0..6) {
        0 => format!("{n}.evil.test"),
        1 => format!("not{n}"),
        2 => n[..n.len() - 1].to_string(),
        3 => format!("{n}x"),
        4 => format!("www.{n}"),
        _ => "example.org".to_string(),
    }
}

fn instantiate(v: &Value, rng: &mut StdRng) -> Value {
    let name = NAMES[rng.gen_range(0..NAMES.len())].to_string();
    let alt = recase(&name, rng);
    let oth = other(&name, rng);
    let v4 = V4[rng.gen_range(0..V4.len())];
    let v6 = V6[rng.gen_range(0..V6.len())];
    let form = |f: &str, rng: &mut StdRng| -> Option<String> {
        let port = PORTS[rng.gen_range(0..PORTS.len())];
        match f {
            "none" => None,
            "a" => Some(name.clone()),
            "A" => Some(alt.clone()),
            "a_port" => Some(format!("{name}:{port}")),
            "A_port" => Some(format!("{alt}:{port}")),
            "b" => Some(oth.clone()),
            "v4" => Some(v4.to_string()),
            "v6" => Some(v6.to_string()),
            "v6_port" => Some(format!("{v6}:{port}")),
            o => panic!("unknown host form {o}"),
        }
    };
    let host = form(v["hosthdr"].as_str().unwrap(), rng);
    let auth = form(v["auth"].as_str().unwrap(), rng);
    let sni = form(v["sni"].as_str().unwrap(), rng);
    let path = PATHS[rng.gen_range(0..PATHS.len())];
    let scheme = if rng.gen_bool(0.7) { "https" } else { "http" };
    let uri = match &auth {
        Some(a) => format!("{scheme}://{a}{path}"),
        None => path.to_string(),
    };
    let alpn = ["", "h2", "http/1.1"][rng.gen_range(0..3)];
    json!({
        "ver": v["ver"], "host": host.clone().unwrap_or_default(), "has_host": host.is_some(),
        "uri": uri, "tls": v["tls"], "sni": sni.clone().unwrap_or_default(), "has_sni": sni.is_some(),
        "alpn": alpn, "name": name, "alt": alt, "other": oth, "mode": "direct",
    })
}

// ------------------------------------------------------------------------------------------------
// chain mode: real TLS handshake, real info channel, TlsConnectionInfoLayer -> ValidateSNI -> app

/// What the application saw, per request id (header x-rid).
#[derive(Clone, Default)]
struct AppLog(Arc<Mutex<BTreeMap<String, (bool, bool, String)>>>);

impl Service<http::Request<()>> for AppLog {
    type Response = http::Response<()>;
    type Error = Infallible;
    type Future = std::future::Ready<Result<http::Response<()>, Infallible>>;
    fn poll_ready(&mut self, _: &mut Context<'_>) -> Poll<Result<(), Infallible>> {
        Poll::Ready(Ok(()))
    }
    fn call(&mut self, req: http::Request<()>) -> Self::Future {
        let rid = req.headers().get("x-rid").map(|v| v.to_str().unwrap().to_string()).unwrap_or_default();
        let t = req.extensions().get::<TlsConnectionInfo>();
        self.0.lock().unwrap().insert(
            rid,
            (
                t.is_some(),
                t.map(|t| t.validated_server_name).unwrap_or(false),
                t.and_then(|t| t.server_name.clone()).unwrap_or_default(),
            ),
        );
        std::future::ready(Ok(http::Response::new(())))
    }
}

#[derive(Debug)]
struct AcceptAnyCert(Arc<rustls::crypto::CryptoProvider>);

impl rustls::client::danger::ServerCertVerifier for AcceptAnyCert {
    fn verify_server_cert(
        &self,
        _: &rustls::pki_types::CertificateDer<'_>,
        _: &[rustls::pki_types::CertificateDer<'_>],
        _: &rustls::pki_types::ServerName<'_>,
        _: &[u8],
        _: rustls::pki_types::UnixTime,
    ) -> Result<rustls::client::danger::ServerCertVerified, rustls::Error> {
        Ok(rustls::client::danger::ServerCertVerified::assertion())
    }
    fn verify_tls12_signature(
        &self,
        m: &[u8],
        c: &rustls::pki_types::CertificateDer<'_>,
        d: &rustls::DigitallySignedStruct,
    ) -> Result<rustls::client::danger::HandshakeSignatureValid, rustls::Error> {
        rustls::crypto::verify_tls12_signature(m, c, d, &self.0.signature_verification_algorithms)
    }
    fn verify_tls13_signature(
        &self,
        m: &[u8],
        c: &rustls::pki_types::CertificateDer<'_>,
        d: &rustls::DigitallySignedStruct,
    ) -> Result<rustls::client::danger::HandshakeSignatureValid, rustls::Error> {
        rustls::crypto::verify_tls13_signature(m, c, d, &self.0.signature_verification_algorithms)
    }
    fn supported_verify_schemes(&self) -> Vec<rustls::SignatureScheme> {
        self.0.signature_verification_algorithms.supported_schemes()
    }
}

struct TlsCfg {
    server: Arc<rustls::ServerConfig>,
    client: Arc<rustls::ClientConfig>,
}

fn tls_cfg() -> TlsCfg {
    let dir = std::env::var("C20_CERTS").expect("env C20_CERTS (directory with cert.pem and key.pem)");
    let provider = Arc::new(rustls::crypto::ring::default_provider());
    let _ = rustls::crypto::ring::default_provider().install_default();
    let (_, cert) = pem_rfc7468::decode_vec(&std::fs::read(format!("{dir}/cert.pem")).expect("cert.pem")).expect("cert pem");
    let key_pem = std::fs::read(format!("{dir}/key.pem")).expect("key.pem");
    let (label, key) = pem_rfc7468::decode_vec(&key_pem).expect("key pem");
    let key = match label {
        "PRIVATE KEY" => rustls::pki_types::PrivateKeyDer::Pkcs8(key.into()),
        "RSA PRIVATE KEY" => rustls::pki_types::PrivateKeyDer::Pkcs1(key.into()),
        "EC PRIVATE KEY" => rustls::pki_types::PrivateKeyDer::Sec1(key.into()),
        o => panic!("unknown key type {o}"),
    };
    let mut server = rustls::ServerConfig::builder()
        .with_no_client_auth()
        .with_single_cert(vec![rustls::pki_types::CertificateDer::from(cert)], key)
        .expect("server config");
    server.alpn_protocols = vec![b"h2".to_vec(), b"http/1.1".to_vec()];
    let mut client = rustls::ClientConfig::builder()
        .dangerous()
        .with_custom_certificate_verifier(Arc::new(AcceptAnyCert(provider)))
        .with_no_client_auth();
    client.alpn_protocols = vec![b"h2".to_vec(), b"http/1.1".to_vec()];
    TlsCfg { server: Arc::new(server), client: Arc::new(client) }
}

type ReqFut = Pin<Box<dyn Future<Output = Result<http::Response<()>, SNIMiddlewareError<Infallible>>> + Send>>;

/// Replays one connection scenario. `chain` = {beh:[{e,r}], trace:[[status;3]], sni:"name"|"" , reqs:[c;3]}.
/// Returns per request (kind, validated, saw_tls, sni_seen, err, done_after).
async fn run_chain(chain: &Value, cfg: &TlsCfg) -> Vec<Value> {
    let (client, incoming) = hyperdriver::stream::duplex::pair();
    let acceptor = hyperdriver::server::conn::Acceptor::from(incoming).with_tls(cfg.server.clone());
    let sni = chain["sni"].as_str().unwrap().to_string();
    let ccfg = cfg.client.clone();
    // the client side of the handshake runs in its own task; the server side only moves when `conn` is polled
    let client_task = tokio::spawn(async move {
        let stream = client.connect(1 << 16).await.expect("duplex connect");
        let name = if sni.is_empty() {
            rustls::pki_types::ServerName::IpAddress(std::net::IpAddr::from([127, 0, 0, 1]).into())
        } else {
            rustls::pki_types::ServerName::try_from(sni).expect("sni is a dns name")
        };
        tokio_rustls::TlsConnector::from(ccfg).connect(name, stream).await
    });
    let mut conn = acceptor.accept().await.expect("accept");
    let app = AppLog::default();
    let mut make = TlsConnectionInfoLayer::new().layer(Shared::new(ValidateSNI.layer(app.clone())));
    let mut svc = Service::call(&mut make, &conn).await.expect("make service");

    let reqs = chain["reqs"].as_array().unwrap();
    let n = reqs.len();
    let mut futs: Vec<Option<ReqFut>> = (0..n).map(|_| None).collect();
    let mut result: Vec<Option<(String, String)>> = vec![None; n]; // (kind, err)
    let mut done_after: Vec<i64> = vec![0; n];
    let mut client_task = Some(client_task);
    let mut client_stream = None;
    for (k, ev) in chain["beh"].as_array().unwrap().iter().enumerate() {
        let k = k as i64 + 1;
        let r = ev["r"].as_u64().unwrap() as usize;
        match ev["e"].as_str().unwrap() {
            "S" => {
                let c = &reqs[r - 1];
                let mut req = http::Request::builder()
                    .version(version(c["ver"].as_str().unwrap()))
                    .uri(c["uri"].as_str().unwrap())
                    .header("x-rid", format!("r{r}"))
                    .body(())
                    .expect("harness builds a valid request");
                if c["has_host"].as_bool().unwrap() {
                    req.headers_mut().insert(http::header::HOST, c["host"].as_str().unwrap().parse().expect("host value"));
                }
                futs[r - 1] = Some(Box::pin(Service::call(&mut svc, req)));
            }
            "D" => {
                if futs[r - 1].take().is_some() {
                    result[r - 1] = Some(("dropped".into(), String::new()));
                    done_after[r - 1] = k;
                } else {
                    // the model says the request is still suspended here, the real one already completed
                    done_after[r - 1] = -done_after[r - 1];
                }
            }
            "H" => {
                conn.finish_handshake().await.expect("server handshake");
                client_stream = Some(client_task.take().unwrap().await.expect("client task").expect("client handshake"));
            }
            o => panic!("event {o}"),
        }
        // settle: poll every suspended request future until nothing moves
        loop {
            tokio::task::yield_now().await;
            let mut moved = false;
            for i in 0..n {
                if let Some(f) = futs[i].as_mut() {
                    if let Poll::Ready(res) = futures_util::poll!(f.as_mut()) {
                        futs[i] = None;
                        moved = true;
                        done_after[i] = k;
                        result[i] = Some(match res {
                            Ok(_) => ("forwarded".into(), String::new()),
                            Err(SNIMiddlewareError::SNI(e)) => ("rejected".into(), e.to_string()),
                            Err(e) => ("inner_error".into(), e.to_string()),
                        });
                    }
                }
            }
            if !moved {
                break;
            }
        }
    }
    drop(futs);
    drop(client_stream);
    let log = app.0.lock().unwrap().clone();
    (0..n)
        .map(|i| {
            let (kind, err) = result[i].clone().unwrap_or(("pending".into(), String::new()));
            let seen = log.get(&format!("r{}", i + 1)).cloned();
            let kind = match (kind.as_str(), &seen) {
                ("forwarded", None) => "answered_without_inner".to_string(),
                ("rejected", Some(_)) => "rejected_after_inner".to_string(),
                _ => kind,
            };
            let (saw_tls, validated, sni_seen) = seen.unwrap_or_default();
            json!({"kind": kind, "validated": validated, "saw_tls": saw_tls, "sni_seen": sni_seen, "err": err,
                   "done_after": done_after[i]})
        })
        .collect()
}

fn status_kind_ok(status: &str, kind: &str) -> bool {
    match status {
        "dropped" => kind == "dropped",
        "done_info" | "done_none" => kind != "dropped" && kind != "pending",
        _ => kind == "pending",
    }
}

/// Instantiates a scenario line from TLC into a concrete chain description.
fn instantiate_chain(line: &Value, rng: &mut StdRng) -> (Value, Vec<Value>) {
    let scn = &line["scn"];
    let name = NAMES[rng.gen_range(0..NAMES.len())].to_string();
    let alt = recase(&name, rng);
    let oth = other(&name, rng);
    let ver = scn["ver"].as_str().unwrap();
    let sni_form = scn["sni"].as_str().unwrap();
    let sni = if sni_form == "a" { name.clone() } else { String::new() };
    let mut reqs = vec![];
    let mut vs = vec![];
    for cl in scn["cls"].as_array().unwrap() {
        let port = PORTS[rng.gen_range(0..PORTS.len())];
        let (form, text): (&str, String) = match cl.as_str().unwrap() {
            "match" => match rng.gen_range(0..4) {
                0 => ("a", name.clone()),
                1 => ("A", alt.clone()),
                2 => ("a_port", format!("{name}:{port}")),
                _ => ("A_port", format!("{alt}:{port}")),
            },
            "differ" => match rng.gen_range(0..3) {
                0 | 1 => ("b", oth.clone()),
                _ => ("v4", V4[rng.gen_range(0..V4.len())].to_string()),
            },
            _ => ("none", String::new()),
        };
        // where the host is named: HTTP/1.1 -> Host header (an absolute-form URI naming another host must not matter);
        // HTTP/2 -> authority, or Host header without authority, or authority with a different Host header
        let (hosthdr, host, auth, authority): (&str, String, &str, String) = if ver == "2" {
            match (form, rng.gen_range(0..3)) {
                ("none", _) => ("none", String::new(), "none", String::new()),
                (_, 0) => ("none", String::new(), form, text.clone()),
                (_, 1) => (form, text.clone(), "none", String::new()),
                _ => ("b", oth.clone(), form, text.clone()),
            }
        } else if rng.gen_range(0..3) == 0 {
            (form, text.clone(), "b", oth.clone())
        } else {
            (form, text.clone(), "none", String::new())
        };
        let path = PATHS[rng.gen_range(0..PATHS.len())];
        let uri = if auth == "none" { path.to_string() } else { format!("https://{authority}{path}") };
        reqs.push(json!({"ver": ver, "host": host, "has_host": hosthdr != "none", "uri": uri, "tls": true,
                         "sni": sni, "has_sni": sni_form == "a", "alpn": "", "name": name, "alt": alt, "other": oth}));
        vs.push(json!({"ver": ver, "hosthdr": hosthdr, "auth": auth, "sni": if sni_form == "a" { "a" } else { "none" }, "tls": true}));
    }
    (json!({"beh": line["beh"], "trace": line["trace"], "sni": sni, "reqs": reqs}), vs)
}

fn beh_string(beh: &Value) -> String {
    beh.as_array()
        .unwrap()
        .iter()
        .map(|e| if e["e"] == "H" { "H".to_string() } else { format!("{}{}", e["e"].as_str().unwrap(), e["r"]) })
        .collect::<Vec<_>>()
        .join(".")
}

/// Runs a concrete chain and emits one record per request.
async fn emit_chain(chain: &Value, vs: &[Value], cfg: &TlsCfg, out: &mut TraceOut, n: &mut usize, conn_id: usize) {
    let obs = run_chain(chain, cfg).await;
    let beh = chain["beh"].as_array().unwrap();
    let trace = chain["trace"].as_array().unwrap();
    let bs = beh_string(&chain["beh"]);
    let chain_json = serde_json::to_string(&json!({"chain": chain, "vs": vs})).unwrap();
    for (i, o) in obs.iter().enumerate() {
        // what the model expects for this request: final status and the event after which it got there
        let fin = trace.last().unwrap()[i].as_str().unwrap().to_string();
        let exp_after = trace
            .iter()
            .position(|t| matches!(t[i].as_str().unwrap(), "done_info" | "done_none" | "dropped"))
            .map(|p| p as i64 + 1)
            .unwrap_or(0);
        let done = o["done_after"].as_i64().unwrap();
        let upto = if done > 0 { done as usize } else { beh.len() };
        // was a suspended request future of this connection cancelled before this request completed?
        let after_cancel = beh[..upto].iter().any(|e| e["e"] == "D" && e["r"].as_u64().unwrap() as usize != i + 1);
        let mut c = chain["reqs"][i].clone();
        c["mode"] = json!("chain");
        c["conn"] = json!(conn_id);
        c["pos"] = json!(i + 1);
        c["beh"] = json!(bs);
        c["scn_class"] = json!(if after_cancel { "after-cancelled-wait" } else { "plain" });
        c["exp_status"] = json!(fin);
        c["exp_done_after"] = json!(exp_after);
        c["conforms"] = json!(status_kind_ok(&fin, o["kind"].as_str().unwrap()) && exp_after == done);
        c["chain_json"] = json!(chain_json);
        *n += 1;
        out.emit(&json!({"i": *n, "v": vs[i], "c": c, "o": o}));
    }
}

fn read_lines(path: &str) -> Vec<Value> {
    let f = std::fs::File::open(path).unwrap_or_else(|e| panic!("open {path}: {e}"));
    BufReader::new(f)
        .lines()
        .map(|l| l.unwrap())
        .filter(|l| !l.trim().is_empty())
        .map(|l| serde_json::from_str(&l).unwrap_or_else(|e| panic!("bad json line {l}: {e}")))
        .collect()
}

#[tokio::main(flavor = "current_thread", start_paused = true)]
async fn main() {
    // panics of the code under test are data; keep stderr quiet
    std::panic::set_hook(Box::new(|_| {}));
    let a: Vec<String> = std::env::args().collect();
    if a.len() < 4 {
        eprintln!("usage: sni gen <vectors> <out> <seed> <spellings> | sni chain <chain> <out> <seed> <reps> | sni rerun <records> <out>");
        std::process::exit(2);
    }
    let mut out = TraceOut::create(&a[3]);
    let mut n = 0usize;
    match a[1].as_str() {
        "gen" => {
            let seed: u64 = a[4].parse().unwrap();
            let k: usize = a[5].parse().unwrap();
            let vecs = read_lines(&a[2]);
            let mut rng = StdRng::seed_from_u64(seed ^ 0xC20);
            for line in &vecs {
                let v = &line["v"];
                for _ in 0..k {
                    let c = instantiate(v, &mut rng);
                    let o = run(&c);
                    n += 1;
                    out.emit(&json!({"i": n, "v": v, "c": c, "o": o}));
                }
            }
        }
        "chain" => {
            let seed: u64 = a[4].parse().unwrap();
            let reps: usize = a[5].parse::<usize>().unwrap().max(1);
            let cfg = tls_cfg();
            let mut rng = StdRng::seed_from_u64(seed ^ 0xC2011);
            let lines = read_lines(&a[2]);
            let mut conns = 0usize;
            for _ in 0..reps {
                for line in &lines {
                    let (chain, vs) = instantiate_chain(line, &mut rng);
                    conns += 1;
                    emit_chain(&chain, &vs, &cfg, &mut out, &mut n, conns).await;
                }
            }
            out.finish();
            println!("{}", json!({"records": n, "connections": conns}));
            return;
        }
        "rerun" => {
            let mut cfg: Option<TlsCfg> = None;
            let mut seen_chains: Vec<String> = vec![];
            for r in read_lines(&a[2]) {
                if r["c"]["mode"] == "chain" {
                    // a chain record stands for its whole connection: replay the connection once
                    let cj = r["c"]["chain_json"].as_str().unwrap().to_string();
                    if seen_chains.contains(&cj) {
                        continue;
                    }
                    seen_chains.push(cj.clone());
                    let parsed: Value = serde_json::from_str(&cj).unwrap();
                    let vs: Vec<Value> = parsed["vs"].as_array().unwrap().clone();
                    let cfg = cfg.get_or_insert_with(tls_cfg);
                    emit_chain(&parsed["chain"], &vs, cfg, &mut out, &mut n, seen_chains.len()).await;
                } else {
                    let o = run(&r["c"]);
                    n += 1;
                    out.emit(&json!({"i": n, "v": r["v"], "c": r["c"], "o": o}));
                }
            }
        }
        o => {
            eprintln!("unknown mode {o}");
            std::process::exit(2);
        }
    }
    out.finish();
    println!("{}", json!({"records": n}));
}
