//! Driver for the lazily-handshaking TLS streams (spec/TlsStream.tla, spec/TlsStreamObs.tla).
//!
//! Systems under test (REAL types of the crate, nothing re-implemented):
//!   S_TLS       server `hyperdriver::server::conn::tls::TlsStream<Pipe>` as handed out by the real
//!               `TlsAcceptor::poll_accept` (which must wrap without handshaking)
//!   S_STREAM    `hyperdriver::server::conn::Stream::from(<that TlsStream>)` (TlsBraid dispatch, Tls arm)
//!   C_TLS       client `hyperdriver::client::conn::stream::TlsStream::new(Pipe, domain, config)`
//!   C_STREAM    `hyperdriver::client::conn::Stream::new(Pipe).tls(domain, config)` (TlsBraid dispatch)
//!   C_TRANSPORT `TlsTransportWrapper::new(<transport returning the Pipe>, config)`: `Fin` polls the connect
//!               future (which drives `poll_handshake`) until it hands the stream out; then as C_STREAM
//!
//! The inner transport is an in-memory pipe with instrumentation; the peer is real rustls (the library
//! tokio-rustls wraps) driven synchronously by the schedule, so that the peer moves only when the schedule says
//! so: it can stay silent (stall), answer, refuse the certificate, send garbage, send data, send close_notify,
//! drop or reset the transport. No runtime: every step is ONE entry-point call polled by hand with a fresh
//! counting waker, or one environment action. After every step the driver records the return value, the TLS
//! records / clear bytes that reached the wire, what the peer decrypted, and the state of every TLS-info receiver
//! (server: request futures behind the real `TlsConnectionInfoLayer`; client: `tls_info()`).
//! Panics of the code under test are caught and recorded as data.
//!
//! usage: tlsstream run <in.ndjson|-> <out.ndjson> --certs DIR [--seed N] [--rand N] [--maxlen L]
#![allow(clippy::type_complexity)]

#[path = "../tls_common.rs"]
mod tls_common;

use std::collections::{BTreeMap, VecDeque};
use std::convert::Infallible;
use std::future::Future;
use std::io::{self, Read as _, Write as _};
use std::panic::{catch_unwind, AssertUnwindSafe};
use std::pin::Pin;
use std::sync::atomic::{AtomicUsize, Ordering};
use std::sync::{Arc, Mutex};
use std::task::{Context, Poll, Wake, Waker};

use hyperdriver::client::pool::PoolableStream;
use hyperdriver::info::{ConnectionInfo, HasConnectionInfo, HasTlsConnectionInfo, TlsConnectionInfo};
use hyperdriver::server::conn::tls::TlsConnectionInfoLayer;
use hyperdriver::server::conn::Accept;
use hyperdriver::stream::tls::{TlsHandshakeExt, TlsHandshakeStream};
use rand::rngs::StdRng;
use rand::{Rng, SeedableRng};
use serde_json::{json, Value};
use tokio::io::{AsyncRead, AsyncWrite, ReadBuf};
use tower::make::Shared;
use tower::{Layer, Service};

use tls_common::{install_crypto, install_panic_hook, load_cert, short_loc, take_panics, Certs};

const MAXNUM: usize = 200; // application bytes are numbered 1..=200 per direction (the value is the number)
const POLL_CAP: usize = 400; // in-band brake: a step that polls the inner transport more often is cut off

// ------------------------------------------------------------------------------------------------
// counting waker
struct Counter(AtomicUsize);
impl Wake for Counter {
    fn wake(self: Arc<Self>) {
        self.0.fetch_add(1, Ordering::SeqCst);
    }
    fn wake_by_ref(self: &Arc<Self>) {
        self.0.fetch_add(1, Ordering::SeqCst);
    }
}
fn counter() -> (Arc<Counter>, Waker) {
    let c = Arc::new(Counter(AtomicUsize::new(0)));
    (c.clone(), Waker::from(c))
}

// ------------------------------------------------------------------------------------------------
// the instrumented in-memory transport under the stream under test
#[derive(Default)]
struct Wire {
    to_sut: VecDeque<u8>,
    from_sut: Vec<u8>,
    taken: usize, // bytes of from_sut the peer has consumed
    wblock: bool,
    wroom: Option<usize>, // Some(r): the transport takes r more bytes, then returns Pending (a full socket buffer)
    closed: u8, // 0 open, 1 peer dropped (EOF after the queue), 2 reset (errors)
    sut_shut: bool,
    sut_gone: bool,
    rwaker: Option<Waker>,
    wwaker: Option<Waker>,
    polls: [usize; 4], // read, write, flush, shutdown calls of the current step
    // classification of from_sut
    ppos: usize,
    clear: usize,
    types: Vec<u8>,
    spin: bool,
}
type SharedWire = Arc<Mutex<Wire>>;

impl Wire {
    fn total_polls(&self) -> usize {
        self.polls.iter().sum()
    }
    /// parse what the stream under test has put on the wire: complete TLS records (type 20..23, version 3.x)
    /// or clear bytes (anything else)
    fn classify(&mut self) {
        let b = &self.from_sut;
        while self.ppos < b.len() {
            let p = self.ppos;
            let t = b[p];
            if !(0x14..=0x17).contains(&t) {
                self.clear += 1;
                self.ppos += 1;
                continue;
            }
            if p + 5 > b.len() {
                break;
            }
            let len = ((b[p + 3] as usize) << 8) | b[p + 4] as usize;
            if b[p + 1] != 3 || b[p + 2] > 4 || len > 16384 + 2048 {
                self.clear += 1;
                self.ppos += 1;
                continue;
            }
            if p + 5 + len > b.len() {
                break;
            }
            self.types.push(t);
            self.ppos = p + 5 + len;
        }
    }
}

#[derive(Clone, Debug, Default, PartialEq, Eq, Hash)]
struct PAddr;
impl std::fmt::Display for PAddr {
    fn fmt(&self, f: &mut std::fmt::Formatter<'_>) -> std::fmt::Result {
        f.write_str("pipe")
    }
}

struct Pipe(SharedWire);
impl Drop for Pipe {
    fn drop(&mut self) {
        if let Ok(mut w) = self.0.lock() {
            w.sut_gone = true;
        }
    }
}
impl HasConnectionInfo for Pipe {
    type Addr = PAddr;
    fn info(&self) -> ConnectionInfo<PAddr> {
        ConnectionInfo { local_addr: PAddr, remote_addr: PAddr }
    }
}
impl PoolableStream for Pipe {
    fn can_share(&self) -> bool {
        false
    }
}
impl AsyncRead for Pipe {
    fn poll_read(self: Pin<&mut Self>, cx: &mut Context<'_>, buf: &mut ReadBuf<'_>) -> Poll<io::Result<()>> {
        let mut w = self.0.lock().unwrap();
        w.polls[0] += 1;
        if w.total_polls() > POLL_CAP {
            w.spin = true;
            return Poll::Ready(Err(io::Error::new(io::ErrorKind::Other, "harness brake: busy loop")));
        }
        if !w.to_sut.is_empty() {
            let n = std::cmp::min(buf.remaining(), w.to_sut.len());
            for _ in 0..n {
                let b = w.to_sut.pop_front().unwrap();
                buf.put_slice(&[b]);
            }
            return Poll::Ready(Ok(()));
        }
        match w.closed {
            1 => Poll::Ready(Ok(())),
            2 => Poll::Ready(Err(io::Error::new(io::ErrorKind::ConnectionReset, "scripted reset"))),
            _ => {
                w.rwaker = Some(cx.waker().clone());
                Poll::Pending
            }
        }
    }
}
impl AsyncWrite for Pipe {
    fn poll_write(self: Pin<&mut Self>, cx: &mut Context<'_>, buf: &[u8]) -> Poll<io::Result<usize>> {
        let mut w = self.0.lock().unwrap();
        w.polls[1] += 1;
        if w.total_polls() > POLL_CAP {
            w.spin = true;
            return Poll::Ready(Err(io::Error::new(io::ErrorKind::Other, "harness brake: busy loop")));
        }
        match w.closed {
            1 => return Poll::Ready(Err(io::Error::new(io::ErrorKind::BrokenPipe, "peer gone"))),
            2 => return Poll::Ready(Err(io::Error::new(io::ErrorKind::ConnectionReset, "scripted reset"))),
            _ => {}
        }
        if w.wblock {
            w.wwaker = Some(cx.waker().clone());
            return Poll::Pending;
        }
        if let Some(r) = w.wroom {
            if r == 0 {
                w.wwaker = Some(cx.waker().clone());
                return Poll::Pending;
            }
            let n = std::cmp::min(r, buf.len());
            w.wroom = Some(r - n);
            w.from_sut.extend_from_slice(&buf[..n]);
            return Poll::Ready(Ok(n));
        }
        w.from_sut.extend_from_slice(buf);
        Poll::Ready(Ok(buf.len()))
    }
    fn poll_flush(self: Pin<&mut Self>, _cx: &mut Context<'_>) -> Poll<io::Result<()>> {
        let mut w = self.0.lock().unwrap();
        w.polls[2] += 1;
        Poll::Ready(Ok(()))
    }
    fn poll_shutdown(self: Pin<&mut Self>, _cx: &mut Context<'_>) -> Poll<io::Result<()>> {
        let mut w = self.0.lock().unwrap();
        w.polls[3] += 1;
        w.sut_shut = true;
        Poll::Ready(Ok(()))
    }
}

// ------------------------------------------------------------------------------------------------
// the scripted peer: real rustls, driven synchronously
struct Peer {
    conn: rustls::Connection,
    app: Vec<u8>, // application bytes decrypted so far
    err: String,
    cn: bool,  // close_notify received
    fin: bool, // transport EOF seen
    sent: usize,
}

impl Peer {
    fn flush_out(&mut self, w: &mut Wire) {
        let mut out = Vec::new();
        while self.conn.wants_write() {
            if self.conn.write_tls(&mut out).is_err() {
                break;
            }
        }
        if !out.is_empty() {
            w.to_sut.extend(out);
            if let Some(wk) = w.rwaker.take() {
                wk.wake();
            }
        }
    }
    fn drain_plain(&mut self) {
        let mut buf = [0u8; 4096];
        loop {
            match self.conn.reader().read(&mut buf) {
                Ok(0) => {
                    self.cn = true;
                    break;
                }
                Ok(n) => self.app.extend_from_slice(&buf[..n]),
                Err(_) => break,
            }
        }
    }
    /// consume everything the stream under test has written, answer
    fn pump(&mut self, w: &mut Wire) {
        if self.err.is_empty() {
            let data: Vec<u8> = w.from_sut[w.taken..].to_vec();
            w.taken = w.from_sut.len();
            let mut rd: &[u8] = &data;
            while !rd.is_empty() && self.err.is_empty() {
                match self.conn.read_tls(&mut rd) {
                    Ok(0) => break,
                    Ok(_) => {}
                    Err(e) => {
                        self.err = format!("read_tls: {e}");
                        break;
                    }
                }
                match self.conn.process_new_packets() {
                    Ok(_) => self.drain_plain(),
                    Err(e) => self.err = format!("{e}"),
                }
            }
            if (w.sut_shut || w.sut_gone) && !self.fin && self.err.is_empty() {
                self.fin = true;
                let mut empty: &[u8] = &[];
                let _ = self.conn.read_tls(&mut empty);
                let _ = self.conn.process_new_packets();
                self.drain_plain();
            }
        } else {
            w.taken = w.from_sut.len();
        }
        self.flush_out(w);
    }
    fn send(&mut self, n: usize, w: &mut Wire) {
        let bytes: Vec<u8> = (0..n).map(|i| ((self.sent + i) % MAXNUM + 1) as u8).collect();
        if self.conn.writer().write_all(&bytes).is_ok() {
            self.sent += n;
        }
        self.flush_out(w);
    }
    fn close(&mut self, w: &mut Wire) {
        self.conn.send_close_notify();
        self.flush_out(w);
    }
    fn hs_done(&self) -> bool {
        !self.conn.is_handshaking()
    }
    fn alpn(&self) -> String {
        self.conn.alpn_protocol().map(|a| String::from_utf8_lossy(a).to_string()).unwrap_or_default()
    }
}

// ------------------------------------------------------------------------------------------------
// server side: acceptor handing out the pipe, application recording the TLS info it sees
struct OneShotAccept(Option<Pipe>);
impl Accept for OneShotAccept {
    type Conn = Pipe;
    type Error = io::Error;
    fn poll_accept(mut self: Pin<&mut Self>, _cx: &mut Context<'_>) -> Poll<Result<Pipe, io::Error>> {
        match self.0.take() {
            Some(p) => Poll::Ready(Ok(p)),
            None => Poll::Pending,
        }
    }
}

#[derive(Clone, Default)]
struct AppLog(Arc<Mutex<BTreeMap<String, String>>>);
impl Service<http::Request<()>> for AppLog {
    type Response = http::Response<()>;
    type Error = Infallible;
    type Future = std::future::Ready<Result<http::Response<()>, Infallible>>;
    fn poll_ready(&mut self, _: &mut Context<'_>) -> Poll<Result<(), Infallible>> {
        Poll::Ready(Ok(()))
    }
    fn call(&mut self, req: http::Request<()>) -> Self::Future {
        let rid = req.headers().get("x-rid").map(|v| v.to_str().unwrap().to_string()).unwrap_or_default();
        let seen = match req.extensions().get::<TlsConnectionInfo>() {
            Some(t) => info_string(t),
            None => "none".to_string(),
        };
        self.0.lock().unwrap().insert(rid, seen);
        std::future::ready(Ok(http::Response::new(())))
    }
}
fn info_string(t: &TlsConnectionInfo) -> String {
    format!(
        "some|{}|{}",
        t.server_name.as_deref().unwrap_or("-"),
        t.alpn.as_ref().map(|a| a.to_string()).unwrap_or_else(|| "-".into())
    )
}
/// "some|<sni>|<alpn>" / "pending" / "none" / ... as a record the monitor can take apart
fn info_rec(s: &str) -> Value {
    let mut it = s.splitn(3, '|');
    let st = it.next().unwrap_or("");
    json!({"st": st, "sni": it.next().unwrap_or(""), "alpn": it.next().unwrap_or("")})
}

type ReqFut = Pin<Box<dyn Future<Output = Result<http::Response<()>, Infallible>> + Send>>;
struct Receiver {
    rid: String,
    fut: Option<ReqFut>,
    state: String,
}

// ------------------------------------------------------------------------------------------------
// client side: transport returning the pipe
#[derive(Clone)]
struct PipeTransport(Arc<Mutex<Option<Pipe>>>);
impl Service<http::request::Parts> for PipeTransport {
    type Response = Pipe;
    type Error = io::Error;
    type Future = std::future::Ready<Result<Pipe, io::Error>>;
    fn poll_ready(&mut self, _cx: &mut Context<'_>) -> Poll<Result<(), io::Error>> {
        Poll::Ready(Ok(()))
    }
    fn call(&mut self, _req: http::request::Parts) -> Self::Future {
        std::future::ready(self.0.lock().unwrap().take().ok_or_else(|| io::Error::new(io::ErrorKind::Other, "used")))
    }
}

type STls = hyperdriver::server::conn::tls::TlsStream<Pipe>;
type SStream = hyperdriver::server::conn::Stream<Pipe>;
type CTls = hyperdriver::client::conn::stream::TlsStream<Pipe>;
type CStream = hyperdriver::client::conn::Stream<Pipe>;
type ConnFut = Pin<Box<dyn Future<Output = Result<CStream, String>>>>;

enum Sut {
    STls(STls),
    SStream(SStream),
    CTls(CTls),
    CStream(CStream),
    Connecting(ConnFut),
    Gone,
}

macro_rules! each {
    ($sut:expr, $s:ident => $e:expr, $other:expr) => {
        match $sut {
            Sut::STls($s) => $e,
            Sut::SStream($s) => $e,
            Sut::CTls($s) => $e,
            Sut::CStream($s) => $e,
            _ => $other,
        }
    };
}

#[derive(Default, Clone)]
struct Outcome {
    res: String, // Ok Pending Err Panic Skip
    n: usize,
    kind: String,
    data: Vec<u8>,
}
fn oc(res: &str) -> Outcome {
    Outcome { res: res.into(), ..Default::default() }
}
fn kind_str(e: &io::Error) -> String {
    format!("{:?}", e.kind())
}
fn conv_unit(r: std::thread::Result<Poll<io::Result<()>>>) -> Outcome {
    match r {
        Err(_) => oc("Panic"),
        Ok(Poll::Pending) => oc("Pending"),
        Ok(Poll::Ready(Ok(()))) => oc("Ok"),
        Ok(Poll::Ready(Err(e))) => Outcome { res: "Err".into(), kind: kind_str(&e), ..Default::default() },
    }
}

struct World {
    side: String,
    stack: String,
    wire: SharedWire,
    peer: Peer,
    sut: Sut,
    wsent: usize, // application bytes accepted by Write so far
    receivers: Vec<Receiver>,
    app: AppLog,
    sni: String,
    pclosed: bool,
}

fn mk_alpn(a: &str) -> Vec<&'static str> {
    match a {
        "h2" => vec!["h2", "http/1.1"],
        "h1" => vec!["http/1.1"],
        _ => vec![],
    }
}

fn build(seq: &Value, certs: &Certs) -> Result<World, String> {
    let side = seq["side"].as_str().unwrap_or("server").to_string();
    let stack = seq["stack"].as_str().unwrap_or("S_TLS").to_string();
    let cfg = &seq["cfg"];
    let cert_ok = cfg["cert"].as_str().unwrap_or("ok") == "ok";
    let sni = cfg["sni"].as_str().unwrap_or("a.verif.test").to_string();
    let alpn = mk_alpn(cfg["alpn"].as_str().unwrap_or("h2"));
    let wire: SharedWire = Arc::new(Mutex::new(Wire::default()));
    let pipe = Pipe(wire.clone());
    let (_c, wk) = counter();
    let mut cx = Context::from_waker(&wk);
    if side == "server" {
        // peer = rustls client; it trusts the CA of the stream's certificate or (cert = bad) only another CA
        let mut roots = rustls::RootCertStore::empty();
        roots
            .add(load_cert(&format!("{}/{}.pem", certs.dir, if cert_ok { "ca" } else { "rogue" })))
            .map_err(|e| e.to_string())?;
        let mut ccfg = rustls::ClientConfig::builder().with_root_certificates(roots).with_no_client_auth();
        ccfg.alpn_protocols = alpn.iter().map(|a| a.as_bytes().to_vec()).collect();
        ccfg.resumption = rustls::client::Resumption::disabled();
        let name = if sni.is_empty() {
            rustls::pki_types::ServerName::IpAddress(std::net::IpAddr::from([127, 0, 0, 1]).into())
        } else {
            rustls::pki_types::ServerName::try_from(sni.clone()).map_err(|e| e.to_string())?
        };
        let pc = rustls::ClientConnection::new(Arc::new(ccfg), name).map_err(|e| e.to_string())?;
        let peer = Peer { conn: rustls::Connection::Client(pc), app: vec![], err: String::new(), cn: false, fin: false, sent: 0 };
        let scfg = certs.server_config("match", &alpn);
        // the real acceptor: must hand the connection out without handshaking
        let mut acc = hyperdriver::server::conn::tls::TlsAcceptor::new(scfg, OneShotAccept(Some(pipe)));
        let tls = match Pin::new(&mut acc).poll_accept(&mut cx) {
            Poll::Ready(Ok(s)) => s,
            Poll::Ready(Err(e)) => return Err(format!("poll_accept failed: {e}")),
            Poll::Pending => return Err("poll_accept is pending although a connection is queued".into()),
        };
        let sut = if stack == "S_STREAM" { Sut::SStream(SStream::from(tls)) } else { Sut::STls(tls) };
        Ok(World { side, stack, wire, peer, sut, wsent: 0, receivers: vec![], app: AppLog::default(), sni, pclosed: false })
    } else {
        // peer = rustls server presenting a certificate of the trusted CA (ok) or of another CA (bad)
        let pcfg = certs.server_config(if cert_ok { "match" } else { "untrusted" }, &alpn);
        let pc = rustls::ServerConnection::new(pcfg).map_err(|e| e.to_string())?;
        let peer = Peer { conn: rustls::Connection::Server(pc), app: vec![], err: String::new(), cn: false, fin: false, sent: 0 };
        let (ccfg, _asked) = certs.client_config(&alpn);
        let ccfg = Arc::new(ccfg);
        let domain = if sni.is_empty() { "127.0.0.1".to_string() } else { sni.clone() };
        let sut = match stack.as_str() {
            "C_TLS" => Sut::CTls(CTls::new(pipe, &domain, ccfg)),
            "C_STREAM" => Sut::CStream(CStream::new(pipe).tls(&domain, ccfg)),
            _ => {
                let tr = PipeTransport(Arc::new(Mutex::new(Some(pipe))));
                let mut wrapper = hyperdriver::client::conn::transport::tls::TlsTransportWrapper::new(tr, ccfg);
                let uri: http::Uri = format!("https://{domain}/").parse().map_err(|e: http::uri::InvalidUri| e.to_string())?;
                let (parts, _) = http::Request::builder().uri(uri).body(()).unwrap().into_parts();
                let fut = Service::call(&mut wrapper, parts);
                Sut::Connecting(Box::pin(async move { fut.await.map_err(|e| format!("{e:?}")) }))
            }
        };
        Ok(World { side, stack, wire, peer, sut, wsent: 0, receivers: vec![], app: AppLog::default(), sni, pclosed: false })
    }
}

impl World {
    /// one entry-point call, polled once with a fresh counting waker
    fn sut_op(&mut self, op: &str, a: usize) -> (Outcome, bool) {
        let (cnt, wk) = counter();
        let mut cx = Context::from_waker(&wk);
        let out = match op {
            "Read" => {
                let mut store = vec![0u8; a];
                let mut rb = ReadBuf::new(&mut store);
                let r = each!(&mut self.sut, s => catch_unwind(AssertUnwindSafe(|| Pin::new(&mut *s).poll_read(&mut cx, &mut rb))), return (oc("Skip"), true));
                let mut o = conv_unit(r);
                if o.res == "Ok" {
                    o.data = rb.filled().to_vec();
                    o.n = o.data.len();
                }
                o
            }
            "Write" => {
                let bytes: Vec<u8> = (0..a).map(|i| ((self.wsent + i) % MAXNUM + 1) as u8).collect();
                let r = each!(&mut self.sut, s => catch_unwind(AssertUnwindSafe(|| Pin::new(&mut *s).poll_write(&mut cx, &bytes))), return (oc("Skip"), true));
                match r {
                    Err(_) => oc("Panic"),
                    Ok(Poll::Pending) => oc("Pending"),
                    Ok(Poll::Ready(Ok(n))) => {
                        self.wsent += std::cmp::min(n, a);
                        Outcome { res: "Ok".into(), n, ..Default::default() }
                    }
                    Ok(Poll::Ready(Err(e))) => Outcome { res: "Err".into(), kind: kind_str(&e), ..Default::default() },
                }
            }
            "Flush" => conv_unit(each!(&mut self.sut, s => catch_unwind(AssertUnwindSafe(|| Pin::new(&mut *s).poll_flush(&mut cx))), return (oc("Skip"), true))),
            "Shutdown" => conv_unit(each!(&mut self.sut, s => catch_unwind(AssertUnwindSafe(|| Pin::new(&mut *s).poll_shutdown(&mut cx))), return (oc("Skip"), true))),
            "Fin" => {
                if let Sut::Connecting(f) = &mut self.sut {
                    let r = catch_unwind(AssertUnwindSafe(|| f.as_mut().poll(&mut cx)));
                    match r {
                        Err(_) => {
                            self.sut = Sut::Gone;
                            oc("Panic")
                        }
                        Ok(Poll::Pending) => oc("Pending"),
                        Ok(Poll::Ready(Ok(s))) => {
                            self.sut = Sut::CStream(s);
                            oc("Ok")
                        }
                        Ok(Poll::Ready(Err(e))) => {
                            self.sut = Sut::Gone;
                            let kind = if e.contains("Handshake") { "Handshake" } else { "Connect" };
                            Outcome { res: "Err".into(), kind: format!("{kind}:{}", e.chars().take(120).collect::<String>()), ..Default::default() }
                        }
                    }
                } else if a == 1 {
                    conv_unit(each!(&mut self.sut, s => catch_unwind(AssertUnwindSafe(|| Pin::new(&mut s.handshake()).poll(&mut cx))), return (oc("Skip"), true)))
                } else {
                    conv_unit(each!(&mut self.sut, s => catch_unwind(AssertUnwindSafe(|| Pin::new(&mut s.finish_handshake()).poll(&mut cx))), return (oc("Skip"), true)))
                }
            }
            _ => unreachable!(),
        };
        // a Pending result must have left the caller's waker somewhere (or have woken it already)
        let armed = {
            let w = self.wire.lock().unwrap();
            cnt.0.load(Ordering::SeqCst) > 0
                || w.rwaker.as_ref().map(|x| x.will_wake(&wk)).unwrap_or(false)
                || w.wwaker.as_ref().map(|x| x.will_wake(&wk)).unwrap_or(false)
        };
        (out, armed)
    }

    /// a new receiver of the TLS info, created now through the public layer (server side)
    fn new_receiver(&mut self) -> Outcome {
        let rid = format!("r{}", self.receivers.len() + 1);
        let app = self.app.clone();
        let (_c, wk) = counter();
        let mut cx = Context::from_waker(&wk);
        let req = http::Request::builder().uri("/").header("x-rid", rid.clone()).body(()).unwrap();
        macro_rules! mk {
            ($s:expr) => {{
                let r = catch_unwind(AssertUnwindSafe(|| {
                    let mut make = TlsConnectionInfoLayer::new().layer(Shared::new(app));
                    let mut f = Box::pin(Service::call(&mut make, &*$s));
                    match f.as_mut().poll(&mut cx) {
                        Poll::Ready(Ok(mut svc)) => Some(Box::pin(Service::call(&mut svc, req)) as ReqFut),
                        _ => None,
                    }
                }));
                match r {
                    Ok(Some(f)) => {
                        self.receivers.push(Receiver { rid, fut: Some(f), state: "pending".into() });
                        oc("Ok")
                    }
                    Ok(None) => oc("Err"),
                    Err(_) => oc("Panic"),
                }
            }};
        }
        match &self.sut {
            Sut::STls(s) => mk!(s),
            Sut::SStream(s) => mk!(s),
            _ => oc("Skip"),
        }
    }

    fn poll_receivers(&mut self) {
        for _pass in 0..2 {
            for r in self.receivers.iter_mut() {
                if let Some(f) = r.fut.as_mut() {
                    let (_c, wk) = counter();
                    let mut cx = Context::from_waker(&wk);
                    match catch_unwind(AssertUnwindSafe(|| f.as_mut().poll(&mut cx))) {
                        Err(_) => {
                            r.fut = None;
                            r.state = "panic".into();
                        }
                        Ok(Poll::Pending) => {}
                        Ok(Poll::Ready(_)) => {
                            r.fut = None;
                            r.state = self.app.0.lock().unwrap().get(&r.rid).cloned().unwrap_or_else(|| "lost".into());
                        }
                    }
                }
            }
        }
    }

    fn client_info(&self) -> (String, bool) {
        let r = catch_unwind(AssertUnwindSafe(|| match &self.sut {
            Sut::CTls(s) => (s.tls_info().map(info_string).unwrap_or_else(|| "none".into()), s.can_share()),
            Sut::CStream(s) => (s.tls_info().map(info_string).unwrap_or_else(|| "none".into()), s.can_share()),
            _ => ("nostream".into(), false),
        }));
        r.unwrap_or(("panic".into(), false))
    }

    fn step(&mut self, op: &str, a: usize) -> Value {
        {
            let mut w = self.wire.lock().unwrap();
            w.polls = [0; 4];
            w.types.clear();
        }
        let inq = self.wire.lock().unwrap().to_sut.len();
        let papp0 = self.peer.app.len();
        let _ = take_panics();
        let mut armed = true;
        let out = match op {
            "Read" | "Write" | "Flush" | "Shutdown" | "Fin" => {
                let (o, ar) = self.sut_op(op, a);
                armed = ar;
                o
            }
            "Recv" => {
                if self.side == "server" {
                    self.new_receiver()
                } else {
                    oc("Ok")
                }
            }
            "Pump" => {
                let mut w = self.wire.lock().unwrap();
                self.peer.pump(&mut w);
                oc("Ok")
            }
            // the peer can send application data / close_notify only once ITS handshake is over (and only once):
            // otherwise the step is not enabled and recorded as Skip
            "PSend" | "PClose" if !self.peer.hs_done() || !self.peer.err.is_empty() || self.pclosed => oc("Skip"),
            "PSend" => {
                let mut w = self.wire.lock().unwrap();
                self.peer.send(a, &mut w);
                oc("Ok")
            }
            "PClose" => {
                let mut w = self.wire.lock().unwrap();
                self.peer.close(&mut w);
                self.pclosed = true;
                oc("Ok")
            }
            "PDrop" | "PReset" => {
                let mut w = self.wire.lock().unwrap();
                if w.closed == 0 {
                    w.closed = if op == "PDrop" { 1 } else { 2 };
                }
                if let Some(k) = w.rwaker.take() {
                    k.wake();
                }
                if let Some(k) = w.wwaker.take() {
                    k.wake();
                }
                oc("Ok")
            }
            "Garbage" => {
                let mut w = self.wire.lock().unwrap();
                w.to_sut.extend(b"HTTP/1.1 400 Bad Request\r\n\r\n".iter().copied());
                if let Some(k) = w.rwaker.take() {
                    k.wake();
                }
                oc("Ok")
            }
            "WBlock" => {
                let mut w = self.wire.lock().unwrap();
                if a == 0 {
                    w.wblock = true;
                } else {
                    w.wroom = Some(a);
                }
                oc("Ok")
            }
            "WUnblock" => {
                let mut w = self.wire.lock().unwrap();
                w.wblock = false;
                w.wroom = None;
                if let Some(k) = w.wwaker.take() {
                    k.wake();
                }
                oc("Ok")
            }
            o => panic!("unknown op {o}"),
        };
        let panics: Vec<String> = take_panics().into_iter().map(|p| format!("{} @ {}:{}", p.msg, short_loc(&p.file), p.line)).collect();
        self.poll_receivers();
        let _ = take_panics();
        let (cinfo, share) = if self.side == "client" { self.client_info() } else { (String::new(), false) };
        let mut w = self.wire.lock().unwrap();
        w.classify();
        let info: Vec<Value> =
            if self.side == "server" { self.receivers.iter().map(|r| info_rec(&r.state)).collect() } else { vec![info_rec(&cinfo)] };
        let inq2 = w.to_sut.len();
        json!({
            "op": op, "a": a, "res": out.res, "n": out.n, "kind": out.kind, "data": out.data,
            "polls": w.polls.to_vec(), "spin": w.spin, "armed": armed, "inq": inq, "inq2": inq2,
            "wire": w.types.clone(), "clear": w.clear, "wbytes": w.from_sut.len(), "shut": w.sut_shut,
            "pnew": self.peer.app[papp0..].to_vec(), "pgot": self.peer.app.len(), "phs": self.peer.hs_done(),
            "perr": self.peer.err.clone(), "pcn": self.peer.cn, "pfin": self.peer.fin, "psent": self.peer.sent,
            "palpn": self.peer.alpn(), "info": info, "share": share, "panic": panics.join("; "),
        })
    }
}


fn run_seq(seq: &Value, certs: &Certs) -> Value {
    let mut out = seq.clone();
    let ops_in: Vec<(String, usize)> = seq["ops"]
        .as_array()
        .map(|v| v.iter().map(|o| (o["op"].as_str().unwrap().to_string(), o["a"].as_u64().unwrap_or(0) as usize)).collect())
        .unwrap_or_default();
    let mut w = match build(seq, certs) {
        Ok(w) => w,
        Err(e) => {
            eprintln!("cannot build {}: {e}", seq["id"]);
            std::process::exit(3);
        }
    };
    let mut recs = Vec::new();
    let mut faulty = false; // a fault was injected or an entry point failed: no end-to-end equality is demanded
    for (op, a) in &ops_in {
        let r = w.step(op, *a);
        if (matches!(op.as_str(), "PDrop" | "PReset" | "Garbage" | "PClose" | "Shutdown") && r["res"] != "Skip") || r["res"] == "Err" || r["res"] == "Panic" {
            faulty = true;
        }
        recs.push(r);
    }
    let nin = recs.len();
    // drain (only when nothing was injected): release the transport, finish the handshake, flush, let the peer
    // read, read everything the peer has sent
    let cert_ok = seq["cfg"]["cert"].as_str().unwrap_or("ok") == "ok";
    let mut drained = false;
    if !faulty && cert_ok && !matches!(w.sut, Sut::Gone) {
        recs.push(w.step("WUnblock", 0));
        for _ in 0..6 {
            recs.push(w.step("Pump", 0));
            let r = w.step("Fin", 0);
            let done = r["res"] != "Pending";
            recs.push(r);
            if done {
                break;
            }
        }
        recs.push(w.step("Flush", 0));
        recs.push(w.step("Pump", 0));
        for _ in 0..60 {
            let r = w.step("Read", 8);
            let stop = r["res"] != "Ok" || r["n"] == 0;
            recs.push(r);
            if stop {
                break;
            }
        }
        drained = true;
    }
    out["ops"] = Value::Array(recs);
    out["nin"] = json!(nin);
    out["drained"] = json!(drained);
    out["sni"] = json!(w.sni);
    out
}

// ------------------------------------------------------------------------------------------------
// seeded random walks over the really enabled actions, longer than the model bounds
fn walk(rng: &mut StdRng, idx: usize, maxlen: usize) -> Value {
    let stacks = ["S_TLS", "S_STREAM", "C_TLS", "C_STREAM", "C_TRANSPORT"];
    let stack = stacks[idx % stacks.len()];
    let side = if stack.starts_with('S') { "server" } else { "client" };
    let profile = ["happy", "happy", "faulty", "stall", "backpressure"][(idx / stacks.len()) % 5];
    let cert = if profile == "faulty" && rng.gen_bool(0.3) { "bad" } else { "ok" };
    let sni = if rng.gen_bool(0.8) { ["a.verif.test", "b.verif.test", "verif.test"][rng.gen_range(0..3)] } else { "" };
    let alpn = ["h2", "h1", "none"][rng.gen_range(0..3)];
    let len = rng.gen_range(10..=maxlen.max(10));
    let mut ops: Vec<Value> = Vec::new();
    let (mut wr, mut ps) = (0usize, 0usize);
    let mut pumps = 0;
    while ops.len() < len {
        let x = rng.gen_range(0..100);
        let (op, a): (&str, usize) = match profile {
            "stall" if pumps == 0 && ops.len() < len / 2 => match x {
                0..=24 => ("Read", rng.gen_range(0..4)),
                25..=44 => ("Write", rng.gen_range(0..4)),
                45..=59 => ("Fin", rng.gen_range(0..2)),
                60..=69 => ("Flush", 0),
                70..=79 => ("Recv", 0),
                80..=89 => ("Shutdown", 0),
                90..=94 => ("WBlock", 0),
                _ => ("WUnblock", 0),
            },
            _ => match x {
                0..=21 => ("Pump", 0),
                22..=36 => ("Read", [0, 1, 2, 3, 8][rng.gen_range(0..5)]),
                37..=51 => ("Write", rng.gen_range(0..5)),
                52..=59 => ("Fin", rng.gen_range(0..2)),
                60..=67 => ("Flush", 0),
                68..=79 => ("PSend", rng.gen_range(1..5)),
                80..=84 => ("Recv", 0),
                85..=86 => ("Shutdown", 0),
                87..=88 => ("PClose", 0),
                89..=92 => if profile == "backpressure" || rng.gen_bool(0.3) { ("WBlock", 0) } else { ("Pump", 0) },
                93..=96 => ("WUnblock", 0),
                97 => if profile == "faulty" { ("Garbage", 0) } else { ("Pump", 0) },
                98 => if profile == "faulty" { ("PDrop", 0) } else { ("Read", 2) },
                _ => if profile == "faulty" { ("PReset", 0) } else { ("Fin", 0) },
            },
        };
        if op == "Write" {
            if wr + a > MAXNUM - 10 {
                continue;
            }
            wr += a;
        }
        if op == "PSend" {
            // the peer can only send once ITS handshake is over: decided at run time (see `enabled`), here only bounded
            if ps + a > MAXNUM - 10 {
                continue;
            }
            ps += a;
        }
        if op == "Pump" {
            pumps += 1;
        }
        ops.push(json!({"op": op, "a": a}));
    }
    json!({"id": format!("w{idx}"), "name": format!("w{idx}-{profile}"), "src": "walk", "side": side, "stack": stack,
           "cfg": {"cert": cert, "sni": sni, "alpn": alpn}, "ops": ops})
}

fn main() {
    let args: Vec<String> = std::env::args().collect();
    if args.len() < 4 || args[1] != "run" {
        eprintln!("usage: tlsstream run <in.ndjson|-> <out.ndjson> --certs DIR [--seed N] [--rand N] [--maxlen L]");
        std::process::exit(2);
    }
    let mut seed = 1u64;
    let mut nrand = 0usize;
    let mut maxlen = 30usize;
    let mut certdir = String::new();
    let mut i = 4;
    while i < args.len() {
        match args[i].as_str() {
            "--seed" => {
                seed = args[i + 1].parse().unwrap();
                i += 2;
            }
            "--rand" => {
                nrand = args[i + 1].parse().unwrap();
                i += 2;
            }
            "--maxlen" => {
                maxlen = args[i + 1].parse().unwrap();
                i += 2;
            }
            "--certs" => {
                certdir = args[i + 1].clone();
                i += 2;
            }
            _ => i += 1,
        }
    }
    if certdir.is_empty() {
        eprintln!("--certs DIR is required");
        std::process::exit(2);
    }
    install_crypto();
    install_panic_hook();
    let certs = Certs { dir: certdir };
    let mut seqs: Vec<Value> = Vec::new();
    if args[2] != "-" {
        let text = std::fs::read_to_string(&args[2]).expect("read input");
        for line in text.lines().filter(|l| !l.trim().is_empty()) {
            seqs.push(serde_json::from_str(line).expect("input line"));
        }
    }
    let mut rng = StdRng::seed_from_u64(seed.wrapping_mul(0x9E37_79B9).wrapping_add(17));
    for k in 0..nrand {
        seqs.push(walk(&mut rng, k, maxlen));
    }
    let mut out = std::io::BufWriter::new(std::fs::File::create(&args[3]).expect("create output"));
    let (mut nops, mut npanic) = (0usize, 0usize);
    for s in &seqs {
        let r = run_seq(s, &certs);
        nops += r["ops"].as_array().map(|a| a.len()).unwrap_or(0);
        npanic += r["ops"].as_array().map(|a| a.iter().filter(|o| o["res"] == "Panic").count()).unwrap_or(0);
        writeln!(out, "{}", serde_json::to_string(&r).unwrap()).unwrap();
    }
    out.flush().unwrap();
    println!("{}", json!({"sequences": seqs.len(), "ops": nops, "panics": npanic}));
}

