//! C08 driver: protocol sniffing (`ReadVersion`) + `Rewind` on the auto-detecting server.
//!
//! Input (stdin): JSON lines generated from TLC output (spec/Sniff_gen*.cfg):
//!   {"t":"cuts","L":32,"masks":[..]}        cut sets over a window of L bytes (bit i-1 = cut after byte i)
//!   {"t":"conn","sid":..,"m":..,"kind":..,"len":..,"eof":..,"entry":"builder|protocol|server",
//!        "K":4,"pend":[0,1,..],"ones":true}  family: stream class x all cut sets of cuts[L] with <=K cuts x pend modes
//!   {"t":"connx", <stream fields>, "entry":..,"chunks":[..],"pendmask":n[,"cancel":k]}   one explicit vector
//!   {"t":"rewind","p":..,"len":..,"K":2,"caps":[[..],..]}   family for the direct Rewind driver
//!   {"t":"rewindx","p":..,"len":..,"chunks":[..],"caps":[..]}
//! Output (--out): ndjson observations. Vectors with identical (stream class, entry, observation) are
//! emitted as ONE record with the multiplicity `n` and a summary of their chunkings (the C08 formulas do
//! not read the chunking), plus a seeded sample of raw per-vector records (`"g":0`).
//! Nothing in here decides anything: SniffObs.tla evaluates the property formulas.

use std::collections::{BTreeMap, HashMap, VecDeque};
use std::future::Future;
use std::io::{BufRead, Write as _};
use std::pin::Pin;
use std::sync::atomic::{AtomicBool, AtomicUsize, Ordering};
use std::sync::{Arc, Mutex};
use std::task::{Context, Poll, Waker};
use std::time::Duration;

use bytes::Bytes;
use futures_util::FutureExt;
use http_body_util::{BodyExt, Full};
use hyperdriver::bridge::rt::TokioExecutor;
use hyperdriver::server::conn::auto;
use hyperdriver::server::Protocol;
use serde_json::{json, Value};

const PREFACE: &[u8; 24] = b"PRI * HTTP/2.0\r\n\r\nSM\r\n\r\n";
const WINDOW: usize = 32;
const SPIN_EOF_READS: usize = 1000; // reads after end-of-stream before the in-band brake reports a spin
const SPIN_CALLS: usize = 1_000_000; // IO calls of one vector before the brake panics
const REAL_BUDGET: Duration = Duration::from_secs(5); // real-time watchdog per vector (backstop)
const STALLS_PER_CLASS: u32 = 3; // after that many watchdog stalls the class's remaining vectors are skipped
const MAX_LEAKED: usize = 12; // abandoned (still spinning) threads; after that everything left is skipped

// ------------------------------------------------------------------------------------------------
// concrete byte streams for a stream class (m, kind)

fn h2_frame(ty: u8, flags: u8, stream: u32, payload: &[u8]) -> Vec<u8> {
    let mut v = Vec::with_capacity(9 + payload.len());
    let l = payload.len() as u32;
    v.extend_from_slice(&[(l >> 16) as u8, (l >> 8) as u8, l as u8, ty, flags]);
    v.extend_from_slice(&stream.to_be_bytes());
    v.extend_from_slice(payload);
    v
}

fn hpack_lit(name_idx: u8, value: &[u8]) -> Vec<u8> {
    // literal header field without indexing, indexed name (4-bit prefix), raw string value
    let mut v = vec![name_idx & 0x0f, value.len() as u8];
    v.extend_from_slice(value);
    v
}

/// The full (longer than 32 bytes) stream of class (m, kind). `m` is the length of the longest common
/// prefix with the HTTP/2 preface; the harness re-measures it on the bytes.
fn full_stream(m: usize, kind: &str) -> Result<Vec<u8>, String> {
    let mut s = Vec::new();
    match (kind, m) {
        ("get", 0) => s.extend_from_slice(b"GET /get HTTP/1.1\r\nhost: a.test\r\n\r\n"),
        ("post", 1) => s.extend_from_slice(
            b"POST /echo HTTP/1.1\r\nhost: a.test\r\ncontent-length: 11\r\n\r\nhello world",
        ),
        ("pri11", 11) => s.extend_from_slice(b"PRI * HTTP/1.1\r\nhost: a.test\r\ncontent-length: 2\r\n\r\nok"),
        ("div", m) if m < 24 => {
            // the first m preface bytes, then bytes that diverge at position m ('X' is not in the preface):
            // m=0 "X / HTTP/1.1", m=1 "PX / ..", m=2 "PRX / ..", m=3 "PRIX / ..": valid requests;
            // larger m: malformed request lines; m>=18: a "PRI * HTTP/2.0" request line + junk.
            s.extend_from_slice(&PREFACE[..m]);
            s.extend_from_slice(b"X / HTTP/1.1\r\nhost: a.test\r\ncontent-length: 3\r\n\r\nabc");
        }
        ("h2post", 24) => {
            s.extend_from_slice(PREFACE);
            s.extend(h2_frame(4, 0, 0, &[])); // SETTINGS
            let mut hb = vec![0x83u8, 0x86]; // :method POST, :scheme http
            hb.extend(hpack_lit(4, b"/echo")); // :path
            hb.extend(hpack_lit(1, b"a.test")); // :authority
            s.extend(h2_frame(1, 0x4, 1, &hb)); // HEADERS end_headers
            s.extend(h2_frame(0, 0x1, 1, b"hello h2 body")); // DATA end_stream
        }
        ("h2get", 24) => {
            s.extend_from_slice(PREFACE);
            s.extend(h2_frame(4, 0, 0, &[]));
            let mut hb = vec![0x82u8, 0x86, 0x84]; // GET http /
            hb.extend(hpack_lit(1, b"a.test"));
            s.extend(h2_frame(1, 0x5, 1, &hb)); // end_headers | end_stream
        }
        ("h2junk", 24) => {
            s.extend_from_slice(PREFACE);
            s.extend_from_slice(b"GET / HTTP/1.1\r\nhost: a.test\r\n\r\n");
        }
        _ => return Err(format!("unknown stream class m={m} kind={kind}")),
    }
    Ok(s)
}

fn lcp(b: &[u8]) -> usize {
    b.iter().zip(PREFACE.iter()).take_while(|(a, b)| a == b).count()
}

#[derive(Clone, Debug)]
struct StreamClass {
    sid: i64,
    m: usize,
    kind: String,
    len: usize,
    eof: bool,
    bytes: Arc<Vec<u8>>, // what the client sends in total
}

impl StreamClass {
    fn from_json(v: &Value) -> Result<Self, String> {
        let m = v["m"].as_u64().ok_or("m")? as usize;
        let kind = v["kind"].as_str().ok_or("kind")?.to_string();
        let len = v["len"].as_u64().ok_or("len")? as usize;
        let eof = v["eof"].as_bool().ok_or("eof")?;
        let full = full_stream(m, &kind)?;
        if full.len() <= WINDOW {
            return Err("full stream too short".into());
        }
        let bytes = if eof {
            if len > WINDOW || len < m {
                return Err(format!("bad len {len} for m={m}"));
            }
            full[..len].to_vec()
        } else {
            if len != WINDOW {
                return Err("continuing streams have len = window".into());
            }
            full
        };
        if lcp(&bytes) != m {
            return Err(format!("stream class m={m} kind={kind} len={len}: bytes have lcp {}", lcp(&bytes)));
        }
        Ok(StreamClass { sid: v["sid"].as_i64().unwrap_or(0), m, kind, len, eof, bytes: Arc::new(bytes) })
    }
    fn window(&self) -> usize {
        if self.eof { self.len } else { WINDOW }
    }
    fn head(&self) -> Vec<u8> {
        self.bytes[..self.bytes.len().min(24)].to_vec()
    }
}

// ------------------------------------------------------------------------------------------------
// scripted IO: delivers exactly the scripted chunks, with optional Pending (self-waking) between them

#[derive(Debug, Clone)]
enum Item {
    Chunk(usize, usize), // range into the stream bytes
    Pend,
    Eof,
    Hold, // the client pauses here until the driver releases it (cancel vectors)
}

#[derive(Default)]
struct Script {
    eof_reads: usize, // reads answered after the end of the stream was already delivered
    calls: usize,     // every IO call
    spun: bool,       // the code under test spins on the IO (see `brake`)
    data: Arc<Vec<u8>>,
    items: VecDeque<Item>,
    eof: bool,
    waker: Option<Waker>,
    out: Vec<u8>,
    pend: Vec<u8>,        // written but not flushed yet: the stream is write-buffering (like a BufWriter or a TLS session under
                          // back-pressure): the peer sees written bytes only once they were flushed or the stream was shut down
    caps: Vec<usize>,     // capacity offered by the reader at each poll_read (first 12)
    got: Vec<usize>,      // bytes delivered at each poll_read (first 12); 999 = Pending
    reads: usize,
    consumed: usize,
    shutdown: bool,
}

#[derive(Clone)]
struct ScriptIo(Arc<Mutex<Script>>);

impl ScriptIo {
    fn new(data: Arc<Vec<u8>>, items: Vec<Item>) -> Self {
        ScriptIo(Arc::new(Mutex::new(Script { data, items: items.into(), ..Default::default() })))
    }
    /// Core read: copies at most `cap` bytes into `put`.
    fn read_with(&self, cx: &mut Context<'_>, cap: usize, put: &mut dyn FnMut(&[u8])) -> Poll<std::io::Result<()>> {
        self.brake();
        let mut s = self.0.lock().unwrap();
        s.reads += 1;
        let log = s.caps.len() < 12;
        if log {
            s.caps.push(cap);
        }
        if s.eof {
            if log {
                s.got.push(0);
            }
            s.eof_reads += 1;
            if s.eof_reads > SPIN_EOF_READS {
                // the reader keeps reading after the end of the stream without ever yielding: it spins.
                // The run is recorded as `stalled-spinning`; the error only gets the thread back.
                s.spun = true;
                return Poll::Ready(Err(std::io::Error::new(std::io::ErrorKind::Other, "verif: spinning on reads after the end of the stream")));
            }
            return Poll::Ready(Ok(()));
        }
        match s.items.front().cloned() {
            None => {
                s.waker = Some(cx.waker().clone());
                if log {
                    s.got.push(999);
                }
                Poll::Pending
            }
            Some(Item::Hold) => {
                s.waker = Some(cx.waker().clone());
                if log {
                    s.got.push(999);
                }
                Poll::Pending
            }
            Some(Item::Pend) => {
                s.items.pop_front();
                cx.waker().wake_by_ref();
                if log {
                    s.got.push(999);
                }
                Poll::Pending
            }
            Some(Item::Eof) => {
                s.items.pop_front();
                s.eof = true;
                if log {
                    s.got.push(0);
                }
                Poll::Ready(Ok(()))
            }
            Some(Item::Chunk(a, b)) => {
                let n = (b - a).min(cap);
                let data = s.data.clone();
                put(&data[a..a + n]);
                s.consumed += n;
                if a + n == b {
                    s.items.pop_front();
                } else {
                    s.items[0] = Item::Chunk(a + n, b);
                }
                if log {
                    s.got.push(n);
                }
                Poll::Ready(Ok(()))
            }
        }
    }
    /// In-band brake against busy loops in the code under test that go through the IO (a loop that never
    /// returns Pending never lets the paused clock advance, so no virtual-time guard can fire): a vector
    /// normally makes < 100 IO calls; after SPIN_CALLS the run is marked `stalled-spinning` and the call
    /// panics (caught by run_conn) to get the thread back.
    fn brake(&self) {
        let mut s = self.0.lock().unwrap_or_else(|e| e.into_inner());
        s.calls += 1;
        if s.calls > SPIN_CALLS {
            s.spun = true;
            drop(s);
            panic!("verif: the code under test spins on the scripted IO");
        }
    }
    /// true if the script is parked at a Hold marker; releases it.
    fn release_hold(&self) -> bool {
        let mut s = self.0.lock().unwrap();
        if matches!(s.items.front(), Some(Item::Hold)) {
            s.items.pop_front();
            if let Some(w) = s.waker.take() {
                w.wake();
            }
            true
        } else {
            false
        }
    }
    fn push_eof(&self) {
        let mut s = self.0.lock().unwrap();
        s.items.push_back(Item::Eof);
        if let Some(w) = s.waker.take() {
            w.wake();
        }
    }
}

impl hyper::rt::Read for ScriptIo {
    fn poll_read(self: Pin<&mut Self>, cx: &mut Context<'_>, mut buf: hyper::rt::ReadBufCursor<'_>) -> Poll<std::io::Result<()>> {
        let cap = buf.remaining();
        self.read_with(cx, cap, &mut |b| buf.put_slice(b))
    }
}
impl hyper::rt::Write for ScriptIo {
    fn poll_write(self: Pin<&mut Self>, _cx: &mut Context<'_>, buf: &[u8]) -> Poll<std::io::Result<usize>> {
        self.brake();
        self.0.lock().unwrap().pend.extend_from_slice(buf);
        Poll::Ready(Ok(buf.len()))
    }
    fn poll_flush(self: Pin<&mut Self>, _cx: &mut Context<'_>) -> Poll<std::io::Result<()>> {
        self.brake();
        let mut s = self.0.lock().unwrap();
        let p = std::mem::take(&mut s.pend);
        s.out.extend_from_slice(&p);
        Poll::Ready(Ok(()))
    }
    fn poll_shutdown(self: Pin<&mut Self>, _cx: &mut Context<'_>) -> Poll<std::io::Result<()>> {
        self.brake();
        let mut s = self.0.lock().unwrap();
        let p = std::mem::take(&mut s.pend);
        s.out.extend_from_slice(&p);
        s.shutdown = true;
        Poll::Ready(Ok(()))
    }
}
impl tokio::io::AsyncRead for ScriptIo {
    fn poll_read(self: Pin<&mut Self>, cx: &mut Context<'_>, buf: &mut tokio::io::ReadBuf<'_>) -> Poll<std::io::Result<()>> {
        let cap = buf.remaining();
        self.read_with(cx, cap, &mut |b| buf.put_slice(b))
    }
}
impl tokio::io::AsyncWrite for ScriptIo {
    fn poll_write(self: Pin<&mut Self>, _cx: &mut Context<'_>, buf: &[u8]) -> Poll<std::io::Result<usize>> {
        self.brake();
        self.0.lock().unwrap().pend.extend_from_slice(buf);
        Poll::Ready(Ok(buf.len()))
    }
    fn poll_flush(self: Pin<&mut Self>, _cx: &mut Context<'_>) -> Poll<std::io::Result<()>> {
        self.brake();
        let mut s = self.0.lock().unwrap();
        let p = std::mem::take(&mut s.pend);
        s.out.extend_from_slice(&p);
        Poll::Ready(Ok(()))
    }
    fn poll_shutdown(self: Pin<&mut Self>, _cx: &mut Context<'_>) -> Poll<std::io::Result<()>> {
        self.brake();
        let mut s = self.0.lock().unwrap();
        let p = std::mem::take(&mut s.pend);
        s.out.extend_from_slice(&p);
        s.shutdown = true;
        Poll::Ready(Ok(()))
    }
}
impl hyperdriver::info::HasConnectionInfo for ScriptIo {
    type Addr = hyperdriver::stream::duplex::DuplexAddr;
    fn info(&self) -> hyperdriver::info::ConnectionInfo<Self::Addr> {
        hyperdriver::info::ConnectionInfo {
            local_addr: hyperdriver::stream::duplex::DuplexAddr::new(),
            remote_addr: hyperdriver::stream::duplex::DuplexAddr::new(),
        }
    }
}

// ------------------------------------------------------------------------------------------------
// the service handler: records what it saw, echoes it

#[derive(Clone, Default)]
struct Log(Arc<Mutex<Vec<String>>>);

fn esc(b: &[u8]) -> String {
    let mut s = String::with_capacity(b.len());
    for &c in b {
        if (0x20..0x7f).contains(&c) && c != b'\\' && c != b'"' {
            s.push(c as char);
        } else {
            s.push_str(&format!("\\x{c:02x}"));
        }
    }
    s
}

async fn handle<B>(req: http::Request<B>, log: Log) -> Result<http::Response<Full<Bytes>>, std::convert::Infallible>
where
    B: http_body::Body,
{
    let (parts, body) = req.into_parts();
    let hdrs: Vec<String> = parts.headers.iter().map(|(k, v)| format!("{}={}", k, esc(v.as_bytes()))).collect();
    let head = format!("{} {} {:?} [{}]", parts.method, parts.uri, parts.version, hdrs.join(","));
    let idx = {
        let mut l = log.0.lock().unwrap();
        l.push(format!("{head} <body-pending>"));
        l.len() - 1
    };
    let body_s = match body.collect().await {
        Ok(c) => esc(&c.to_bytes()),
        Err(_) => "<body-error>".to_string(),
    };
    let seen = format!("{head} body={body_s}");
    log.0.lock().unwrap()[idx] = seen.clone();
    Ok(http::Response::builder().status(200).header("x-echo", "1").body(Full::new(Bytes::from(seen))).unwrap())
}

// ------------------------------------------------------------------------------------------------
// one run through a server connection

#[derive(Clone, Copy, Debug, PartialEq, Eq, Hash, PartialOrd, Ord)]
enum Entry {
    Builder,  // auto::Builder::serve_connection_with_upgrades (inherent, hyper::rt IO)
    Protocol, // <auto::Builder as server::Protocol>::serve_connection_with_upgrades (Connecting + TokioIo)
    Server,   // hyperdriver::Server with_auto_http over a scripted acceptor
    PlainH1,
    PlainH2,
}
impl Entry {
    fn parse(s: &str) -> Result<Self, String> {
        Ok(match s {
            "builder" => Entry::Builder,
            "protocol" => Entry::Protocol,
            "server" => Entry::Server,
            "plain1" => Entry::PlainH1,
            "plain2" => Entry::PlainH2,
            _ => return Err(format!("entry {s}")),
        })
    }
    fn name(self) -> &'static str {
        match self {
            Entry::Builder => "builder",
            Entry::Protocol => "protocol",
            Entry::Server => "server",
            Entry::PlainH1 => "plain1",
            Entry::PlainH2 => "plain2",
        }
    }
}

#[derive(Clone, Debug, Default, PartialEq, Eq, Hash)]
struct Obs {
    proto: String, // "h2" | "h1" | "none" | "other"
    saw: String,   // what the service handler saw (requests joined by |)
    ans: String,   // digest of every byte the client received
    human: String, // short rendering of the answer
    res: String,   // how the connection future ended
    stalled: bool,
    panicked: bool,
    caps: Vec<usize>,
    got: Vec<usize>,
    consumed: usize,
}

fn fnv(b: &[u8]) -> u64 {
    let mut h: u64 = 0xcbf29ce484222325;
    for &c in b {
        h ^= c as u64;
        h = h.wrapping_mul(0x100000001b3);
    }
    h
}

fn classify(out: &[u8]) -> (String, String) {
    if out.is_empty() {
        return ("none".into(), "".into());
    }
    if out.starts_with(b"HTTP/1.") {
        let line = out.split(|&c| c == b'\r').next().unwrap_or(b"");
        return ("h1".into(), esc(line));
    }
    if out.len() >= 9 && out[3] == 4 && out[5..9] == [0, 0, 0, 0] {
        // an HTTP/2 SETTINGS frame on stream 0: list the frame types that follow
        let mut i = 0;
        let mut frames = Vec::new();
        while i + 9 <= out.len() {
            let l = ((out[i] as usize) << 16) | ((out[i + 1] as usize) << 8) | out[i + 2] as usize;
            frames.push(format!("{}.{}", out[i + 3], out[i + 4]));
            i += 9 + l;
        }
        return ("h2".into(), frames.join(","));
    }
    ("other".into(), esc(&out[..out.len().min(24)]))
}

/// The client-visible answer in canonical form. HTTP/1: the bytes. HTTP/2: hyper's connection-level
/// frames (SETTINGS ack, WINDOW_UPDATE on stream 0) are emitted in an order that depends on when the
/// client's frames arrive, so stream-0 frames are compared as a multiset and every other stream's frames
/// in order.
fn canonical(out: &[u8]) -> Vec<u8> {
    if !(out.len() >= 9 && out[3] == 4 && out[5..9] == [0, 0, 0, 0]) {
        return out.to_vec();
    }
    let mut zero: Vec<&[u8]> = Vec::new();
    let mut rest: BTreeMap<u32, Vec<u8>> = BTreeMap::new();
    let mut i = 0;
    while i + 9 <= out.len() {
        let l = ((out[i] as usize) << 16) | ((out[i + 1] as usize) << 8) | out[i + 2] as usize;
        let end = (i + 9 + l).min(out.len());
        let sid = u32::from_be_bytes([out[i + 5], out[i + 6], out[i + 7], out[i + 8]]) & 0x7fff_ffff;
        if sid == 0 {
            zero.push(&out[i..end]);
        } else {
            rest.entry(sid).or_default().extend_from_slice(&out[i..end]);
        }
        i = end;
    }
    let tail = &out[i.min(out.len())..];
    zero.sort();
    let mut c = Vec::with_capacity(out.len());
    for z in zero {
        c.extend_from_slice(z);
    }
    for (_, v) in rest {
        c.extend_from_slice(&v);
    }
    c.extend_from_slice(tail);
    c
}

type ConnRes = Result<(), String>;

/// Drives `conn` against the script: run to quiescence (at a Hold marker: optionally request graceful
/// shutdown, release, run on), then close the client's sending side, run to completion. Virtual time only.
async fn drive<F>(conn: F, io: &ScriptIo, cancel_at_hold: bool, cancel: impl Fn(Pin<&mut F>)) -> (ConnRes, bool)
where
    F: Future<Output = ConnRes>,
{
    tokio::pin!(conn);
    // sleep(1ms) on the paused clock fires only when every task is idle
    for _ in 0..8 {
        let done = tokio::select! {
            biased;
            r = &mut conn => Some(r),
            _ = tokio::time::sleep(Duration::from_millis(1)) => None,
        };
        if let Some(r) = done {
            return (r, false);
        }
        let held = matches!(io.0.lock().unwrap().items.front(), Some(Item::Hold));
        if !held {
            break;
        }
        if cancel_at_hold {
            cancel(conn.as_mut());
        }
        io.release_hold();
    }
    io.push_eof();
    tokio::select! {
        biased;
        r = &mut conn => (r, false),
        _ = tokio::time::sleep(Duration::from_secs(30)) => (Err("stalled".into()), true),
    }
}

macro_rules! svc_hyper {
    ($log:expr) => {{
        let log: Log = $log;
        hyper::service::service_fn(move |req: http::Request<hyper::body::Incoming>| handle(req, log.clone()))
    }};
}

async fn run_entry(entry: Entry, io: ScriptIo, log: Log, cancel: bool) -> (ConnRes, bool) {
    use hyperdriver::server::conn::Connection as _;
    match entry {
        Entry::Builder => {
            let mut b = auto::Builder::new(TokioExecutor::new());
            b.http1().auto_date_header(false);
            b.http2().auto_date_header(false);
            let conn = b.serve_connection_with_upgrades(io.clone(), svc_hyper!(log));
            let conn = Cancellable { inner: Box::pin(conn) };
            drive(conn, &io, cancel, |c| c.get_mut().inner.as_mut().graceful_shutdown()).await
        }
        Entry::Server => run_server(io, log).await,
        Entry::Protocol => {
            let mut b = auto::Builder::new(TokioExecutor::new());
            b.http1().auto_date_header(false);
            b.http2().auto_date_header(false);
            let svc = tower::service_fn(move |req: http::Request<hyperdriver::Body>| handle(req, log.clone()));
            let conn = Protocol::<_, ScriptIo, hyperdriver::Body>::serve_connection_with_upgrades(&b, io.clone(), svc);
            let conn = Cancellable { inner: Box::pin(conn) };
            drive(conn, &io, cancel, |c| c.get_mut().inner.as_mut().graceful_shutdown()).await
        }
        Entry::PlainH1 => {
            let mut b = hyper::server::conn::http1::Builder::new();
            b.auto_date_header(false);
            let conn = b.serve_connection(io.clone(), svc_hyper!(log)).with_upgrades();
            drive(conn.map(|r| r.map_err(|e| e.to_string())), &io, false, |_| {}).await
        }
        Entry::PlainH2 => {
            let mut b = hyper::server::conn::http2::Builder::new(TokioExecutor::new());
            b.auto_date_header(false);
            let conn = b.serve_connection(io.clone(), svc_hyper!(log));
            drive(conn.map(|r| r.map_err(|e| e.to_string())), &io, false, |_| {}).await
        }
    }
}

/// The real `hyperdriver::Server` (accept loop, make-service, executor, connection driver) with the auto
/// protocol, fed by an acceptor that yields the scripted connection once.
struct OneShotAcceptor(Option<ScriptIo>);
impl hyperdriver::server::conn::Accept for OneShotAcceptor {
    type Conn = ScriptIo;
    type Error = std::io::Error;
    fn poll_accept(mut self: Pin<&mut Self>, _cx: &mut Context<'_>) -> Poll<Result<ScriptIo, std::io::Error>> {
        match self.0.take() {
            Some(io) => Poll::Ready(Ok(io)),
            None => Poll::Pending,
        }
    }
}

async fn run_server(io: ScriptIo, log: Log) -> (ConnRes, bool) {
    let mut b = auto::Builder::new(TokioExecutor::new());
    b.http1().auto_date_header(false);
    b.http2().auto_date_header(false);
    let svc = tower::service_fn(move |req: http::Request<hyperdriver::Body>| handle(req, log.clone()));
    let server = hyperdriver::Server::builder::<hyperdriver::Body>()
        .with_acceptor(OneShotAcceptor(Some(io.clone())))
        .with_protocol(b)
        .with_shared_service(svc)
        .with_tokio();
    let serving = std::future::IntoFuture::into_future(server);
    tokio::pin!(serving);
    for phase in 0..2 {
        let r = tokio::select! {
            biased;
            r = serving.as_mut() => Some(r),
            _ = tokio::time::sleep(Duration::from_millis(1)) => None,
        };
        if let Some(r) = r {
            return (Err(format!("server returned: {:?}", r.map_err(|e| e.to_string()))), false);
        }
        if phase == 0 {
            io.push_eof();
        }
    }
    // the connection task owns the other handle of the scripted IO until it finishes
    let alive = Arc::strong_count(&io.0) > 2;
    if alive {
        (Err("stalled".into()), true)
    } else {
        (Ok(()), false)
    }
}

/// Adapter: a connection future with string errors that still exposes graceful_shutdown.
struct Cancellable<C> {
    inner: Pin<Box<C>>,
}
impl<C, E> Future for Cancellable<C>
where
    C: Future<Output = Result<(), E>>,
    E: std::fmt::Display,
{
    type Output = ConnRes;
    fn poll(mut self: Pin<&mut Self>, cx: &mut Context<'_>) -> Poll<ConnRes> {
        self.inner.as_mut().poll(cx).map(|r| r.map_err(|e| e.to_string()))
    }
}

/// Observation of a run that never answered nor closed because the code under test busy-loops.
fn spinning_obs(how: &str) -> Obs {
    Obs {
        proto: "stalled-spinning".into(),
        ans: "stalled-spinning".into(),
        res: format!("err:stalled-spinning ({how})"),
        stalled: true,
        ..Default::default()
    }
}

/// Runs `f` on its own thread with a REAL-time budget. None: it did not finish (the thread is abandoned).
fn with_deadline<T: Send + 'static>(d: Duration, f: impl FnOnce() -> T + Send + 'static) -> Option<T> {
    let (tx, rx) = std::sync::mpsc::channel();
    std::thread::spawn(move || {
        let _ = tx.send(f());
    });
    rx.recv_timeout(d).ok()
}

async fn run_conn(entry: Entry, data: Arc<Vec<u8>>, items: Vec<Item>, cancel: bool) -> Obs {
    let io = ScriptIo::new(data, items);
    let log = Log::default();
    let fut = std::panic::AssertUnwindSafe(run_entry(entry, io.clone(), log.clone(), cancel)).catch_unwind();
    let (res, stalled, panicked) = match fut.await {
        Ok((r, st)) => (r, st, false),
        Err(_) => (Err("panicked".to_string()), false, true),
    };
    // let detached tasks (h2 stream tasks) finish
    tokio::time::sleep(Duration::from_millis(1)).await;
    let s = io.0.lock().unwrap_or_else(|e| e.into_inner());
    let (proto, human) = classify(&s.out);
    let saw = log.0.lock().unwrap_or_else(|e| e.into_inner()).join("|");
    if s.spun {
        // the connection neither answered nor closed: it was busy-looping on the IO when the brake stopped it
        return Obs { saw, human, caps: s.caps.clone(), got: s.got.clone(), consumed: s.consumed, ..spinning_obs("in-band brake") };
    }
    Obs {
        proto: if stalled { "stalled".into() } else { proto },
        saw,
        ans: format!("{:016x}:{}", fnv(&canonical(&s.out)), s.out.len()),
        human,
        res: match res {
            Ok(()) => "ok".into(),
            Err(e) => format!("err:{e}"),
        },
        stalled,
        panicked,
        caps: s.caps.clone(),
        got: s.got.clone(),
        consumed: s.consumed,
    }
}

// ------------------------------------------------------------------------------------------------
// vectors

fn chunks_from_mask(mask: u32, w: usize) -> Vec<usize> {
    let mut v = Vec::new();
    let mut last = 0;
    for i in 1..w {
        if mask & (1 << (i - 1)) != 0 {
            v.push(i - last);
            last = i;
        }
    }
    if w > last {
        v.push(w - last);
    }
    v
}

/// Pending placement modes (the model lets the environment put Pending anywhere; these are the
/// placements replayed): bit i of the result = Pending before read item i.
fn pend_mask(mode: u64, nitems: usize) -> u64 {
    let all = if nitems >= 63 { u64::MAX } else { (1u64 << nitems) - 1 };
    match mode {
        0 => 0,
        1 => all,
        2 => 1,
        3 => 2 & all,
        4 => 0x5555_5555_5555_5555 & all,
        5 => 0xAAAA_AAAA_AAAA_AAAA & all,
        6 => (1u64 << (nitems - 1)) & all, // before the last item (EOF / rest)
        _ => 0,
    }
}

/// items: the window chunks, then the rest of a continuing stream as one chunk, then EOF for eof streams.
fn build_items(sc: &StreamClass, chunks: &[usize], pendmask: u64) -> Vec<Item> {
    let mut items = Vec::with_capacity(chunks.len() * 2 + 2);
    let mut pos = 0;
    let mut i = 0;
    for &c in chunks {
        if pendmask & (1 << i) != 0 {
            items.push(Item::Pend);
        }
        items.push(Item::Chunk(pos, pos + c));
        pos += c;
        i += 1;
    }
    if !sc.eof {
        if pendmask & (1 << i) != 0 {
            items.push(Item::Pend);
        }
        items.push(Item::Chunk(pos, sc.bytes.len()));
    } else {
        if pendmask & (1 << i) != 0 {
            items.push(Item::Pend);
        }
        items.push(Item::Eof);
    }
    items
}

fn nitems(sc: &StreamClass, nchunks: usize) -> usize {
    let _ = sc;
    nchunks + 1
}

#[derive(Clone)]
struct Family {
    sc: StreamClass,
    entry: Entry,
    masks: Arc<Vec<u32>>, // already filtered to <= K cuts (plus the all-ones mask if requested)
    pend: Vec<u64>,
    base: usize, // global index of its first vector
}
impl Family {
    fn size(&self) -> usize {
        self.masks.len() * self.pend.len()
    }
}

struct Group {
    n: u64,
    nsplit: u64,  // members whose first chunk is shorter than 24 bytes
    fmin: usize,
    fmax: usize,
    cmin: usize, // min/max number of chunks
    cmax: usize,
    anypend: bool,
    ex: Vec<(usize, Vec<usize>, u64)>, // (global index, chunks, pendmask): the 3 smallest indices
}

#[derive(Clone, PartialEq, Eq, Hash, PartialOrd, Ord)]
struct GKey {
    fam: usize,
    proto: String,
    saw: String,
    ans: String,
}

fn add_group(groups: &mut BTreeMap<GKey, Group>, key: GKey, idx: usize, chunks: &[usize], pm: u64) {
    let first = chunks.first().copied().unwrap_or(0);
    let g = groups.entry(key).or_insert(Group { n: 0, nsplit: 0, fmin: usize::MAX, fmax: 0, cmin: usize::MAX, cmax: 0, anypend: false, ex: vec![] });
    g.n += 1;
    if first < 24 {
        g.nsplit += 1;
    }
    g.fmin = g.fmin.min(first);
    g.fmax = g.fmax.max(first);
    g.cmin = g.cmin.min(chunks.len());
    g.cmax = g.cmax.max(chunks.len());
    g.anypend |= pm != 0;
    g.ex.push((idx, chunks.to_vec(), pm));
    g.ex.sort();
    g.ex.truncate(3);
}

fn merge_groups(a: &mut BTreeMap<GKey, Group>, b: BTreeMap<GKey, Group>) {
    for (k, g) in b {
        match a.get_mut(&k) {
            None => {
                a.insert(k, g);
            }
            Some(x) => {
                x.n += g.n;
                x.nsplit += g.nsplit;
                x.fmin = x.fmin.min(g.fmin);
                x.fmax = x.fmax.max(g.fmax);
                x.cmin = x.cmin.min(g.cmin);
                x.cmax = x.cmax.max(g.cmax);
                x.anypend |= g.anypend;
                x.ex.extend(g.ex);
                x.ex.sort();
                x.ex.truncate(3);
            }
        }
    }
}

fn splitmix(mut x: u64) -> u64 {
    x = x.wrapping_add(0x9E3779B97F4A7C15);
    let mut z = x;
    z = (z ^ (z >> 30)).wrapping_mul(0xBF58476D1CE4E5B9);
    z = (z ^ (z >> 27)).wrapping_mul(0x94D049BB133111EB);
    z ^ (z >> 31)
}

fn conn_record(sc: &StreamClass, entry: Entry, o: &Obs, refo: &RefObs) -> Value {
    let refs = &refo.answers;
    let refo = &refo.unfrag;
    json!({
        "k": "conn", "sid": sc.sid, "kind": sc.kind, "entry": entry.name(),
        "head": sc.head(), "len": sc.len, "eof": sc.eof, "total": sc.bytes.len(),
        "proto": o.proto, "saw": o.saw, "sent": refo.saw, "ans": o.ans, "ref": refs,
        "human": o.human, "refhuman": refo.human, "refproto": refo.proto,
    })
}

/// The single-protocol reference for one stream class: the unfragmented run, and the set of answers
/// plain hyper gives to the same bytes over every chunking with <= 2 cuts and one byte at a time
/// (hyper's own answer to some malformed streams depends on the fragmentation).
#[derive(Clone, Debug)]
struct RefObs {
    unfrag: Obs,
    answers: Vec<String>,
}

// ------------------------------------------------------------------------------------------------
// direct Rewind driver (hyperdriver::verif::Rewind): caller buffer sizes are scripted too

fn run_rewind(p: usize, len: usize, chunks: &[usize], caps: &[usize]) -> (Vec<u8>, String) {
    // byte i (1-based) of the stream has value i; the first p bytes were consumed by the sniffer
    let data: Arc<Vec<u8>> = Arc::new((1..=len as u8).collect());
    let mut items = Vec::new();
    let mut pos = p;
    for &c in chunks {
        items.push(Item::Chunk(pos, pos + c));
        pos += c;
    }
    items.push(Item::Eof);
    let io = ScriptIo::new(data.clone(), items);
    let mut rw = hyperdriver::verif::Rewind::new(io, data[..p].to_vec());
    let waker = futures_util::task::noop_waker();
    let mut cx = Context::from_waker(&waker);
    let mut saw = Vec::new();
    let mut note = String::new();
    let r = std::panic::catch_unwind(std::panic::AssertUnwindSafe(|| {
        let mut i = 0;
        loop {
            if i > 200 {
                note = "no-eof".into();
                break;
            }
            let cap = caps[i % caps.len()];
            let mut store = vec![0u8; cap];
            let mut rb = hyper::rt::ReadBuf::new(&mut store);
            match hyper::rt::Read::poll_read(Pin::new(&mut rw), &mut cx, rb.unfilled()) {
                Poll::Ready(Ok(())) => {
                    let f = rb.filled();
                    if f.is_empty() {
                        break;
                    }
                    saw.extend_from_slice(f);
                }
                Poll::Ready(Err(e)) => {
                    note = format!("err:{e}");
                    break;
                }
                Poll::Pending => {
                    note = "pending".into();
                    break;
                }
            }
            i += 1;
        }
    }));
    if r.is_err() {
        note = "panicked".into();
    }
    (saw, note)
}

// ------------------------------------------------------------------------------------------------

/// Cut sets of a window of w bytes with at most k cuts: the cut sets of the 32-byte window that lie
/// inside 1..w-1, i.e. the printed masks below 2^(w-1) (see MC_Sniff.tla).
fn masks_for(cuts: &HashMap<usize, Arc<Vec<u32>>>, w: usize, k: u32) -> Vec<u32> {
    if w <= 1 {
        return vec![0];
    }
    let all = cuts.get(&WINDOW).unwrap_or_else(|| {
        eprintln!("no cut sets given (expected a cuts line for L={WINDOW})");
        std::process::exit(3)
    });
    let lim: u64 = 1u64 << (w - 1);
    let mut v: Vec<u32> = all.iter().copied().filter(|m| (*m as u64) < lim && m.count_ones() <= k).collect();
    v.sort();
    v
}

/// The scripted IO answers as the model writes them: chunk sizes, 1000 = Pending, 0 = end of stream.
fn io_script(items: &[Item]) -> Vec<usize> {
    items.iter().filter_map(|it| match it {
        Item::Chunk(a, b) => Some(b - a),
        Item::Pend => Some(1000),
        Item::Eof => Some(0),
        Item::Hold => None,
    }).collect()
}

struct Ctx {
    fams: Arc<Vec<Family>>,
    refs: Arc<Vec<RefObs>>,
    work: Vec<(usize, usize, usize)>,
    next: AtomicUsize,
    extras: Mutex<Vec<(usize, usize, usize, usize)>>, // re-queued: (family, first mask, end, first pend index of the first mask)
    skip_fam: Vec<AtomicBool>,
    skip_all: AtomicBool,
    seed: u64,
    thresh: u64,
    sample_all: bool,
}

#[derive(Default)]
struct WState {
    abandoned: bool,
    done: bool,
    cur: Option<(usize, usize, usize, usize)>, // the vector being executed: (family, mask index, pend index, block end)
    beat: u64,                                  // vectors finished
    groups: BTreeMap<GKey, Group>,
    raws: Vec<(usize, Value)>,
}

fn raw_record(f: &Family, refo: &RefObs, o: &Obs, idx: usize, chunks: &[usize], pmask: u64, script: &[usize]) -> Value {
    let mut r = conn_record(&f.sc, f.entry, o, refo);
    let m = r.as_object_mut().unwrap();
    m.insert("g".into(), json!(0));
    m.insert("n".into(), json!(1));
    m.insert("idx".into(), json!(idx));
    m.insert("chunks".into(), json!(chunks));
    m.insert("pendmask".into(), json!(pmask));
    m.insert("io".into(), json!(script));
    m.insert("caps".into(), json!(o.caps));
    m.insert("got".into(), json!(o.got));
    m.insert("res".into(), json!(o.res));
    m.insert("refres".into(), json!(refo.unfrag.res));
    r
}

/// One worker: its own paused current_thread runtime; results go to `st`, which the watchdog may take over.
fn worker(ctx: Arc<Ctx>, st: Arc<Mutex<WState>>) {
    let rt = new_rt();
    loop {
        let item = ctx.extras.lock().unwrap().pop().or_else(|| {
            let wi = ctx.next.fetch_add(1, Ordering::Relaxed);
            ctx.work.get(wi).map(|&(fi, a, b)| (fi, a, b, 0))
        });
        let Some((fi, a, b, pi0)) = item else { break };
        let f = &ctx.fams[fi];
        let refo = &ctx.refs[fi];
        let alive = rt.block_on(async {
            for mi in a..b {
                let chunks = chunks_from_mask(f.masks[mi], f.sc.window());
                for (pi, &pm) in f.pend.iter().enumerate() {
                    if mi == a && pi < pi0 {
                        continue;
                    }
                    let idx = f.base + mi * f.pend.len() + pi;
                    let pmask = pend_mask(pm, nitems(&f.sc, chunks.len()));
                    if ctx.skip_all.load(Ordering::Relaxed) || ctx.skip_fam[fi].load(Ordering::Relaxed) {
                        let mut s = st.lock().unwrap();
                        if s.abandoned {
                            return false;
                        }
                        let key = GKey { fam: fi, proto: "skipped-after-stall".into(), saw: String::new(), ans: String::new() };
                        add_group(&mut s.groups, key, idx, &chunks, pmask);
                        continue;
                    }
                    st.lock().unwrap().cur = Some((fi, mi, pi, b));
                    let items = build_items(&f.sc, &chunks, pmask);
                    let script = io_script(&items);
                    let o = run_conn(f.entry, f.sc.bytes.clone(), items, false).await;
                    let mut s = st.lock().unwrap();
                    if s.abandoned {
                        return false; // the watchdog gave up on this vector and took the results over
                    }
                    s.cur = None;
                    s.beat += 1;
                    let key = GKey { fam: fi, proto: o.proto.clone(), saw: o.saw.clone(), ans: o.ans.clone() };
                    add_group(&mut s.groups, key, idx, &chunks, pmask);
                    if ctx.sample_all || splitmix(ctx.seed ^ (idx as u64).wrapping_mul(0x9E3779B97F4A7C15)) < ctx.thresh {
                        s.raws.push((idx, raw_record(f, refo, &o, idx, &chunks, pmask, &script)));
                    }
                }
            }
            true
        });
        if !alive {
            return;
        }
    }
    st.lock().unwrap().done = true;
}

/// The single-protocol reference of a stream class (see RefObs).
fn compute_ref(sc: &StreamClass) -> RefObs {
    let rt = new_rt();
    let e = if sc.m >= 24 { Entry::PlainH2 } else { Entry::PlainH1 };
    let mut items = vec![];
    if !sc.bytes.is_empty() {
        items.push(Item::Chunk(0, sc.bytes.len()));
    }
    if sc.eof {
        items.push(Item::Eof);
    }
    let unfrag = rt.block_on(run_conn(e, sc.bytes.clone(), items, false));
    let mut answers = std::collections::BTreeSet::new();
    answers.insert(unfrag.ans.clone());
    let w = sc.window();
    let mut masks: Vec<u32> = vec![0];
    for a in 1..w {
        masks.push(1 << (a - 1));
        for b in (a + 1)..w {
            masks.push((1 << (a - 1)) | (1 << (b - 1)));
        }
    }
    if w >= 2 {
        masks.push(((1u64 << (w - 1)) - 1) as u32);
    }
    rt.block_on(async {
        for mk in masks {
            let chunks = chunks_from_mask(mk, w);
            // Pending placements too (on the chunkings with <= 1 cut): on truncated HTTP/2 streams what
            // hyper manages to write before it sees the end of the stream depends on the polls in between
            let modes: &[u64] = if mk.count_ones() <= 1 { &[0, 1, 2, 3, 4, 5, 6] } else { &[0] };
            for &pm in modes {
                let pmask = pend_mask(pm, nitems(sc, chunks.len()));
                let items = build_items(sc, &chunks, pmask);
                let o = run_conn(e, sc.bytes.clone(), items, false).await;
                answers.insert(o.ans);
            }
        }
    });
    RefObs { unfrag, answers: answers.into_iter().collect() }
}

fn arg(args: &[String], name: &str) -> Option<String> {
    args.iter().position(|a| a == name).and_then(|i| args.get(i + 1).cloned())
}

fn new_rt() -> tokio::runtime::Runtime {
    tokio::runtime::Builder::new_current_thread().enable_time().start_paused(true).build().unwrap()
}

fn main() {
    let args: Vec<String> = std::env::args().collect();
    let out_path = arg(&args, "--out").expect("--out");
    let sample: usize = arg(&args, "--sample").map(|s| s.parse().unwrap()).unwrap_or(5000);
    let seed: u64 = arg(&args, "--seed").map(|s| s.parse().unwrap()).unwrap_or(1);
    let threads: usize = arg(&args, "--threads").map(|s| s.parse().unwrap()).unwrap_or(8);
    std::panic::set_hook(Box::new(|_| {}));

    let mut cuts: HashMap<usize, Arc<Vec<u32>>> = HashMap::new();
    let mut fams: Vec<Family> = Vec::new();
    let mut explicit: Vec<Value> = Vec::new();
    let mut rewinds: Vec<Value> = Vec::new();
    let stdin = std::io::stdin();
    for line in stdin.lock().lines() {
        let line = line.unwrap();
        if line.trim().is_empty() {
            continue;
        }
        let v: Value = serde_json::from_str(&line).unwrap_or_else(|e| {
            eprintln!("bad input line: {e}: {}", &line[..line.len().min(200)]);
            std::process::exit(3)
        });
        match v["t"].as_str().unwrap_or("") {
            "cuts" => {
                let l = v["L"].as_u64().unwrap() as usize;
                let masks: Vec<u32> = v["masks"].as_array().unwrap().iter().map(|x| x.as_u64().unwrap() as u32).collect();
                cuts.insert(l, Arc::new(masks));
            }
            "conn" => {
                let sc = StreamClass::from_json(&v).unwrap_or_else(|e| {
                    eprintln!("bad stream class: {e}");
                    std::process::exit(3)
                });
                let entry = Entry::parse(v["entry"].as_str().unwrap()).unwrap();
                let k = v["K"].as_u64().unwrap() as u32;
                let w = sc.window();
                let mut masks: Vec<u32> = masks_for(&cuts, w, k);
                if v["ones"].as_bool().unwrap_or(false) && w >= 2 {
                    let ones = ((1u64 << (w - 1)) - 1) as u32;
                    if !masks.contains(&ones) {
                        masks.push(ones);
                    }
                }
                let pend: Vec<u64> = v["pend"].as_array().unwrap().iter().map(|x| x.as_u64().unwrap()).collect();
                fams.push(Family { sc, entry, masks: Arc::new(masks), pend, base: 0 });
            }
            "connx" => explicit.push(v),
            "rewind" | "rewindx" => rewinds.push(v),
            other => {
                eprintln!("unknown line type {other}");
                std::process::exit(3)
            }
        }
    }
    let mut total = 0usize;
    for f in fams.iter_mut() {
        f.base = total;
        total += f.size();
    }

    let mut out = std::io::BufWriter::new(std::fs::File::create(&out_path).expect("create out"));
    let mut emit = |v: &Value| {
        serde_json::to_writer(&mut out, v).unwrap();
        out.write_all(b"\n").unwrap();
    };

    // reference runs: the same bytes, unfragmented, against plain hyper http1 / http2
    let mut refs: HashMap<(i64, usize, String, usize, bool), RefObs> = HashMap::new();
    let ref_for = |sc: &StreamClass| -> RefObs {
        let sc2 = sc.clone();
        with_deadline(Duration::from_secs(120), move || compute_ref(&sc2)).unwrap_or_else(|| {
            eprintln!("the plain hyper reference does not finish on stream class m={} kind={} len={} eof={}", sc.m, sc.kind, sc.len, sc.eof);
            std::process::exit(3)
        })
    };
    for f in &fams {
        let key = (f.sc.sid, f.sc.m, f.sc.kind.clone(), f.sc.len, f.sc.eof);
        if !refs.contains_key(&key) {
            let o = ref_for(&f.sc);
            refs.insert(key, o);
        }
    }

    // --- families, in parallel (each thread: its own paused current_thread runtime) -------------
    let t0 = std::time::Instant::now();
    let fams = Arc::new(fams);
    let refs_a: Arc<Vec<RefObs>> = Arc::new(
        fams.iter().map(|f| refs[&(f.sc.sid, f.sc.m, f.sc.kind.clone(), f.sc.len, f.sc.eof)].clone()).collect(),
    );
    // work items: (family, block of masks)
    const BLOCK: usize = 256;
    let mut work: Vec<(usize, usize, usize)> = Vec::new();
    for (fi, f) in fams.iter().enumerate() {
        let mut a = 0;
        while a < f.masks.len() {
            let b = (a + BLOCK).min(f.masks.len());
            work.push((fi, a, b));
            a = b;
        }
    }
    // raw sample: vector idx is sampled iff hash(seed, idx) % total < sample (deterministic, thread independent)
    let thresh: u64 = if total == 0 { 0 } else { ((sample as u128 * u64::MAX as u128) / total.max(1) as u128).min(u64::MAX as u128) as u64 };
    let sample_all = sample >= total;
    let ctx = Arc::new(Ctx {
        skip_fam: (0..fams.len()).map(|_| AtomicBool::new(false)).collect(),
        fams: fams.clone(),
        refs: refs_a.clone(),
        work,
        next: AtomicUsize::new(0),
        extras: Mutex::new(Vec::new()),
        skip_all: AtomicBool::new(false),
        seed,
        thresh,
        sample_all,
    });
    // Workers run the vectors; this thread is the REAL-time watchdog: a worker that stays on one vector longer
    // than REAL_BUDGET is abandoned (its thread keeps spinning, it cannot be killed), the vector is recorded as
    // `stalled-spinning`, the rest of its block is re-queued and a fresh worker takes over.
    struct Sup {
        st: Arc<Mutex<WState>>,
        beat: u64,
        since: std::time::Instant,
        closed: bool,
    }
    let spawn_worker = |ctx: &Arc<Ctx>| -> Sup {
        let st = Arc::new(Mutex::new(WState::default()));
        let (c, s2) = (ctx.clone(), st.clone());
        std::thread::spawn(move || worker(c, s2));
        Sup { st, beat: 0, since: std::time::Instant::now(), closed: false }
    };
    let mut sups: Vec<Sup> = (0..threads.max(1)).map(|_| spawn_worker(&ctx)).collect();
    let mut groups: BTreeMap<GKey, Group> = BTreeMap::new();
    let mut raws: Vec<(usize, Value)> = Vec::new();
    let mut leaked = 0usize;
    let mut class_stalls: HashMap<i64, u32> = HashMap::new();
    loop {
        std::thread::sleep(Duration::from_millis(10));
        let mut fresh: Vec<Sup> = Vec::new();
        for w in sups.iter_mut().filter(|w| !w.closed) {
            let mut st = w.st.lock().unwrap_or_else(|e| e.into_inner());
            if st.done {
                merge_groups(&mut groups, std::mem::take(&mut st.groups));
                raws.append(&mut st.raws);
                w.closed = true;
                continue;
            }
            if st.beat != w.beat || st.cur.is_none() {
                w.beat = st.beat;
                w.since = std::time::Instant::now();
                continue;
            }
            if w.since.elapsed() < REAL_BUDGET {
                continue;
            }
            // abandon
            st.abandoned = true;
            merge_groups(&mut groups, std::mem::take(&mut st.groups));
            raws.append(&mut st.raws);
            let (fi, mi, pi, b) = st.cur.unwrap();
            w.closed = true;
            drop(st);
            let f = &ctx.fams[fi];
            let chunks = chunks_from_mask(f.masks[mi], f.sc.window());
            let idx = f.base + mi * f.pend.len() + pi;
            let pmask = pend_mask(f.pend[pi], nitems(&f.sc, chunks.len()));
            let o = spinning_obs("real-time watchdog");
            eprintln!("sniff: watchdog: vector {idx} (m={} kind={} len={} eof={} entry={} chunks={:?} pendmask={pmask}) did not finish in {:?} of real time",
                f.sc.m, f.sc.kind, f.sc.len, f.sc.eof, f.entry.name(), chunks, REAL_BUDGET);
            add_group(&mut groups, GKey { fam: fi, proto: o.proto.clone(), saw: o.saw.clone(), ans: o.ans.clone() }, idx, &chunks, pmask);
            raws.push((idx, raw_record(f, &ctx.refs[fi], &o, idx, &chunks, pmask, &io_script(&build_items(&f.sc, &chunks, pmask)))));
            ctx.extras.lock().unwrap().push((fi, mi, b, pi + 1));
            leaked += 1;
            let n = class_stalls.entry(f.sc.sid).or_insert(0);
            *n += 1;
            if *n >= STALLS_PER_CLASS {
                for (i, g) in ctx.fams.iter().enumerate() {
                    if g.sc.sid == f.sc.sid {
                        ctx.skip_fam[i].store(true, Ordering::SeqCst);
                    }
                }
            }
            if leaked >= MAX_LEAKED {
                ctx.skip_all.store(true, Ordering::SeqCst);
            }
            fresh.push(spawn_worker(&ctx));
        }
        sups.extend(fresh);
        if sups.iter().all(|w| w.closed) {
            break;
        }
    }
    raws.sort_by_key(|(i, _)| *i);
    let fam_wall = t0.elapsed().as_secs_f64();

    // per family totals (for the cut summaries)
    let mut fam_tot: HashMap<usize, (u64, u64)> = HashMap::new();
    for (k, g) in &groups {
        let e = fam_tot.entry(k.fam).or_insert((0, 0));
        e.0 += g.n;
        e.1 += g.nsplit;
    }
    let mut ngroups = 0;
    for (k, g) in &groups {
        let f = &fams[k.fam];
        let refo = &refs_a[k.fam];
        let o = Obs { proto: k.proto.clone(), saw: k.saw.clone(), ans: k.ans.clone(), ..Default::default() };
        let mut r = conn_record(&f.sc, f.entry, &o, refo);
        let m = r.as_object_mut().unwrap();
        m.insert("g".into(), json!(1));
        if k.proto == "skipped-after-stall" {
            m.insert("k".into(), json!("skipped"));
        }
        m.insert("fam".into(), json!(k.fam));
        m.insert("n".into(), json!(g.n));
        m.insert("nsplit".into(), json!(g.nsplit));
        m.insert("famn".into(), json!(fam_tot[&k.fam].0));
        m.insert("famsplit".into(), json!(fam_tot[&k.fam].1));
        m.insert("fmin".into(), json!(g.fmin));
        m.insert("fmax".into(), json!(g.fmax));
        m.insert("cmin".into(), json!(g.cmin));
        m.insert("cmax".into(), json!(g.cmax));
        m.insert("anypend".into(), json!(g.anypend));
        m.insert("ex".into(), json!(g.ex.iter().map(|(i, c, p)| json!({"idx": i, "chunks": c, "pendmask": p})).collect::<Vec<_>>()));
        m.remove("human");
        emit(&r);
        ngroups += 1;
    }
    let nraw = raws.len();
    for (_, r) in &raws {
        emit(r);
    }

    // --- explicit vectors (replay, as-built counterexamples, cancel) ------------------------------
    let mut nexp = 0;
    for v in &explicit {
        let sc = StreamClass::from_json(v).unwrap_or_else(|e| {
            eprintln!("bad stream class: {e}");
            std::process::exit(3)
        });
        let entry = Entry::parse(v["entry"].as_str().unwrap_or("builder")).unwrap();
        let chunks: Vec<usize> = v["chunks"].as_array().unwrap().iter().map(|x| x.as_u64().unwrap() as usize).collect();
        if chunks.iter().sum::<usize>() != sc.window() || chunks.iter().any(|&c| c == 0) {
            eprintln!("explicit vector: chunks do not cover the window {}", sc.window());
            std::process::exit(3);
        }
        let pmask = v["pendmask"].as_u64().unwrap_or(0);
        // "hold": k = the client pauses after k chunks; "cancel": graceful shutdown is requested during the pause
        let cancel = v["cancel"].as_u64().map(|x| x as usize);
        let hold = cancel.or(v["hold"].as_u64().map(|x| x as usize));
        let refo = ref_for(&sc);
        let mut items = build_items(&sc, &chunks, pmask);
        if let Some(k) = hold {
            // insert the Hold marker before the (k+1)-th data/eof item
            let mut seen = 0;
            let mut at = items.len();
            for (i, it) in items.iter().enumerate() {
                if matches!(it, Item::Chunk(..) | Item::Eof) {
                    if seen == k {
                        at = i;
                        break;
                    }
                    seen += 1;
                }
            }
            items.insert(at, Item::Hold);
        }
        let script = io_script(&items);
        let (bytes, canc) = (sc.bytes.clone(), cancel.is_some());
        let o = with_deadline(REAL_BUDGET, move || new_rt().block_on(run_conn(entry, bytes, items, canc)))
            .unwrap_or_else(|| spinning_obs("real-time watchdog"));
        let mut r = conn_record(&sc, entry, &o, &refo);
        let m = r.as_object_mut().unwrap();
        m.insert("g".into(), json!(0));
        m.insert("n".into(), json!(1));
        m.insert("x".into(), json!(1));
        m.insert("chunks".into(), json!(chunks));
        m.insert("pendmask".into(), json!(pmask));
        m.insert("io".into(), json!(script));
        m.insert("caps".into(), json!(o.caps));
        m.insert("got".into(), json!(o.got));
        m.insert("res".into(), json!(o.res));
        m.insert("refres".into(), json!(refo.unfrag.res));
        if let Some(c) = cancel {
            m.insert("k".into(), json!("cancel"));
            m.insert("cancel".into(), json!(c));
        }
        if let Some(e) = v.get("expect") {
            m.insert("expect".into(), e.clone());
        }
        emit(&r);
        nexp += 1;
    }

    // --- direct Rewind vectors ---------------------------------------------------------------------
    let t1 = std::time::Instant::now();
    let mut nrw: u64 = 0;
    let mut rgroups: BTreeMap<(usize, usize, Vec<u8>, String), (u64, Vec<(Vec<usize>, Vec<usize>)>)> = BTreeMap::new();
    for v in &rewinds {
        let p = v["p"].as_u64().unwrap() as usize;
        let len = v["len"].as_u64().unwrap() as usize;
        if p > len || len > 64 {
            eprintln!("bad rewind vector");
            std::process::exit(3);
        }
        let mut one = |chunks: &[usize], caps: &[usize]| {
            let (saw, note) = run_rewind(p, len, chunks, caps);
            nrw += 1;
            let e = rgroups.entry((p, len, saw, note)).or_insert((0, vec![]));
            e.0 += 1;
            if e.1.len() < 3 {
                e.1.push((chunks.to_vec(), caps.to_vec()));
            }
        };
        if v["t"] == "rewindx" {
            let chunks: Vec<usize> = v["chunks"].as_array().unwrap().iter().map(|x| x.as_u64().unwrap() as usize).collect();
            let caps: Vec<usize> = v["caps"].as_array().unwrap().iter().map(|x| x.as_u64().unwrap() as usize).collect();
            one(&chunks, &caps);
        } else {
            let k = v["K"].as_u64().unwrap() as u32;
            let w = len - p;
            let capsets: Vec<Vec<usize>> = v["caps"].as_array().unwrap().iter()
                .map(|a| a.as_array().unwrap().iter().map(|x| x.as_u64().unwrap() as usize).collect()).collect();
            let masks: Vec<u32> = masks_for(&cuts, w, k);
            for mk in masks {
                let chunks = chunks_from_mask(mk, w);
                for caps in &capsets {
                    one(&chunks, caps);
                }
            }
        }
    }
    let nrg = rgroups.len();
    for ((p, len, saw, note), (n, ex)) in &rgroups {
        let sent: Vec<u8> = (1..=*len as u8).collect();
        emit(&json!({"k":"rewind","g":1,"n":n,"p":p,"len":len,"saw":saw,"sent":sent,"note":note,
            "ex": ex.iter().map(|(c, k)| json!({"chunks": c, "caps": k})).collect::<Vec<_>>()}));
    }
    let rw_wall = t1.elapsed().as_secs_f64();

    let count = |p: &str| -> u64 { groups.iter().filter(|(k, _)| k.proto == p).map(|(_, g)| g.n).sum() };
    emit(&json!({"k":"summary","stalled_spinning":count("stalled-spinning"),"skipped_after_stall":count("skipped-after-stall"),
        "watchdog_abandoned_threads":leaked,"vectors":total,"groups":ngroups,"raw":nraw,"explicit":nexp,
        "rewind_vectors":nrw,"rewind_groups":nrg,"families":fams.len(),
        "conn_wall_s":fam_wall,"rewind_wall_s":rw_wall,"threads":threads,"seed":seed}));
    out.flush().unwrap();
    eprintln!("sniff: {total} conn vectors in {fam_wall:.1}s ({ngroups} groups, {nraw} raw), {nexp} explicit, {nrw} rewind vectors in {rw_wall:.1}s");
}
