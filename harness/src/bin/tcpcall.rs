//! C10 / C11 / C17 at the level of ONE WHOLE TRANSPORT CALL (spec/TcpCall.tla).
//!
//!   tcpcall run --vec <CALLVEC file> --out <file.ndjson> [--unit 300] [--margin 450] [--conc 256]
//!               [--seed S] [--max-slow K] [--only <replay.json>]
//!
//! Every vector TLC printed from spec/TcpCall.tla (`<<"CALLVEC", "<json>">>`: scenario v + one allowed observation o)
//! is realized on loopback and executed through the REAL `TcpTransport` (built with
//! `TcpTransport::builder().with_config(..).with_resolver(<scripted resolver>).build()`) or the REAL
//! `SimpleTcpTransport::new(config, FirstAddrResolver::new(<scripted resolver>))`, via `Service::call(parts)`:
//!   * a candidate that accepts = a listener; refuses = a bound socket that does not listen; does not answer = a
//!     listener with backlog 1 whose accept queue has been filled (probed; rows that need one are skipped and counted
//!     when the kernel does not behave like that);
//!   * every row has its own port (the request URI's explicit port) or, for URIs without a port, the listeners sit on
//!     80 and 443 of a loopback address of its own (needs the privilege to bind them: probed);
//!   * the resolver double records the host it was asked for, how many futures it handed out and whether they
//!     completed or were dropped; it answers with port 7 (set_port must overwrite it);
//!   * the caller's drop: the call future is dropped dropT units after the call.
//! Real time, so only ONE-SIDED timing facts are recorded for the monitor (elapsed / accept instants as lower-bound
//! witnesses; "still pending at the horizon" = hang, decided by a tokio timer on the same runtime as the code's own
//! timers, which are polled after the inner future).  A loaded machine can weaken a row, not falsify it beyond `margin`.
//! Panics of the code under test are data (kind "panic" / taskPanics).  The comparison with the model's allowed
//! observations is DRIFT, never a verdict; spec/TcpCallObs.tla decides.
use futures_util::FutureExt as _;
use hyperdriver::client::conn::dns::{FirstAddrResolver, GaiResolver, SocketAddrs};
use hyperdriver::client::conn::transport::tcp::{SimpleTcpTransport, TcpTransport, TcpTransportConfig};
use hyperdriver::stream::tcp::TcpStream as HdTcp;
use rand::seq::SliceRandom;
use rand::SeedableRng;
use serde_json::{json, Value};
use std::collections::{BTreeMap, BTreeSet};
use std::future::Future;
use std::io::{BufRead, Write};
use std::net::{IpAddr, Ipv4Addr, Ipv6Addr, SocketAddr};
use std::panic::AssertUnwindSafe;
use std::pin::Pin;
use std::sync::atomic::{AtomicUsize, Ordering};
use std::sync::{Arc, Mutex};
use std::task::{Context, Poll};
use std::time::{Duration, Instant};
use tokio::net::{TcpListener, TcpSocket, TcpStream as TokioStream};
use tower::ServiceExt as _;

const NONE: i64 = -1;
static PANICS: AtomicUsize = AtomicUsize::new(0);

fn arg(args: &[String], name: &str) -> Option<String> {
    args.iter().position(|a| a == name).and_then(|p| args.get(p + 1)).cloned()
}

// ------------------------------------------------------------------------------------------------
// the scenario
#[derive(Clone, Debug)]
struct Vecr {
    transport: String,
    scheme: String,
    host: String,
    port: String,
    res: String,
    rlat: i64,
    n: usize,
    fam: Vec<i64>,
    oc: Vec<String>,
    lat: Vec<i64>,
    bind: String,
    ct: i64,
    he: i64,
    conc: i64,
    drop_t: i64,
    api: String, // "call" | "addrs" (TcpTransport::connect_to_addrs with the same candidates) | "gai"
}

impl Vecr {
    fn from_json(v: &Value) -> Vecr {
        let s = |k: &str| v[k].as_str().unwrap_or_else(|| panic!("v.{k}")).to_string();
        let i = |k: &str| v[k].as_i64().unwrap_or_else(|| panic!("v.{k}"));
        Vecr {
            transport: s("transport"), scheme: s("scheme"), host: s("host"), port: s("port"), res: s("res"), rlat: i("rlat"),
            n: i("n") as usize,
            fam: v["fam"].as_array().unwrap().iter().map(|x| x.as_i64().unwrap()).collect(),
            oc: v["oc"].as_array().unwrap().iter().map(|x| x.as_str().unwrap().to_string()).collect(),
            lat: v["lat"].as_array().unwrap().iter().map(|x| x.as_i64().unwrap()).collect(),
            bind: s("bind"), ct: i("ct"), he: i("heT"), conc: i("conc"), drop_t: i("dropT"),
            api: v.get("api").and_then(|a| a.as_str()).unwrap_or("call").to_string(),
        }
    }
    /// stable row name
    fn name(&self) -> String {
        let cands: Vec<String> = (0..self.n).map(|i| format!("{}{}{}", self.fam[i], self.oc[i], if self.lat[i] > 0 { format!("+{}", self.lat[i]) } else { String::new() })).collect();
        let base = format!("{}/{}-{}-{}/{}:r{}/[{}]/bind={}/ct{}/he{}/c{}/d{}", self.transport, self.scheme, self.host, self.port, self.res, self.rlat,
                cands.join(","), self.bind, self.ct, self.he, self.conc, self.drop_t);
        if self.api == "call" { base } else { format!("{base}/{}", self.api) }
    }
    fn to_json(&self, uport: u16, unit: i64, margin: i64) -> Value {
        json!({"transport": self.transport, "scheme": self.scheme, "host": self.host, "port": self.port, "uport": uport,
               "res": self.res, "rlat": self.rlat, "n": self.n, "fam": self.fam, "oc": self.oc, "lat": self.lat, "bind": self.bind,
               "ct": self.ct, "heT": self.he, "conc": self.conc, "dropT": self.drop_t, "unit": unit, "margin": margin, "api": self.api})
    }
    fn slow(&self) -> bool {
        self.drop_t != NONE || self.res == "never" || self.rlat > 0 || (0..self.n).any(|i| self.oc[i] == "never")
    }
    /// vectors that cannot be scripted on loopback whatever the environment
    fn not_realizable(&self) -> Option<&'static str> {
        if (0..self.n).any(|i| self.oc[i] == "ok" && self.lat[i] > 0) {
            return Some("a candidate that accepts late cannot be scripted on loopback");
        }
        if self.host == "none" && self.scheme != "none" {
            return Some("http::Uri cannot carry a scheme without an authority");
        }
        if (0..self.n).filter(|&i| self.fam[i] == 6).count() > 1 {
            return Some("one IPv6 loopback address only");
        }
        None
    }
    fn uri_must_pass(&self) -> bool {
        self.host != "none" && (self.port == "explicit" || self.scheme == "http" || self.scheme == "https")
    }
}

// ------------------------------------------------------------------------------------------------
// the resolver double
#[derive(Default, Debug)]
struct RState {
    calls: usize,
    hosts: Vec<String>,
    futures: usize,
    completed: usize,
    dropped: usize,
}

#[derive(Clone)]
struct Scripted {
    kind: &'static str, // "error" | "empty" | "list" | "never"
    delay: Duration,
    answer: Vec<SocketAddr>,
    detached: bool, // the work runs in a task of its own and completes whether or not anybody still listens
    state: Arc<Mutex<RState>>,
}

struct ScriptedFuture {
    inner: Option<Pin<Box<dyn Future<Output = ()> + Send>>>, // None: never completes
    kind: &'static str,
    answer: Vec<SocketAddr>,
    state: Arc<Mutex<RState>>,
    done: bool,
}

impl Future for ScriptedFuture {
    type Output = Result<SocketAddrs, std::io::Error>;
    fn poll(mut self: Pin<&mut Self>, cx: &mut Context<'_>) -> Poll<Self::Output> {
        let this = &mut *self;
        match this.inner.as_mut() {
            None => Poll::Pending,
            Some(f) => match f.as_mut().poll(cx) {
                Poll::Pending => Poll::Pending,
                Poll::Ready(()) => {
                    this.done = true;
                    this.state.lock().unwrap().completed += 1;
                    Poll::Ready(match this.kind {
                        "error" => Err(std::io::Error::new(std::io::ErrorKind::NotFound, "scripted resolver failure")),
                        "empty" => Ok(SocketAddrs::default()),
                        _ => Ok(this.answer.iter().copied().collect()),
                    })
                }
            },
        }
    }
}

impl Drop for ScriptedFuture {
    fn drop(&mut self) {
        if !self.done {
            self.state.lock().unwrap().dropped += 1;
        }
    }
}

impl tower::Service<Box<str>> for Scripted {
    type Response = SocketAddrs;
    type Error = std::io::Error;
    type Future = ScriptedFuture;
    fn poll_ready(&mut self, _: &mut Context<'_>) -> Poll<Result<(), std::io::Error>> {
        Poll::Ready(Ok(()))
    }
    fn call(&mut self, host: Box<str>) -> Self::Future {
        {
            let mut st = self.state.lock().unwrap();
            st.calls += 1;
            st.futures += 1;
            st.hosts.push(host.to_string());
        }
        let delay = self.delay;
        let inner: Option<Pin<Box<dyn Future<Output = ()> + Send>>> = if self.kind == "never" {
            None
        } else if self.detached {
            let (tx, rx) = tokio::sync::oneshot::channel::<()>();
            tokio::spawn(async move {
                tokio::time::sleep(delay).await;
                let _ = tx.send(());
            });
            Some(Box::pin(async move {
                let _ = rx.await;
            }))
        } else {
            Some(Box::pin(tokio::time::sleep(delay)))
        };
        ScriptedFuture { inner, kind: self.kind, answer: self.answer.clone(), state: self.state.clone(), done: false }
    }
}

// ------------------------------------------------------------------------------------------------
// environment
#[derive(Clone, Copy, Debug)]
struct EnvInfo {
    v6: bool,
    privileged: bool,
    silent: bool,
    base: (u8, u8), // 127.a.b.* is this process's private range
}

async fn probe_env() -> EnvInfo {
    let v6 = async {
        let l = TcpListener::bind("[::1]:0").await.ok()?;
        TokioStream::connect(l.local_addr().ok()?).await.ok()?;
        Some(())
    }
    .await
    .is_some();
    let pid = std::process::id();
    let base = (64 + (pid % 128) as u8, ((pid / 128) % 250) as u8);
    let probe_ip = Ipv4Addr::new(127, base.0, base.1, 254);
    let privileged = TcpListener::bind(SocketAddr::new(probe_ip.into(), 80)).await.is_ok() && TcpListener::bind(SocketAddr::new(probe_ip.into(), 443)).await.is_ok();
    let silent = silent_listener(SocketAddr::new(probe_ip.into(), 0)).await.is_some();
    EnvInfo { v6, privileged, silent, base }
}

/// A loopback address that does not answer: a listener with backlog 1 that never accepts and whose accept queue has been
/// filled, so further SYNs are dropped.  Returns the listener and the connections that fill it (to be kept alive).
async fn silent_listener(at: SocketAddr) -> Option<(TcpListener, Vec<TokioStream>, SocketAddr)> {
    let s = if at.is_ipv4() { TcpSocket::new_v4().ok()? } else { TcpSocket::new_v6().ok()? };
    s.bind(at).ok()?;
    let l = s.listen(1).ok()?;
    let a = l.local_addr().ok()?;
    let mut fill = vec![];
    let mut saturated = false;
    for _ in 0..16 {
        match tokio::time::timeout(Duration::from_millis(200), TokioStream::connect(a)).await {
            Ok(Ok(c)) => fill.push(c),
            Ok(Err(_)) => break,
            Err(_) => {
                saturated = true;
                break;
            }
        }
    }
    let ok = saturated && tokio::time::timeout(Duration::from_millis(200), TokioStream::connect(a)).await.is_err();
    if ok { Some((l, fill, a)) } else { None }
}

#[derive(Debug)]
struct Accepted {
    cand: usize,
    port: u16,
    at_ms: i64,
}

struct RowEnv {
    tasks: Vec<tokio::task::JoinHandle<()>>,
    keep_sockets: Vec<TcpSocket>,
    keep_listeners: Vec<TcpListener>,
    keep_streams: Vec<TokioStream>,
    accepted: Arc<Mutex<Vec<Accepted>>>,
    t0: Arc<Mutex<Option<Instant>>>,
}

impl RowEnv {
    fn new() -> RowEnv {
        RowEnv { tasks: vec![], keep_sockets: vec![], keep_listeners: vec![], keep_streams: vec![], accepted: Default::default(), t0: Default::default() }
    }
    /// a live listener for candidate `cand` at `at`
    async fn live(&mut self, cand: usize, at: SocketAddr) -> Option<()> {
        let l = TcpListener::bind(at).await.ok()?;
        let acc = self.accepted.clone();
        let t0 = self.t0.clone();
        let port = at.port();
        self.tasks.push(tokio::spawn(async move {
            let mut held = vec![];
            loop {
                match l.accept().await {
                    Ok((s, _)) => {
                        let at_ms = t0.lock().unwrap().map(|t| t.elapsed().as_millis() as i64).unwrap_or(0);
                        acc.lock().unwrap().push(Accepted { cand, port, at_ms });
                        held.push(s);
                    }
                    Err(_) => tokio::time::sleep(Duration::from_millis(5)).await,
                }
            }
        }));
        Some(())
    }
    fn closed(&mut self, at: SocketAddr) -> Option<()> {
        let s = if at.is_ipv4() { TcpSocket::new_v4().ok()? } else { TcpSocket::new_v6().ok()? };
        s.bind(at).ok()?;
        self.keep_sockets.push(s);
        Some(())
    }
    async fn silent(&mut self, at: SocketAddr) -> Option<()> {
        let (l, fill, _) = silent_listener(at).await?;
        self.keep_listeners.push(l);
        self.keep_streams.extend(fill);
        Some(())
    }
}

impl Drop for RowEnv {
    fn drop(&mut self) {
        for t in &self.tasks {
            t.abort();
        }
    }
}

fn config(v: &Vecr, unit: i64) -> TcpTransportConfig {
    let d = |x: i64| if x < 0 { None } else { Some(Duration::from_millis((x * unit) as u64)) };
    let mut cfg = TcpTransportConfig::default();
    cfg.connect_timeout = d(v.ct);
    cfg.happy_eyeballs_timeout = d(v.he);
    cfg.happy_eyeballs_concurrency = if v.conc < 0 { None } else { Some(v.conc as usize) };
    // local addresses that exist: the binding only selects the family preference (a failing bind is the domain of
    // spec/TcpEyeballs.tla)
    if v.bind == "v4" || v.bind == "both" {
        cfg.local_address_ipv4 = Some(Ipv4Addr::LOCALHOST);
    }
    if v.bind == "v6" || v.bind == "both" {
        cfg.local_address_ipv6 = Some(Ipv6Addr::LOCALHOST);
    }
    cfg
}

fn classify(msg: &str) -> (&'static str, &'static str) {
    let timed = msg.contains("timed out") || msg.contains("deadline has elapsed") || msg.contains("TimedOut");
    if msg.contains("invalid URI") {
        ("invaliduri", "")
    } else if msg.contains("dns resolve error") {
        if msg.contains("dns resolution timed out") { ("dnstimeout", "") } else { ("dnserr", "") }
    } else if msg.contains("Exhausted connection candidates") {
        ("noprogress", "")
    } else if msg.starts_with("Connection attempts timed out after") {
        ("timeout", "")
    } else if msg.contains("tcp connect error") {
        ("err", if msg.to_lowercase().contains("refused") { "refused" } else if timed { "timedout" } else { "other" })
    } else {
        ("other", "")
    }
}

enum Skip {
    NeedsV6,
    NeedsPrivilege,
    NeedsSilent,
    NotRealizable(&'static str),
    Environment(&'static str),
}

struct RowOut {
    rec: Value,
    conform: bool,
}

type Allowed = BTreeSet<(String, i64, String)>; // (kind, connected candidate, error class) the model allows

#[allow(clippy::too_many_arguments)]
async fn run_row(env: EnvInfo, v: Vecr, rowno: usize, unit: i64, margin: i64, allowed: Option<Allowed>, sid: usize) -> Result<RowOut, Skip> {
    // ---- realizability
    if let Some(why) = v.not_realizable() {
        return Err(Skip::NotRealizable(why));
    }
    let needs_v6 = (0..v.n).any(|i| v.fam[i] == 6) || v.bind == "v6" || v.bind == "both";
    if needs_v6 && !env.v6 {
        return Err(Skip::NeedsV6);
    }
    if v.port == "absent" && v.uri_must_pass() && !env.privileged {
        return Err(Skip::NeedsPrivilege);
    }
    if (0..v.n).any(|i| v.oc[i] == "never") && !env.silent {
        return Err(Skip::NeedsSilent);
    }
    // ---- addresses and ports
    let mut renv;
    let ip4 = |i: usize| Ipv4Addr::new(127, env.base.0, env.base.1.wrapping_add((rowno / 60) as u8), ((rowno % 60) * 4 + i + 1) as u8);
    let gai = v.api == "gai"; // the real getaddrinfo answers 127.0.0.1 / ::1 for "localhost"
    let ip_of = |i: usize| -> IpAddr { if v.fam[i] == 6 { IpAddr::V6(Ipv6Addr::LOCALHOST) } else if gai { IpAddr::V4(Ipv4Addr::LOCALHOST) } else { IpAddr::V4(ip4(i)) } };
    // the row's own port: reserved by a socket that stays bound for the whole row
    let mut uport;
    let mut tries = 0;
    let default_ports: [u16; 2] = [80, 443];
    'port: loop {
        tries += 1;
        if tries > 4 {
            return Err(Skip::Environment("no usable port"));
        }
        renv = RowEnv::new();
        let reserve = TcpSocket::new_v4().map_err(|_| Skip::Environment("socket"))?;
        reserve.bind(SocketAddr::new(Ipv4Addr::new(127, env.base.0, env.base.1, 253).into(), 0)).map_err(|_| Skip::Environment("bind"))?;
        uport = reserve.local_addr().map_err(|_| Skip::Environment("local_addr"))?.port();
        renv.keep_sockets.push(reserve);
        // the port the candidates are expected at, and the ports a wrong default would lead to
        let expected: u16 = if v.port == "explicit" { uport } else if v.scheme == "http" || v.scheme == "ws" { 80 } else { 443 };
        let watch: Vec<u16> = if v.port == "absent" || v.host != "dns" || v.scheme != "http" {
            // URI-stage rows: also watch the other ports a wrong extraction would produce
            let mut w = vec![expected];
            if env.privileged {
                for p in default_ports {
                    if !w.contains(&p) {
                        w.push(p);
                    }
                }
            }
            if v.port == "explicit" || !w.contains(&uport) {
                if !w.contains(&uport) {
                    w.push(uport);
                }
            }
            w
        } else {
            vec![expected]
        };
        for i in 0..v.n {
            let ip = ip_of(i);
            match v.oc[i].as_str() {
                "ok" => {
                    for (wi, p) in watch.iter().enumerate() {
                        if v.fam[i] == 6 && wi > 0 {
                            continue; // [::1] is shared by all rows: only the expected port
                        }
                        if renv.live(i, SocketAddr::new(ip, *p)).await.is_none() {
                            if wi == 0 { continue 'port; }
                        }
                    }
                }
                "err" => {
                    if renv.closed(SocketAddr::new(ip, expected)).is_none() {
                        continue 'port;
                    }
                }
                _ => {
                    if renv.silent(SocketAddr::new(ip, expected)).await.is_none() {
                        continue 'port;
                    }
                }
            }
        }
        break;
    }
    let expected: u16 = if v.port == "explicit" { uport } else if v.scheme == "http" || v.scheme == "ws" { 80 } else { 443 };
    // ---- the request
    let host = match v.host.as_str() { "dns" => (if gai { "localhost" } else { "candidates.test" }).to_string(), "v4" => "127.0.0.1".to_string(), "v6" => "[::1]".to_string(), _ => String::new() };
    let hp = if v.port == "explicit" { format!("{host}:{uport}") } else { host.clone() };
    let scheme = match v.scheme.as_str() { "other" => "ftp", s => s };
    let uri = if v.host == "none" { "/no/authority".to_string() } else if v.scheme == "none" { hp.clone() } else { format!("{scheme}://{hp}/") };
    let parts = match http::Request::builder().uri(uri.as_str()).body(()) {
        Ok(r) => r.into_parts().0,
        Err(_) => return Err(Skip::NotRealizable("http::Request::builder rejects the URI")),
    };
    // ---- the transport
    let state: Arc<Mutex<RState>> = Default::default();
    let answer: Vec<SocketAddr> = (0..v.n).map(|i| SocketAddr::new(ip_of(i), 7)).collect();
    let kind: &'static str = match v.res.as_str() { "error" => "error", "empty" => "empty", "never" => "never", _ => "list" };
    let resolver = Scripted { kind, delay: Duration::from_millis((v.rlat.max(0) * unit) as u64), answer: answer.clone(), detached: v.drop_t != NONE, state: state.clone() };
    let cfg = config(&v, unit);
    type CallFut = Pin<Box<dyn Future<Output = Result<Option<SocketAddr>, String>> + Send>>;
    let peer = |s: HdTcp| s.peer_addr().ok();
    let fut: CallFut = match (v.transport.as_str(), v.api.as_str()) {
        ("tcp", "addrs") => {
            let t: TcpTransport<Scripted> = TcpTransport::builder().with_config(cfg).with_resolver(resolver).build();
            let addrs: Vec<SocketAddr> = (0..v.n).map(|i| SocketAddr::new(ip_of(i), expected)).collect();
            Box::pin(async move { t.connect_to_addrs(addrs).await.map(peer).map_err(|e| e.to_string()) })
        }
        ("tcp", "gai") => {
            let t: TcpTransport<GaiResolver> = TcpTransport::builder().with_config(cfg).with_gai_resolver().build();
            Box::pin(async move { t.oneshot(parts).await.map(peer).map_err(|e| e.to_string()) })
        }
        ("simple", "gai") => {
            let t: SimpleTcpTransport<_, HdTcp> = SimpleTcpTransport::new(cfg, FirstAddrResolver::new(GaiResolver::new()));
            Box::pin(async move { t.oneshot(parts).await.map(peer).map_err(|e| e.to_string()) })
        }
        ("tcp", _) => {
            let t: TcpTransport<Scripted> = TcpTransport::builder().with_config(cfg).with_resolver(resolver).build();
            Box::pin(async move { t.oneshot(parts).await.map(peer).map_err(|e| e.to_string()) })
        }
        _ => {
            let t: SimpleTcpTransport<_, HdTcp> = SimpleTcpTransport::new(cfg, FirstAddrResolver::new(resolver));
            Box::pin(async move { t.oneshot(parts).await.map(peer).map_err(|e| e.to_string()) })
        }
    };
    // ---- run
    let u = |x: i64| Duration::from_millis((x.max(0) * unit) as u64);
    let nn = v.n.max(1) as i64;
    let horizon_units = v.rlat.max(0) + v.ct.max(0) + v.he.max(0).max(v.ct.max(0) * nn) + 4;
    let t0 = Instant::now();
    *renv.t0.lock().unwrap() = Some(t0);
    // boxed, so that `drop(guarded)` below really is the caller's drop
    let mut guarded = Box::pin(AssertUnwindSafe(fut).catch_unwind());
    enum End {
        Done(Result<Result<Option<SocketAddr>, String>, ()>),
        Hang,
        Dropped,
    }
    let end = if v.drop_t != NONE {
        tokio::select! {
            biased;
            r = &mut guarded => End::Done(r.map_err(|_| ())),
            _ = tokio::time::sleep(u(v.drop_t)) => End::Dropped,
        }
    } else {
        match tokio::time::timeout(u(horizon_units), &mut guarded).await {
            Ok(r) => End::Done(r.map_err(|_| ())),
            Err(_) => End::Hang,
        }
    };
    let elapsed = t0.elapsed().as_millis() as i64;
    let (kindo, ido, errclass, cport, msg): (String, usize, String, u16, String) = match &end {
        End::Hang => ("hang".into(), 0, "".into(), 0, String::new()),
        End::Dropped => ("dropped".into(), 0, "".into(), 0, String::new()),
        End::Done(Err(())) => ("panic".into(), 0, "".into(), 0, String::new()),
        End::Done(Ok(Ok(peer))) => {
            let id = peer.and_then(|p| (0..v.n).find(|&i| ip_of(i) == p.ip())).map(|i| i + 1).unwrap_or(0);
            ("ok".into(), id, "".into(), peer.map(|p| p.port()).unwrap_or(0), String::new())
        }
        End::Done(Ok(Err(m))) => {
            let (k, c) = classify(m);
            (k.into(), 0, c.into(), 0, m.clone())
        }
    };
    // the caller's drop (or the release of a completed / hanging future), then let late effects show up
    let dropped_now = matches!(end, End::Dropped);
    drop(guarded);
    let settle = if dropped_now { u(v.rlat.max(0) + 4) } else { Duration::from_millis(40) };
    tokio::time::sleep(settle).await;
    if kindo == "ok" && ido > 0 {
        // the kernel has completed the handshake, but the accepting task of this harness may not have run yet on a
        // loaded machine: wait (bounded) until it has recorded the connection the call returned
        let deadline = Instant::now() + Duration::from_secs(10);
        while Instant::now() < deadline && !renv.accepted.lock().unwrap().iter().any(|a| a.cand == ido - 1 && a.port == cport) {
            tokio::time::sleep(Duration::from_millis(5)).await;
        }
    }
    let acc = renv.accepted.lock().unwrap();
    let mut accn = vec![0i64; v.fam.len()];
    let mut acc_at = vec![NONE; v.fam.len()];
    let mut wrong = 0i64;
    for a in acc.iter() {
        if a.port != expected {
            wrong += 1;
            continue;
        }
        accn[a.cand] += 1;
        if acc_at[a.cand] == NONE || a.at_ms < acc_at[a.cand] {
            acc_at[a.cand] = a.at_ms;
        }
    }
    let st = state.lock().unwrap();
    let rleft = (st.futures - st.completed - st.dropped) as i64;
    let o = json!({"kind": kindo, "id": ido, "errclass": errclass, "elapsed": elapsed, "acc": accn, "accAt": acc_at, "cport": cport,
                   "wrongPort": wrong, "taskPanics": 0, "rleft": if kindo == "hang" { 0 } else { rleft },
                   "rcalls": st.calls, "rhost": st.hosts.first().cloned().unwrap_or_default(), "rdropped": st.dropped});
    let conform = allowed.as_ref().map(|a| a.contains(&(kindo.clone(), ido as i64, errclass.clone()))).unwrap_or(true);
    let rec = json!({"sid": sid, "name": v.name(), "v": v.to_json(if v.port == "explicit" { uport } else { 0 }, unit, margin), "o": o,
                     "conform": conform, "from_model": allowed.is_some(), "msg": msg, "uri": uri, "expectedPort": expected});
    Ok(RowOut { rec, conform })
}

fn read_vec(path: &str) -> Vec<(Vecr, Allowed)> {
    let f = std::io::BufReader::new(std::fs::File::open(path).unwrap_or_else(|e| panic!("open {path}: {e}")));
    let mut map: BTreeMap<String, (Vecr, Allowed)> = BTreeMap::new();
    for line in f.lines() {
        let line = line.unwrap();
        let Some(rest) = line.strip_prefix("<<\"CALLVEC\", ") else { continue };
        let Some(inner) = rest.strip_suffix(">>") else { continue };
        let js: String = serde_json::from_str(inner).expect("CALLVEC payload");
        let rec: Value = serde_json::from_str(&js).expect("CALLVEC json");
        let v = Vecr::from_json(&rec["v"]);
        let o = &rec["o"];
        let key = v.name();
        map.entry(key).or_insert_with(|| (v, BTreeSet::new())).1.insert((o["kind"].as_str().unwrap().to_string(), o["id"].as_i64().unwrap(), o["errclass"].as_str().unwrap().to_string()));
    }
    map.into_values().collect()
}

async fn gai_rows() -> Vec<Vecr> {
    // what getaddrinfo really answers for "localhost" here decides the scenario
    let ans: Vec<SocketAddr> = tokio::task::spawn_blocking(|| {
        use std::net::ToSocketAddrs;
        ("localhost", 0).to_socket_addrs().map(|i| i.collect::<Vec<_>>()).unwrap_or_default()
    })
    .await
    .unwrap_or_default();
    let mut fams: Vec<i64> = vec![];
    for a in ans {
        let f = if a.is_ipv4() { 4 } else { 6 };
        let lo = match a.ip() { IpAddr::V4(x) => x == Ipv4Addr::LOCALHOST, IpAddr::V6(x) => x == Ipv6Addr::LOCALHOST };
        if lo && !fams.contains(&f) {
            fams.push(f);
        }
    }
    if fams.is_empty() {
        return vec![];
    }
    let n = fams.len();
    let pad = |mut x: Vec<i64>| { x.resize(3, 4); x };
    let mut oc: Vec<String> = vec!["ok".into(); n];
    oc.resize(3, "never".into());
    ["tcp", "simple"].iter().map(|t| Vecr { transport: t.to_string(), scheme: "http".into(), host: "dns".into(), port: "explicit".into(), res: "list".into(), rlat: 0,
        n, fam: pad(fams.clone()), oc: oc.clone(), lat: vec![0, 0, 0], bind: "none".into(), ct: 8, he: if *t == "tcp" { 6 } else { NONE }, conc: if *t == "tcp" { 1 } else { NONE }, drop_t: NONE, api: "gai".into() }).collect()
}

fn main() {
    let args: Vec<String> = std::env::args().collect();
    if args.get(1).map(|s| s.as_str()) != Some("run") {
        eprintln!("usage: tcpcall run --vec <file> --out <file> [--unit ms] [--margin ms] [--conc n] [--seed s] [--max-slow k] [--only replay.json]");
        std::process::exit(2);
    }
    let args = &args[2..];
    let vecp = arg(args, "--vec").expect("--vec");
    let out = arg(args, "--out").expect("--out");
    let unit: i64 = arg(args, "--unit").map(|s| s.parse().unwrap()).unwrap_or(300);
    let margin: i64 = arg(args, "--margin").map(|s| s.parse().unwrap()).unwrap_or(450);
    let conc: usize = arg(args, "--conc").map(|s| s.parse().unwrap()).unwrap_or(256);
    let seed: u64 = arg(args, "--seed").map(|s| s.parse().unwrap()).unwrap_or(1);
    let max_slow: usize = arg(args, "--max-slow").map(|s| s.parse().unwrap()).unwrap_or(usize::MAX);
    let only: Option<BTreeSet<String>> = arg(args, "--only").map(|p| {
        let doc: Value = serde_json::from_str(&std::fs::read_to_string(&p).unwrap()).expect("replay json");
        let root = if doc.get("replay").is_some() { doc["replay"].clone() } else { doc };
        root["records"].as_array().map(|a| a.iter().filter_map(|r| r["name"].as_str().map(|s| s.to_string())).collect()).unwrap_or_default()
    });
    std::panic::set_hook(Box::new(|info| {
        PANICS.fetch_add(1, Ordering::SeqCst);
        eprintln!("panic in the code under test: {info}");
    }));
    let rt = tokio::runtime::Builder::new_multi_thread().worker_threads(4).enable_all().build().unwrap();
    rt.block_on(async move {
        let env = probe_env().await;
        let mut rows: Vec<(Vecr, Option<Allowed>)> = read_vec(&vecp).into_iter().map(|(v, a)| (v, Some(a))).collect();
        // lists of length one also through connect_to_addrs (same candidates, no resolver stage)
        let extra: Vec<(Vecr, Option<Allowed>)> = rows
            .iter()
            .filter(|(v, _)| v.transport == "tcp" && v.res == "list" && v.n == 1 && v.rlat == 0 && v.drop_t == NONE && v.host == "dns" && v.scheme == "http" && v.port == "explicit")
            .map(|(v, a)| { let mut w = v.clone(); w.api = "addrs".into(); (w, a.clone()) })
            .collect();
        rows.extend(extra);
        for g in gai_rows().await {
            rows.push((g, None));
        }
        if let Some(only) = &only {
            rows.retain(|(v, _)| only.contains(&v.name()));
        }
        // slow rows first; a cap on slow rows (thorough tier) keeps a seeded sample
        let mut rng = rand::rngs::StdRng::seed_from_u64(seed);
        // vectors that can never be scripted are counted and left out before anything is sampled
        let mut skipped: BTreeMap<String, usize> = BTreeMap::new();
        rows.retain(|(v, _)| match v.not_realizable() {
            Some(why) => {
                *skipped.entry(format!("not_realizable: {why}")).or_default() += 1;
                false
            }
            None => true,
        });
        let (mut slow, fast): (Vec<_>, Vec<_>) = rows.into_iter().partition(|(v, _)| v.slow());
        let slow_total = slow.len();
        if slow.len() > max_slow {
            slow.sort_by_key(|(v, _)| v.name());
            slow.shuffle(&mut rng);
            slow.truncate(max_slow);
        }
        slow.sort_by_key(|(v, _)| v.name());
        let slow_run = slow.len();
        let mut fast = fast;
        fast.sort_by_key(|(v, _)| v.name());
        let all: Vec<(Vecr, Option<Allowed>)> = slow.into_iter().chain(fast).collect();
        let total = all.len() + skipped.values().sum::<usize>();
        let t_all = Instant::now();
        let run_batch = |all: Vec<(Vecr, Option<Allowed>)>, conc: usize| async move {
            let sem = Arc::new(tokio::sync::Semaphore::new(conc));
            let mut handles = vec![];
            for (k, (v, a)) in all.into_iter().enumerate() {
                let sem = sem.clone();
                let name = v.name();
                handles.push((name, tokio::spawn(async move {
                    let _p = sem.acquire_owned().await.unwrap();
                    run_row(env, v, k, unit, margin, a, k + 1).await
                })));
            }
            let mut outs = vec![];
            for (name, h) in handles {
                outs.push((name, h.await));
            }
            outs
        };
        let mut outs = run_batch(all.clone(), conc).await;
        let mut sequential_rerun = false;
        if PANICS.load(Ordering::SeqCst) > 0 {
            // attribute panics of spawned tasks: run every row again, one at a time
            sequential_rerun = true;
            outs = vec![];
            for (k, (v, a)) in all.clone().into_iter().enumerate() {
                let before = PANICS.load(Ordering::SeqCst);
                let name = v.name();
                let r = tokio::spawn(run_row(env, v, k, unit, margin, a, k + 1)).await;
                let delta = PANICS.load(Ordering::SeqCst) - before;
                let r = r.map(|r| r.map(|mut ro| {
                    let caller = if ro.rec["o"]["kind"] == json!("panic") { 1 } else { 0 };
                    ro.rec["o"]["taskPanics"] = json!(delta.saturating_sub(caller));
                    ro
                }));
                outs.push((name, r));
            }
        }
        let mut w = std::io::BufWriter::new(std::fs::File::create(&out).unwrap());
        let (mut n, mut drift, mut harness_failures) = (0usize, 0usize, 0usize);
        let mut drift_with_drop = 0usize;
        let mut kinds: BTreeMap<String, usize> = BTreeMap::new();
        let mut drift_examples = vec![];
        let mut samples = vec![];
        for (name, r) in outs {
            match r {
                Err(_) => {
                    harness_failures += 1;
                    eprintln!("row task failed: {name}");
                }
                Ok(Err(s)) => {
                    let k = match s {
                        Skip::NeedsV6 => "needs_ipv6_loopback".to_string(),
                        Skip::NeedsPrivilege => "needs_privileged_ports".to_string(),
                        Skip::NeedsSilent => "needs_silent_port".to_string(),
                        Skip::NotRealizable(m) => format!("not_realizable: {m}"),
                        Skip::Environment(m) => format!("environment: {m}"),
                    };
                    *skipped.entry(k).or_default() += 1;
                }
                Ok(Ok(mut ro)) => {
                    n += 1;
                    ro.rec["sid"] = json!(n);
                    *kinds.entry(ro.rec["o"]["kind"].as_str().unwrap().to_string()).or_default() += 1;
                    if !ro.conform {
                        drift += 1;
                        if ro.rec["v"]["dropT"] != json!(NONE) {
                            drift_with_drop += 1;
                        }
                        if drift_examples.len() < 5 {
                            drift_examples.push(json!({"name": ro.rec["name"], "o": ro.rec["o"], "msg": ro.rec["msg"]}));
                        }
                    }
                    if samples.len() < 4 && (n % 397 == 1) {
                        samples.push(json!({"name": ro.rec["name"], "uri": ro.rec["uri"], "o": ro.rec["o"]}));
                    }
                    serde_json::to_writer(&mut w, &ro.rec).unwrap();
                    w.write_all(b"\n").unwrap();
                }
            }
        }
        w.flush().unwrap();
        println!("{}", json!({"rows": total, "records": n, "slow_rows_total": slow_total, "slow_rows_run": slow_run, "skipped": skipped, "harness_failures": harness_failures,
            "drift": drift, "drift_in_rows_with_a_caller_drop": drift_with_drop, "drift_examples": drift_examples, "kinds": kinds, "samples": samples, "unit_ms": unit, "margin_ms": margin, "concurrency": conc,
            "ipv6_loopback": env.v6, "privileged_ports": env.privileged, "silent_port_trick": env.silent, "panics_seen": PANICS.load(Ordering::SeqCst),
            "sequential_rerun": sequential_rerun, "wall_ms": t_all.elapsed().as_millis() as u64}));
        if harness_failures > 0 {
            std::process::exit(3);
        }
    });
}
