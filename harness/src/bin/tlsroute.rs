//! C12 driver: every TlsRoute vector on the real `TlsTransport` (and on the `Client` built by the builder's
//! wiring) over an in-memory transport against a raw peer.
//!
//!   tlsroute run <vectors.json> <certdir> <out.ndjson> <seed> <nspell>
//!
//! `vectors.json` is the list TLC printed from `TlsRoute_gen.cfg` (each with the model's expected outcome).
//! One ndjson record per (vector, spelling): {"e":"Vec","id":..,"v":{..},"sp":{..},"exp":{..},"obs":{..}}.
//! Panics of the code under test are data (obs.result = "panic").

#[path = "../tls_common.rs"]
mod common;

use std::collections::HashMap;
use std::sync::{Arc, Mutex};
use std::time::Duration;

use common::*;
use hyperdriver::client::conn::protocol::auto::HttpConnectionBuilder;
use hyperdriver::client::conn::transport::{TlsTransport, TransportExt};
use hyperdriver::info::HasTlsConnectionInfo;
use rand::{Rng, SeedableRng};
use serde_json::{json, Value};
use tokio::io::{AsyncReadExt, AsyncWriteExt};

fn s<'a>(v: &'a Value, k: &str) -> &'a str {
    v.get(k).and_then(|x| x.as_str()).unwrap_or_else(|| panic!("vector field {k} missing in {v}"))
}

/// One concrete spelling of the abstract vector.
struct Spelling {
    uri: String,
    host: String,
    /// the lower-case DNS name the peer must see as SNI; "" for IP literals (RFC 6066 forbids them in SNI: the
    /// ClientHello must carry no server_name) and for hosts outside the three named forms
    host_name: String,
    /// the name the certificate must be checked against ("dns:<lower-case name>" / "ip:<canonical address>" / "any")
    exp_verify: String,
    host_header: String,
    /// host + port exactly as in the URI: the previous request of a history goes to the same authority
    authority: String,
    scheme_sp: String,
    wiring: String,
    trunc: usize,
}

const NAME_SP: &[(&str, &str)] = &[
    ("verif.test", "verif.test"),
    ("VERIF.Test", "verif.test"),
    ("sub.verif.test", "sub.verif.test"),
    ("user:pw@verif.test", "verif.test"),
];
const V4_SP: &[(&str, &str)] = &[("127.0.0.1", "127.0.0.1"), ("10.0.0.7", "10.0.0.7"), ("u@127.0.0.1", "127.0.0.1")];
const V6_SP: &[(&str, &str)] = &[
    ("[::1]", "::1"),
    ("[0:0:0:0:0:0:0:1]", "::1"),
    ("[2001:DB8::7]", "2001:db8::7"),
    ("[::ffff:127.0.0.1]", "::ffff:127.0.0.1"),
];
fn odd_sp() -> Vec<String> {
    vec![
        "a!b.test".to_string(),
        "".to_string(),
        format!("{}.test", "a".repeat(64)),
        "a..b".to_string(),
        "127.1".to_string(),
        "[v1.x]".to_string(),
        "a,b;c=d".to_string(),
    ]
}

fn scheme_spellings(class: &str, scase: &str) -> Vec<&'static str> {
    match (class, scase) {
        ("http", "lower") => vec!["http"],
        ("http", _) => vec!["HTTP", "Http", "hTTp"],
        ("https", "lower") => vec!["https"],
        ("https", _) => vec!["HTTPS", "Https", "httpS"],
        ("ws", "lower") => vec!["ws"],
        ("ws", _) => vec!["WS", "Ws"],
        ("wss", "lower") => vec!["wss"],
        ("wss", _) => vec!["WSS", "Wss", "wsS"],
        (_, "lower") => vec!["grpc", "foo+bar", "h2c", "httpss", "ftp"],
        _ => vec!["GRPC", "Foo+Bar", "H2C", "HTTPSS", "wssX"],
    }
}

fn spell(v: &Value, sp: usize, rng: &mut rand::rngs::StdRng) -> Spelling {
    // spelling 0 is the canonical one; later spellings rotate through the tables (seeded offsets)
    let pick = |n: usize, rng: &mut rand::rngs::StdRng| if sp == 0 { 0 } else { (sp + rng.gen_range(0..n)) % n };
    let (host, host_name, exp_verify) = match s(v, "host") {
        "name" => {
            let (h, n) = NAME_SP[pick(NAME_SP.len(), rng)];
            (h.to_string(), n.to_string(), format!("dns:{n}"))
        }
        "v4" => {
            let (h, n) = V4_SP[pick(V4_SP.len(), rng)];
            (h.to_string(), String::new(), format!("ip:{n}"))
        }
        "v6" => {
            let (h, n) = V6_SP[pick(V6_SP.len(), rng)];
            (h.to_string(), String::new(), format!("ip:{n}"))
        }
        _ => {
            let o = odd_sp();
            let h = o[pick(o.len(), rng)].clone();
            (h, String::new(), "any".to_string())
        }
    };
    let schemes = scheme_spellings(s(v, "scheme"), s(v, "scase"));
    let scheme_sp = schemes[pick(schemes.len(), rng)].to_string();
    let secure = matches!(s(v, "scheme"), "https" | "wss");
    let port = match s(v, "port") {
        "absent" => String::new(),
        "default" => {
            if sp > 0 && rng.gen_bool(0.3) {
                ":".to_string() // empty port: "host:"
            } else if secure {
                ":443".to_string()
            } else {
                ":80".to_string()
            }
        }
        _ => [":8443", ":1", ":65535", ":0"][pick(4, rng)].to_string(),
    };
    let path = ["/", "/p?q=1", ""][pick(3, rng)];
    let uri = format!("{scheme_sp}://{host}{port}{path}");
    let authority = format!("{host}{port}");
    // a Host header naming somebody else: the server name must come from the URI, not from here
    let host_header = ["decoy.test", "", "verif.test"][if sp == 0 { 0 } else { rng.gen_range(0..3) }].to_string();
    let wiring = ["new+with_tls", "ext.with_tls", "ext.with_optional_tls"][pick(3, rng)].to_string();
    let trunc = [40usize, 1, 5, 200, 700][pick(5, rng)];
    Spelling { uri, host, host_name, exp_verify, host_header, authority, scheme_sp, wiring, trunc }
}

fn calpn(v: &Value) -> Vec<&'static str> {
    match s(v, "calpn") {
        "none" => vec![],
        "h2" => vec!["h2"],
        _ => vec!["h2", "http/1.1"],
    }
}
fn salpn(v: &Value) -> Vec<&'static str> {
    match s(v, "salpn") {
        "none" => vec![],
        "h1" => vec!["http/1.1"],
        _ => vec!["h2", "http/1.1"],
    }
}

struct Ctx {
    certs: Certs,
    scache: HashMap<String, Arc<rustls::ServerConfig>>,
}

impl Ctx {
    fn server_cfg(&mut self, v: &Value) -> Arc<rustls::ServerConfig> {
        let key = format!("{}|{}", s(v, "cert"), s(v, "salpn"));
        if let Some(c) = self.scache.get(&key) {
            return c.clone();
        }
        let c = self.certs.server_config(s(v, "cert"), &salpn(v));
        self.scache.insert(key, c.clone());
        c
    }
}

/// The client under test, configured through `client::Builder` in the call order the vector names. `TLS` is
/// `with_tls(config)` when the vector says a TLS configuration is present and `without_tls()` otherwise: whatever
/// else is called in between, the state at `build()` must be the last one set.
fn build_client(wiring: &str, tls_on: bool, ccfg: rustls::ClientConfig, mem: MemTransport, spx: usize) -> hyperdriver::Client {
    use hyperdriver::client::conn::transport::tcp::TcpTransportConfig;
    let proto = HttpConnectionBuilder::<hyperdriver::Body>::default;
    macro_rules! tls {
        ($b:expr) => {
            if tls_on { $b.with_tls(ccfg.clone()) } else { $b.without_tls() }
        };
    }
    match wiring {
        "transport-then-tls" => {
            let b = hyperdriver::Client::builder().with_protocol(proto()).with_transport(mem).with_default_pool();
            tls!(b).build()
        }
        "tls-then-transport" => {
            let b = hyperdriver::Client::builder().with_protocol(proto()).with_default_pool();
            tls!(b).with_transport(mem).build()
        }
        "tls-then-protocol" => {
            let b = hyperdriver::Client::builder().with_transport(mem).with_default_pool();
            if spx % 2 == 0 {
                tls!(b).with_protocol(proto()).build()
            } else {
                tls!(b).with_auto_http().build()
            }
        }
        "tls-then-tcp-transport" => {
            let b = hyperdriver::Client::builder().with_protocol(proto()).with_default_pool();
            tls!(b).with_tcp(TcpTransportConfig::default()).with_transport(mem).build()
        }
        "tls-then-redirect" => {
            let b = hyperdriver::Client::builder().with_protocol(proto()).with_transport(mem).with_default_pool();
            // (with_redirect_policy needs a tower-http policy type, which the harness crate cannot name)
            if spx % 2 == 0 {
                tls!(b).with_standard_redirect_policy().build()
            } else {
                tls!(b).without_redirects().build()
            }
        }
        "tls-then-body-layer" => {
            let b = hyperdriver::Client::builder().with_protocol(proto()).with_transport(mem).with_default_pool();
            tls!(b)
                .with_body::<hyperdriver::Body, hyperdriver::Body>()
                .layer(tower::layer::util::Identity::new())
                .build()
        }
        "tls-then-mutators" => {
            let b = hyperdriver::Client::builder().with_protocol(proto()).with_transport(mem);
            let b = tls!(b)
                .with_pool(hyperdriver::client::PoolConfig::default())
                .with_timeout(Duration::from_secs(20))
                .with_user_agent("verif/0".to_string());
            let b = if spx % 2 == 0 { b.without_timeout() } else { b.with_optional_timeout(Some(Duration::from_secs(25))).without_pool().with_default_pool() };
            b.build()
        }
        "default-then-transport" => {
            // the default builder comes with a TLS configuration (platform roots): replacing the transport must keep it
            let b = hyperdriver::Client::build_tcp_http();
            if tls_on {
                b.with_transport(mem).build()
            } else {
                b.without_tls().with_transport(mem).build()
            }
        }
        "tls-reset" => {
            let b = hyperdriver::Client::builder().with_protocol(proto()).with_transport(mem).with_default_pool();
            if tls_on {
                if spx % 2 == 0 { b.without_tls().with_tls(ccfg).build() } else { b.with_default_tls().with_tls(ccfg).build() }
            } else {
                b.with_tls(ccfg).without_tls().build()
            }
        }
        "accessor-then-transport" => {
            let mut b = hyperdriver::Client::builder().with_protocol(proto()).with_default_pool();
            *b.tls() = if tls_on { Some(ccfg) } else { None };
            b.with_transport(mem).build()
        }
        w => panic!("unknown wiring {w}"),
    }
}

fn err_kind<E: std::fmt::Debug + std::fmt::Display>(e: &E) -> (String, String) {
    let d = format!("{e:?}");
    let kind = d.split(|c: char| !c.is_alphanumeric()).next().unwrap_or("").to_string();
    (kind, format!("{e}"))
}

fn run_vector(ctx: &mut Ctx, id: usize, v: &Value, spx: usize, seed: u64) -> Value {
    let mut rng = rand::rngs::StdRng::seed_from_u64(seed ^ ((id as u64) << 8) ^ (spx as u64).wrapping_mul(0x9E37_79B9));
    let sp = spell(v, spx, &mut rng);
    let marker = format!("MARKER-{id}-{spx}-c12verif");
    let fault = match s(v, "fault") {
        "none" => Fault::None,
        "peerCloses" => Fault::PeerCloses,
        "peerPlaintext" => Fault::PeerPlaintext,
        _ => Fault::Truncated(sp.trunc),
    };
    let via = s(v, "via").to_string();
    let scfg = ctx.server_cfg(v);
    let (ccfg, asked) = ctx.certs.client_config(&calpn(v));
    let tls_on = s(v, "wrapper") == "tls";
    let wiring_v = v.get("wiring").and_then(|x| x.as_str()).unwrap_or("transport-then-tls").to_string();
    let prev = v.get("prev").and_then(|x| x.as_str()).unwrap_or("none").to_string();
    let hist = v.get("hist").and_then(|x| x.as_str()).unwrap_or("idle").to_string();
    let prev_marker = format!("PREV-{id}-{spx}-c12verif");
    let prev_result = Arc::new(Mutex::new(String::new()));
    let conns_before = Arc::new(Mutex::new(0usize));
    let asked_before = Arc::new(Mutex::new(0usize));
    let log: PeerLog = Arc::new(Mutex::new(Vec::new()));

    let _ = take_panics();
    let rt = tokio::runtime::Builder::new_current_thread().enable_all().start_paused(true).build().expect("runtime");

    let mut obs = json!({});
    let uri_parse: Result<http::Uri, _> = sp.uri.parse::<http::Uri>();
    let outcome = std::panic::catch_unwind(std::panic::AssertUnwindSafe(|| {
        rt.block_on(async {
            let (mem, rx) = MemTransport::new();
            let app = if via == "client" { App::Http } else { App::Echo };
            let peer = tokio::spawn(run_peer(rx, PeerCfg { tls: Some(scfg.clone()), fault, app }, log.clone()));
            let uri = match &uri_parse {
                Ok(u) => u.clone(),
                Err(e) => return json!({"result": "skip", "errKind": "UriParse", "errMsg": e.to_string()}),
            };
            let mut rb = http::Request::builder().method("GET").uri(uri.clone());
            if !sp.host_header.is_empty() {
                rb = rb.header("host", sp.host_header.as_str());
            }
            let res: Value;
            if via == "transport" {
                let transport: TlsTransport<MemTransport> = if tls_on {
                    match sp.wiring.as_str() {
                        "new+with_tls" => TlsTransport::new(mem).with_tls(Arc::new(ccfg)),
                        "ext.with_tls" => mem.with_tls(Arc::new(ccfg)),
                        _ => mem.with_optional_tls(Some(Arc::new(ccfg))),
                    }
                } else {
                    match sp.wiring.as_str() {
                        "new+with_tls" => TlsTransport::new(mem),
                        "ext.with_tls" => mem.without_tls(),
                        _ => mem.with_optional_tls(None),
                    }
                };
                let (parts, _) = rb.body(()).expect("request").into_parts();
                let marker_b = marker.clone().into_bytes();
                let fut = async move {
                    let mut stream = tower::ServiceExt::oneshot(transport, parts).await?;
                    let client_tls = stream.tls_info().is_some();
                    let alpn = stream.tls_info().and_then(|t| t.alpn.as_ref().map(|a| format!("{a:?}")));
                    // use the stream: the marker must arrive at the peer, and only inside TLS when TLS is due
                    let mut echoed = false;
                    let io_res: std::io::Result<()> = async {
                        stream.write_all(&marker_b).await?;
                        stream.flush().await?;
                        let mut back = vec![0u8; marker_b.len()];
                        stream.read_exact(&mut back).await?;
                        echoed = back == marker_b;
                        stream.shutdown().await?;
                        Ok(())
                    }
                    .await;
                    Ok::<_, hyperdriver::client::conn::transport::TlsConnectionError<std::io::Error>>((
                        client_tls,
                        alpn,
                        echoed,
                        io_res.err().map(|e| e.to_string()),
                    ))
                };
                res = match tokio::time::timeout(Duration::from_secs(5), guarded(fut)).await {
                    Err(_) => json!({"result": "hang"}),
                    Ok(Err(())) => json!({"result": "panic"}),
                    Ok(Ok(Err(e))) => {
                        let (k, m) = err_kind(&e);
                        json!({"result": "error", "errKind": k, "errMsg": m})
                    }
                    Ok(Ok(Ok((client_tls, alpn, echoed, ioerr)))) => {
                        json!({"result": "ok", "clientTls": if client_tls {"yes"} else {"no"}, "clientAlpn": alpn.unwrap_or_default(), "echoed": echoed, "ioErr": ioerr.unwrap_or_default()})
                    }
                };
            } else {
                let mut client = build_client(&wiring_v, tls_on, ccfg, mem, spx);
                let h2 = hist == "inflight";
                let rb = if h2 { rb.version(http::Version::HTTP_2) } else { rb };
                // the marker travels in the request head; the path keeps the spelling's path
                let req = rb.header("x-marker", marker.as_str()).body(hyperdriver::Body::from(marker.clone())).expect("request");
                // HISTORY: a previous request to the same authority on the same pooled client
                let mut prev_task = None;
                if prev != "none" {
                    let puri = format!("{prev}://{}/{}", sp.authority, if h2 { "hold-prev" } else { "prev" });
                    let mut pb = http::Request::builder().method("GET").uri(puri.as_str()).header("x-marker", prev_marker.as_str());
                    if h2 {
                        pb = pb.version(http::Version::HTTP_2);
                    }
                    let preq = pb.body(hyperdriver::Body::empty()).expect("previous request");
                    let pfut = client.request(preq);
                    let run_prev = async move {
                        match guarded(async move {
                            let resp = pfut.await?;
                            use http_body_util::BodyExt;
                            let _ = resp.into_body().collect().await;
                            Ok::<_, hyperdriver::client::Error>(())
                        })
                        .await
                        {
                            Ok(Ok(())) => "ok".to_string(),
                            Ok(Err(e)) => format!("error: {e}"),
                            Err(()) => "panic".to_string(),
                        }
                    };
                    if h2 {
                        // still in flight when the request under test is issued: the peer holds `/hold-` requests for
                        // one second of (paused) time, which only passes when everything else is idle
                        prev_task = Some(tokio::spawn(run_prev));
                        tokio::time::sleep(Duration::from_millis(1)).await;
                    } else {
                        // completed and fully read; settling lets the connection go back to the pool as idle
                        let r = tokio::time::timeout(Duration::from_secs(5), run_prev).await.unwrap_or_else(|_| "hang".to_string());
                        *prev_result.lock().unwrap() = r;
                        tokio::time::sleep(Duration::from_millis(1)).await;
                    }
                    *conns_before.lock().unwrap() = log.lock().unwrap().len();
                    *asked_before.lock().unwrap() = asked.lock().unwrap().len();
                }
                let prev_result2 = prev_result.clone();
                let fut = async move {
                    let resp = client.request(req).await?;
                    let status = resp.status().as_u16();
                    let ver = format!("{:?}", resp.version());
                    use http_body_util::BodyExt;
                    let body = resp.into_body().collect().await.map(|c| c.to_bytes().len()).unwrap_or(0);
                    if let Some(t) = prev_task {
                        let r = match tokio::time::timeout(Duration::from_secs(5), t).await {
                            Ok(Ok(r)) => r,
                            Ok(Err(_)) => "panic".to_string(),
                            Err(_) => "hang".to_string(),
                        };
                        *prev_result2.lock().unwrap() = r;
                    }
                    drop(client);
                    Ok::<_, hyperdriver::client::Error>((status, ver, body))
                };
                res = match tokio::time::timeout(Duration::from_secs(5), guarded(fut)).await {
                    Err(_) => json!({"result": "hang"}),
                    Ok(Err(())) => json!({"result": "panic"}),
                    Ok(Ok(Err(e))) => {
                        let (k, m) = err_kind(&e);
                        let mut src = String::new();
                        let mut cur: Option<&(dyn std::error::Error + 'static)> = std::error::Error::source(&e);
                        while let Some(c) = cur {
                            src.push_str(&format!(" <- {c}"));
                            cur = c.source();
                        }
                        json!({"result": "error", "errKind": k, "errMsg": format!("{m}{src}")})
                    }
                    Ok(Ok(Ok((status, ver, body)))) => {
                        json!({"result": "ok", "clientTls": "na", "status": status, "respVersion": ver, "bodyLen": body})
                    }
                };
            }
            // let every spawned task (connection drivers, delayed checkouts, the peer) run to quiescence
            tokio::time::sleep(Duration::from_millis(1)).await;
            peer.abort();
            let _ = peer.await;
            tokio::time::sleep(Duration::from_millis(1)).await;
            res
        })
    }));
    drop(rt);
    let panics = take_panics();
    let mut res = match outcome {
        Ok(r) => r,
        Err(_) => json!({"result": "panic", "where": "runtime"}),
    };
    // harness-internal panics are tool errors
    for p in &panics {
        if is_harness_loc(&p.file) {
            eprintln!("harness panic at {}:{}: {}", p.file, p.line, p.msg);
            std::process::exit(3);
        }
    }
    let caller_panicked = res["result"] == "panic";
    if let Some(p) = panics.first() {
        res["panicMsg"] = json!(p.msg);
        res["panicLoc"] = json!(format!("{}:{}", short_loc(&p.file), p.line));
    }
    res["taskPanics"] = json!(if caller_panicked { panics.len().saturating_sub(1) } else { panics.len() });

    // what the peer saw
    let conns = log.lock().unwrap().clone();
    let mb = marker.as_bytes();
    let mut snis: Vec<String> = Vec::new();
    let mut plain_first = false;
    let mut tls_first = false;
    let mut marker_raw = false;
    let mut carrier = "none";
    let mut peer_hs = false;
    let mut peer_err: Vec<String> = Vec::new();
    let mut peer_alpn: Option<String> = None;
    let mut reqs: Vec<String> = Vec::new();
    // the connection that carried the request under test, and whether the previous request travelled on it too
    let carrier_idx = conns.iter().position(|c| contains(&c.app, mb) || c.reqs.iter().any(|r| r.contains(marker.as_str())));
    let shared_prev = prev != "none"
        && carrier_idx.map_or(false, |i| conns[i].reqs.iter().any(|r| r.contains(prev_marker.as_str())));
    let prev_carrier = conns
        .iter()
        .find(|c| c.reqs.iter().any(|r| r.contains(prev_marker.as_str())))
        .map(|c| if c.hs_done { "tls" } else { "plain" })
        .unwrap_or("none");
    let n_before = *conns_before.lock().unwrap();
    for (ci, c) in conns.iter().enumerate() {
        if contains(&c.raw, mb) {
            marker_raw = true;
        }
        // the previous request's own connections count only if the request under test travelled on them
        if ci < n_before && Some(ci) != carrier_idx {
            continue;
        }
        match first_class(&c.first) {
            "plain" => plain_first = true,
            "tls" => tls_first = true,
            _ => {}
        }
        if let Some(sni) = &c.sni {
            let n = sni.clone().map(|x| x.to_ascii_lowercase()).unwrap_or_else(|| "absent".to_string());
            if !snis.contains(&n) {
                snis.push(n);
            }
        }
        if contains(&c.app, mb) || c.reqs.iter().any(|r| r.contains(marker.as_str())) {
            carrier = if c.hs_done { "tls" } else { "plain" };
        }
        peer_hs |= c.hs_done;
        if let Some(e) = &c.hs_err {
            peer_err.push(e.clone());
        }
        if c.alpn.is_some() {
            peer_alpn = c.alpn.clone();
        }
        reqs.extend(c.reqs.iter().cloned());
    }
    let mut verified: Vec<String> = Vec::new();
    // names checked for the previous request's connection count only if the request under test travelled on it
    let skip = if shared_prev { 0 } else { *asked_before.lock().unwrap() };
    for a in asked.lock().unwrap().iter().skip(skip) {
        let a = a.to_ascii_lowercase();
        if !verified.contains(&a) {
            verified.push(a);
        }
    }
    obs["result"] = res["result"].clone();
    for k in ["errKind", "errMsg", "clientTls", "clientAlpn", "echoed", "ioErr", "status", "respVersion", "panicMsg", "panicLoc", "taskPanics", "where"] {
        if !res[k].is_null() {
            obs[k] = res[k].clone();
        }
    }
    if obs["clientTls"].is_null() {
        obs["clientTls"] = json!("na");
    }
    if obs["errKind"].is_null() {
        obs["errKind"] = json!("");
    }
    obs["conns"] = json!(conns.len());
    obs["first"] = json!(conns.first().map(|c| first_class(&c.first)).unwrap_or("none"));
    obs["firstHex"] = json!(conns.first().map(|c| c.first.iter().take(6).map(|b| format!("{b:02x}")).collect::<String>()).unwrap_or_default());
    obs["plainFirst"] = json!(plain_first);
    obs["tlsFirst"] = json!(tls_first);
    obs["markerRaw"] = json!(marker_raw);
    obs["sharedPrev"] = json!(shared_prev);
    obs["prevResult"] = json!(if prev == "none" { "none".to_string() } else { prev_result.lock().unwrap().clone() });
    obs["prevCarrier"] = json!(prev_carrier);
    obs["connsBefore"] = json!(n_before);
    obs["carrier"] = json!(carrier);
    obs["snis"] = json!(snis);
    obs["verified"] = json!(verified);
    obs["peerHs"] = json!(peer_hs);
    obs["peerErr"] = json!(peer_err);
    if let Some(a) = peer_alpn {
        obs["peerAlpn"] = json!(a);
    }
    obs["reqs"] = json!(reqs);
    // outcome class in the vocabulary of the model
    let class = match obs["result"].as_str().unwrap_or("") {
        "ok" => match carrier {
            "tls" => "tls-stream",
            "plain" => "plain-stream",
            _ => "stream-unused",
        },
        "error" => "error",
        "panic" => "panic",
        "hang" => "hang",
        _ => "skip",
    };
    obs["class"] = json!(if class != "panic" && obs["taskPanics"].as_u64().unwrap_or(0) > 0 { "task-panic" } else { class });

    json!({
        "e": "Vec", "id": id, "spx": spx, "v": v_without_exp(v),
        "sp": {"uri": sp.uri, "host": sp.host, "hostName": sp.host_name, "expVerify": sp.exp_verify, "hostHeader": sp.host_header,
               "schemeSp": sp.scheme_sp, "authority": sp.authority, "wiring": sp.wiring, "trunc": sp.trunc, "marker": marker},
        "exp": v.get("exp").cloned().unwrap_or(json!({})),
        "expAsBuilt": v.get("expAsBuilt").cloned().unwrap_or(json!({})),
        "obs": obs,
    })
}

fn v_without_exp(v: &Value) -> Value {
    let mut m = v.as_object().cloned().unwrap_or_default();
    m.remove("exp");
    m.remove("expAsBuilt");
    m.remove("id");
    m.remove("spx");
    Value::Object(m)
}

fn main() {
    let args: Vec<String> = std::env::args().collect();
    if args.len() < 7 || args[1] != "run" {
        eprintln!("usage: tlsroute run <vectors.json> <certdir> <out.ndjson> <seed> <nspell>");
        std::process::exit(2);
    }
    let vectors: Vec<Value> = serde_json::from_str(&std::fs::read_to_string(&args[2]).expect("read vectors")).expect("vectors json");
    let certdir = args[3].clone();
    let seed: u64 = args[5].parse().expect("seed");
    let nspell: usize = args[6].parse().expect("nspell");
    install_crypto();
    install_panic_hook();
    let mut ctx = Ctx { certs: Certs { dir: certdir }, scache: HashMap::new() };
    let mut out = vh::trace::TraceOut::create(&args[4]);
    let mut n = 0usize;
    // the default builder loads the platform's root certificates and panics without them: such a machine cannot
    // run the default-builder wiring (reported, not a verdict)
    let default_tls_ok = std::panic::catch_unwind(|| hyperdriver::client::default_tls_config()).is_ok();
    let _ = take_panics();
    let mut skipped_default = 0usize;
    for (i, v) in vectors.iter().enumerate() {
        let id = v.get("id").and_then(|x| x.as_u64()).map(|x| x as usize).unwrap_or(i + 1);
        // a replay object pins the spelling index
        let sps: Vec<usize> = match v.get("spx").and_then(|x| x.as_u64()) {
            Some(x) => vec![x as usize],
            None => (0..nspell).collect(),
        };
        if !default_tls_ok && v.get("wiring").and_then(|x| x.as_str()) == Some("default-then-transport") {
            skipped_default += 1;
            continue;
        }
        for spx in sps {
            let rec = run_vector(&mut ctx, id, v, spx, seed);
            if rec["obs"]["result"] == "skip" {
                continue;
            }
            out.emit(&rec);
            n += 1;
        }
    }
    out.finish();
    println!("{}", json!({"records": n, "vectors": vectors.len(), "skippedDefaultBuilder": skipped_default}));
}
