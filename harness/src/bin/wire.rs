//! C13 driver: the request put on the wire matches the connection's protocol.
//!
//!   wire gen   <vectors.ndjson> <out.ndjson> <seed> <spellings>
//!   wire rerun <records.ndjson> <out.ndjson>
//!
//! Input lines (from TLC, Wire_gen_*.cfg): {"v":{kind:"req"|"sel",...}[,"alpn":...]}.
//!  * kind "req" without "alpn"  -> mode "layers": the public layers SetHostHeaderLayer, Http2ChecksLayer,
//!    Http1ChecksLayer stacked in the order of client/builder.rs around a stub connection that reports a
//!    version; the final http::Request is recorded by the innermost service.
//!  * kind "sel"                 -> mode "sel": a real ConnectionPoolService<FakeTransport, HttpConnectionBuilder>
//!    with the same layers and the real RequestExecutor; the transport hands out an in-memory duplex IO that
//!    reports an ALPN result through the public HasTlsConnectionInfo (no real TLS); a raw peer captures the
//!    first bytes (`PRI * HTTP/2.0` preface or an HTTP/1 request line).
//!  * kind "req" with "alpn"     -> mode "e2e": the whole vector end to end through that same real client
//!    stack; on HTTP/1 the raw peer parses request line + headers from the wire, on HTTP/2 a hyper h2
//!    server behind the captured preface records the request.
//!
//! Output: {"i":n,"v":..,"c":{concrete request},"o":{real observation}}. The harness decides nothing:
//! WireObs.tla (TLC) evaluates the C13 clauses on every record.
use std::convert::Infallible;
use std::io::{BufRead, BufReader};
use std::panic::{catch_unwind, AssertUnwindSafe};
use std::pin::Pin;
use std::sync::{Arc, Mutex};
use std::task::{Context, Poll};
use std::time::Duration;

use bytes::Bytes;
use futures_util::FutureExt;
use http_body_util::Empty;
use hyperdriver::bridge::io::TokioIo;
use hyperdriver::bridge::rt::TokioExecutor;
use hyperdriver::client::conn::protocol::auto::HttpConnectionBuilder;
use hyperdriver::client::conn::Connection;
use hyperdriver::client::pool::{Config, PoolableStream, UriKey};
use hyperdriver::client::ConnectionPoolService;
use hyperdriver::info::{ConnectionInfo, HasConnectionInfo, HasTlsConnectionInfo, Protocol, TlsConnectionInfo};
use hyperdriver::service::{ExecuteRequest, Http1ChecksLayer, Http2ChecksLayer, RequestExecutor, SetHostHeaderLayer};
use rand::rngs::StdRng;
use rand::{Rng, SeedableRng};
use serde_json::{json, Value};
use tokio::io::{AsyncRead, AsyncReadExt, AsyncWrite, AsyncWriteExt, DuplexStream, ReadBuf};
use tower::{Service, ServiceBuilder, ServiceExt};
use vh::trace::TraceOut;

type B = Empty<Bytes>;

const HDRS: &[&str] = &["connection", "keep-alive", "proxy-connection", "transfer-encoding", "upgrade", "te"];
const PREFACE: &[u8] = b"PRI * HTTP/2.0\r\n\r\nSM\r\n\r\n";

fn ver_of(s: &str) -> http::Version {
    match s {
        "1.0" => http::Version::HTTP_10,
        "1.1" => http::Version::HTTP_11,
        "2" => http::Version::HTTP_2,
        o => panic!("bad version {o}"),
    }
}
fn ver_str(v: http::Version) -> String {
    match v {
        http::Version::HTTP_09 => "0.9",
        http::Version::HTTP_10 => "1.0",
        http::Version::HTTP_11 => "1.1",
        http::Version::HTTP_2 => "2",
        http::Version::HTTP_3 => "3",
        _ => "?",
    }
    .to_string()
}

// ------------------------------------------------------------------------------------------------
// observation of a request (from an http::Request or from the wire)
#[derive(Default, Clone, Debug)]
struct Seen {
    method: String,
    target: String,
    ver: String,
    headers: Vec<(String, String)>,
}

impl Seen {
    fn of<T>(req: &http::Request<T>) -> Seen {
        Seen {
            method: req.method().as_str().to_string(),
            // hyper's HTTP/1 encoder writes the request target as `Display` of the Uri
            target: req.uri().to_string(),
            ver: ver_str(req.version()),
            headers: req
                .headers()
                .iter()
                .map(|(n, v)| (n.as_str().to_string(), String::from_utf8_lossy(v.as_bytes()).to_string()))
                .collect(),
        }
    }
    fn obs(&self) -> Value {
        let hosts: Vec<&String> = self.headers.iter().filter(|(n, _)| n == "host").map(|(_, v)| v).collect();
        let mut hdrs: Vec<&str> = HDRS.iter().copied().filter(|h| self.headers.iter().any(|(n, _)| n == h)).collect();
        hdrs.dedup();
        let others: Vec<Value> = self
            .headers
            .iter()
            .filter(|(n, _)| n.starts_with("x-") || n == "accept")
            .map(|(n, v)| json!([n, v]))
            .collect();
        json!({
            "method": self.method, "target": self.target, "target_lc": self.target.to_ascii_lowercase(),
            "ver": self.ver, "hosts": hosts,
            "hosts_lc": hosts.iter().map(|h| h.to_ascii_lowercase()).collect::<Vec<_>>(),
            "hdrs": hdrs, "others": others,
        })
    }
}

fn blank_obs() -> Value {
    json!({"method": "", "target": "", "target_lc": "", "ver": "", "hosts": [], "hosts_lc": [], "hdrs": [], "others": []})
}

fn merge(mut a: Value, b: Value) -> Value {
    for (k, v) in b.as_object().unwrap() {
        a[k] = v.clone();
    }
    a
}

fn build_request(c: &Value) -> http::Request<B> {
    let mut req = http::Request::builder()
        .method(c["method"].as_str().unwrap())
        .uri(c["uri"].as_str().unwrap())
        .version(ver_of(c["ver"].as_str().unwrap()))
        .body(Empty::new())
        .expect("harness builds a valid request");
    for h in c["headers"].as_array().unwrap() {
        req.headers_mut().append(
            http::HeaderName::from_bytes(h[0].as_str().unwrap().as_bytes()).unwrap(),
            http::HeaderValue::from_str(h[1].as_str().unwrap()).unwrap(),
        );
    }
    req
}

fn panic_msg(p: Box<dyn std::any::Any + Send>) -> String {
    p.downcast_ref::<String>()
        .cloned()
        .or_else(|| p.downcast_ref::<&str>().map(|s| s.to_string()))
        .unwrap_or_else(|| "panic".into())
}

// ------------------------------------------------------------------------------------------------
// mode "layers": stub connection + recording innermost service
struct StubConn(http::Version);

impl Connection<B> for StubConn {
    type ResBody = B;
    type Error = Infallible;
    type Future = std::future::Ready<Result<http::Response<B>, Infallible>>;
    fn send_request(&mut self, _: http::Request<B>) -> Self::Future {
        std::future::ready(Ok(http::Response::new(Empty::new())))
    }
    fn poll_ready(&mut self, _: &mut Context<'_>) -> Poll<Result<(), Infallible>> {
        Poll::Ready(Ok(()))
    }
    fn version(&self) -> http::Version {
        self.0
    }
}

#[derive(Clone)]
struct Recorder(Arc<Mutex<Option<Seen>>>);

impl Service<ExecuteRequest<StubConn, B>> for Recorder {
    type Response = http::Response<B>;
    type Error = hyperdriver::client::Error;
    type Future = std::future::Ready<Result<http::Response<B>, hyperdriver::client::Error>>;
    fn poll_ready(&mut self, _: &mut Context<'_>) -> Poll<Result<(), Self::Error>> {
        Poll::Ready(Ok(()))
    }
    fn call(&mut self, req: ExecuteRequest<StubConn, B>) -> Self::Future {
        *self.0.lock().unwrap() = Some(Seen::of(req.request()));
        std::future::ready(Ok(http::Response::new(Empty::new())))
    }
}

fn run_layers(c: &Value) -> Value {
    let seen = Arc::new(Mutex::new(None));
    let rec = Recorder(seen.clone());
    let c2 = c.clone();
    let res = catch_unwind(AssertUnwindSafe(move || {
        let conn = StubConn(if c2["conn"] == "h2" { http::Version::HTTP_2 } else { http::Version::HTTP_11 });
        let req = build_request(&c2);
        // the order of client/builder.rs build_service
        let mut svc = ServiceBuilder::new()
            .layer(SetHostHeaderLayer::new())
            .layer(Http2ChecksLayer::new())
            .layer(Http1ChecksLayer::new())
            .service(rec);
        let waker = futures_util::task::noop_waker();
        let mut cx = Context::from_waker(&waker);
        let _ = Service::<ExecuteRequest<StubConn, B>>::poll_ready(&mut svc, &mut cx);
        svc.call(ExecuteRequest::new(conn, req)).now_or_never()
    }));
    let s = seen.lock().unwrap().clone();
    let (kind, err) = match (&res, &s) {
        (Err(_), _) => ("panicked", String::new()),
        (Ok(None), _) => ("pending", String::new()),
        (Ok(Some(Ok(_))), Some(_)) => ("sent", String::new()),
        (Ok(Some(Ok(_))), None) => ("answered_without_send", String::new()),
        (Ok(Some(Err(e))), None) => ("error", e.to_string()),
        (Ok(Some(Err(e))), Some(_)) => ("error_after_send", e.to_string()),
    };
    let err = if let Err(p) = res { panic_msg(p) } else { err };
    let o = match (kind, s) {
        ("sent", Some(s)) | ("error_after_send", Some(s)) => s.obs(),
        _ => blank_obs(),
    };
    merge(o, json!({"kind": kind, "err": err, "proto": c["conn"]}))
}

// ------------------------------------------------------------------------------------------------
// modes "sel" / "e2e": real client stack over an in-memory IO that reports an ALPN result
struct FakeIo {
    io: DuplexStream,
    tls: Option<TlsConnectionInfo>,
}
impl AsyncRead for FakeIo {
    fn poll_read(mut self: Pin<&mut Self>, cx: &mut Context<'_>, buf: &mut ReadBuf<'_>) -> Poll<std::io::Result<()>> {
        Pin::new(&mut self.io).poll_read(cx, buf)
    }
}
impl AsyncWrite for FakeIo {
    fn poll_write(mut self: Pin<&mut Self>, cx: &mut Context<'_>, buf: &[u8]) -> Poll<std::io::Result<usize>> {
        Pin::new(&mut self.io).poll_write(cx, buf)
    }
    fn poll_flush(mut self: Pin<&mut Self>, cx: &mut Context<'_>) -> Poll<std::io::Result<()>> {
        Pin::new(&mut self.io).poll_flush(cx)
    }
    fn poll_shutdown(mut self: Pin<&mut Self>, cx: &mut Context<'_>) -> Poll<std::io::Result<()>> {
        Pin::new(&mut self.io).poll_shutdown(cx)
    }
}
impl HasConnectionInfo for FakeIo {
    type Addr = String;
    fn info(&self) -> ConnectionInfo<String> {
        ConnectionInfo { local_addr: "harness-client".into(), remote_addr: "harness-peer".into() }
    }
}
impl HasTlsConnectionInfo for FakeIo {
    fn tls_info(&self) -> Option<&TlsConnectionInfo> {
        self.tls.as_ref()
    }
}
impl PoolableStream for FakeIo {
    fn can_share(&self) -> bool {
        self.tls.as_ref().map(|t| t.alpn == Some(Protocol::http(http::Version::HTTP_2))).unwrap_or(false)
    }
}

#[derive(Default, Debug)]
struct PeerRec {
    dials: usize,
    first: Vec<u8>,
    proto: String,
    seen: Option<Seen>,
    requests: usize,
}

#[derive(Clone)]
struct FakeTransport {
    alpn: String,
    rec: Arc<Mutex<PeerRec>>,
    tasks: Arc<Mutex<Vec<tokio::task::JoinHandle<()>>>>,
}

impl Service<http::request::Parts> for FakeTransport {
    type Response = FakeIo;
    type Error = Infallible;
    type Future = std::future::Ready<Result<FakeIo, Infallible>>;
    fn poll_ready(&mut self, _: &mut Context<'_>) -> Poll<Result<(), Infallible>> {
        Poll::Ready(Ok(()))
    }
    fn call(&mut self, _: http::request::Parts) -> Self::Future {
        let (client, server) = tokio::io::duplex(1 << 16);
        self.rec.lock().unwrap().dials += 1;
        let h = tokio::spawn(peer(server, self.rec.clone()));
        self.tasks.lock().unwrap().push(h);
        let tls = match self.alpn.as_str() {
            "notls" => None,
            "noalpn" => Some(TlsConnectionInfo { server_name: None, validated_server_name: false, alpn: None }),
            a => Some(TlsConnectionInfo {
                server_name: None,
                validated_server_name: false,
                alpn: Some(a.parse::<Protocol>().unwrap()),
            }),
        };
        std::future::ready(Ok(FakeIo { io: client, tls }))
    }
}

/// IO that replays bytes already consumed by the raw peer before the rest of the stream.
struct Prefixed {
    prefix: Vec<u8>,
    pos: usize,
    inner: DuplexStream,
}
impl AsyncRead for Prefixed {
    fn poll_read(mut self: Pin<&mut Self>, cx: &mut Context<'_>, buf: &mut ReadBuf<'_>) -> Poll<std::io::Result<()>> {
        if self.pos < self.prefix.len() {
            let n = std::cmp::min(buf.remaining(), self.prefix.len() - self.pos);
            let (a, b) = (self.pos, self.pos + n);
            buf.put_slice(&self.prefix[a..b]);
            self.pos += n;
            return Poll::Ready(Ok(()));
        }
        Pin::new(&mut self.inner).poll_read(cx, buf)
    }
}
impl AsyncWrite for Prefixed {
    fn poll_write(mut self: Pin<&mut Self>, cx: &mut Context<'_>, buf: &[u8]) -> Poll<std::io::Result<usize>> {
        Pin::new(&mut self.inner).poll_write(cx, buf)
    }
    fn poll_flush(mut self: Pin<&mut Self>, cx: &mut Context<'_>) -> Poll<std::io::Result<()>> {
        Pin::new(&mut self.inner).poll_flush(cx)
    }
    fn poll_shutdown(mut self: Pin<&mut Self>, cx: &mut Context<'_>) -> Poll<std::io::Result<()>> {
        Pin::new(&mut self.inner).poll_shutdown(cx)
    }
}

fn parse_h1_head(head: &[u8]) -> Option<Seen> {
    let text = String::from_utf8_lossy(head).to_string();
    let mut lines = text.split("\r\n");
    let rl = lines.next()?;
    // method SP request-target SP HTTP-version (the target contains no SP)
    let mut it = rl.splitn(2, ' ');
    let method = it.next()?.to_string();
    let rest = it.next()?;
    let idx = rest.rfind(' ')?;
    let target = rest[..idx].to_string();
    let ver = rest[idx + 1..].strip_prefix("HTTP/")?.to_string();
    let mut headers = vec![];
    for l in lines {
        if l.is_empty() {
            break;
        }
        let (n, v) = l.split_once(':')?;
        headers.push((n.trim().to_ascii_lowercase(), v.trim().to_string()));
    }
    Some(Seen { method, target, ver, headers })
}

async fn peer(mut s: DuplexStream, rec: Arc<Mutex<PeerRec>>) {
    let mut buf: Vec<u8> = Vec::new();
    let mut tmp = [0u8; 4096];
    loop {
        let n = match s.read(&mut tmp).await {
            Ok(0) | Err(_) => return,
            Ok(n) => n,
        };
        buf.extend_from_slice(&tmp[..n]);
        let m = std::cmp::min(buf.len(), PREFACE.len());
        if buf[..m] == PREFACE[..m] {
            if buf.len() < PREFACE.len() {
                continue;
            }
            {
                let mut r = rec.lock().unwrap();
                if r.first.is_empty() {
                    r.first = buf[..PREFACE.len()].to_vec();
                    r.proto = "h2".into();
                }
            }
            // decode what follows the preface with a real HTTP/2 server
            let rec2 = rec.clone();
            let svc = hyper::service::service_fn(move |req: http::Request<hyper::body::Incoming>| {
                let rec3 = rec2.clone();
                async move {
                    let mut r = rec3.lock().unwrap();
                    r.requests += 1;
                    if r.seen.is_none() {
                        r.seen = Some(Seen::of(&req));
                    }
                    Ok::<_, Infallible>(http::Response::new(Empty::<Bytes>::new()))
                }
            });
            let io = TokioIo::new(Prefixed { prefix: buf, pos: 0, inner: s });
            let _ = hyper::server::conn::http2::Builder::new(TokioExecutor::new()).serve_connection(io, svc).await;
            return;
        }
        // not the HTTP/2 preface: an HTTP/1 request head
        if let Some(end) = buf.windows(4).position(|w| w == b"\r\n\r\n") {
            {
                let mut r = rec.lock().unwrap();
                r.requests += 1;
                if r.first.is_empty() {
                    r.first = buf[..std::cmp::min(buf.len(), 24)].to_vec();
                    let seen = parse_h1_head(&buf[..end + 4]);
                    r.proto = match &seen {
                        Some(s) if s.ver == "1.1" => "h1".into(),
                        Some(s) => format!("h1-http/{}", s.ver),
                        None => "garbage".into(),
                    };
                    r.seen = seen;
                }
            }
            let _ = s.write_all(b"HTTP/1.1 200 OK\r\ncontent-length: 0\r\n\r\n").await;
            let _ = s.flush().await;
            buf.clear();
        }
    }
}

async fn run_e2e(c: &Value) -> Value {
    let rec = Arc::new(Mutex::new(PeerRec::default()));
    let tasks = Arc::new(Mutex::new(Vec::new()));
    let transport = FakeTransport { alpn: c["alpn"].as_str().unwrap().to_string(), rec: rec.clone(), tasks: tasks.clone() };
    let c2 = c.clone();
    let fut = async move {
        // the stack of client/builder.rs below the pool: SetHost -> Http2Checks -> Http1Checks -> RequestExecutor
        let inner = ServiceBuilder::new()
            .layer(SetHostHeaderLayer::new())
            .layer(Http2ChecksLayer::new())
            .layer(Http1ChecksLayer::new())
            .service(RequestExecutor::new());
        let svc: ConnectionPoolService<_, _, _, B, UriKey> =
            ConnectionPoolService::new(transport, HttpConnectionBuilder::<B>::default(), inner, Config::default());
        let req = build_request(&c2);
        tokio::time::timeout(Duration::from_secs(5), svc.oneshot(req)).await
    };
    let res = AssertUnwindSafe(fut).catch_unwind().await;
    // let detached tasks (connection drivers, peer) run to quiescence
    tokio::time::sleep(Duration::from_millis(1)).await;
    for h in tasks.lock().unwrap().drain(..) {
        h.abort();
    }
    let r = rec.lock().unwrap();
    let (kind, err) = match res {
        Err(p) => ("panicked", panic_msg(p)),
        Ok(Err(_)) => ("timeout", String::new()),
        Ok(Ok(Ok(_))) => (if r.seen.is_some() { "sent" } else { "answered_without_send" }, String::new()),
        Ok(Ok(Err(e))) => (if r.seen.is_some() { "error_after_send" } else { "error" }, format!("{e}")),
    };
    let o = match (&r.seen, kind) {
        (Some(s), "sent") | (Some(s), "error_after_send") => s.obs(),
        _ => blank_obs(),
    };
    let proto = if r.proto.is_empty() { "none".to_string() } else { r.proto.clone() };
    merge(
        o,
        json!({"kind": kind, "err": err, "proto": proto, "dials": r.dials, "requests": r.requests,
               "first": String::from_utf8_lossy(&r.first).to_string()}),
    )
}

// ------------------------------------------------------------------------------------------------
// instantiation of abstract vectors
const NAMES: &[&str] = &[
    "example.com", "EXAMPLE.com", "Sub.Domain.Example.ORG", "localhost", "xn--bcher-kva.example", "a", "h-y.p0.test",
    "api.internal.",
];
const V4: &[&str] = &["127.0.0.1", "192.0.2.1", "10.255.0.8", "0.0.0.0"];
const V6: &[&str] = &["[::1]", "[2001:db8::1]", "[2001:DB8:0:0:8:800:200C:417A]", "[::ffff:192.0.2.1]"];
const OTHER_PORTS: &[u16] = &[8080, 8443, 1, 65535, 8000, 81, 444, 3000];
const PATHS: &[&str] = &[
    "/a/b", "/index.html", "/a%20b/c", "/a/./b/../c", "//double//slash/", "/trailing/", "/UPPER/lower",
    "/a;params=1", "/*", "/~user/file.tar.gz", "/a/b/c/d/e/f/g/h/i/j/k/l/m/n/o/p", "/%E2%9C%93", "/a+b,c=d:e@f",
];
const QUERIES: &[&str] = &["x=1", "a=1&b=2", "q=%20%3F", "a=/b?c", "k", "A=B&a=b", "path=/x/y/", "e=", "u=http://o.example/p", ""];
const OTHER_HOSTS: &[&str] = &["other.example.net", "proxy.internal:3128", "Caller.Example", "[::2]:8080", "203.0.113.9"];
const GET_LIKE: &[&str] = &["GET", "HEAD", "DELETE"];
const POST_LIKE: &[&str] = &["POST", "PUT", "PATCH"];
const EXT: &[&str] = &["PURGE", "PROPFIND", "M-SEARCH", "REPORT"];
const OTHER_SCHEMES: &[&str] = &["ftp", "custom", "h2c", "svc+http"];

fn pick<'a, T: Copy>(xs: &'a [T], rng: &mut StdRng) -> T {
    xs[rng.gen_range(0..xs.len())]
}

fn header_value(h: &str, rng: &mut StdRng) -> &'static str {
    match h {
        "connection" => pick(&["keep-alive", "close", "upgrade, te", "Keep-Alive, x-hop"], rng),
        "keep-alive" => pick(&["timeout=5", "timeout=5, max=100"], rng),
        "proxy-connection" => pick(&["keep-alive", "close"], rng),
        "transfer-encoding" => pick(&["chunked", "gzip, chunked"], rng),
        "upgrade" => pick(&["websocket", "h2c", "TLS/1.3, HTTP/1.1"], rng),
        "te" => pick(&["trailers", "gzip", "trailers, deflate;q=0.5"], rng),
        o => panic!("unknown header {o}"),
    }
}

fn instantiate(line: &Value, rng: &mut StdRng) -> Value {
    let v = &line["v"];
    if v["kind"] == "sel" {
        // protocol selection only: a plain request
        let host = pick(NAMES, rng);
        let scheme = if v["alpn"] == "notls" { "http" } else { "https" };
        let path = pick(PATHS, rng);
        return json!({
            "mode": "sel", "alpn": v["alpn"], "conn": "", "method": pick(GET_LIKE, rng),
            "uri": format!("{scheme}://{host}{path}"), "uri_display": "", "ver": v["rv"], "headers": [["accept", "*/*"]],
            "parts": {"host_lc": "", "port": "", "authority": "", "authority_lc": "", "path": "", "query": "",
                      "preset": "", "preset_lc": ""},
        });
    }
    let scheme = match v["scheme"].as_str().unwrap() {
        "other" => pick(OTHER_SCHEMES, rng),
        s => match s {
            "http" => "http",
            "https" => "https",
            "ws" => "ws",
            "wss" => "wss",
            o => panic!("scheme {o}"),
        },
    };
    let secure = scheme == "https" || scheme == "wss";
    let host = match v["host"].as_str().unwrap() {
        "name" => pick(NAMES, rng),
        "v4" => pick(V4, rng),
        "v6" => pick(V6, rng),
        o => panic!("host kind {o}"),
    };
    let port: Option<u16> = match v["port"].as_str().unwrap() {
        "absent" => None,
        "default" => Some(if secure { 443 } else { 80 }),
        "xdefault" => Some(if secure { 80 } else { 443 }),
        "other" => Some(pick(OTHER_PORTS, rng)),
        o => panic!("port class {o}"),
    };
    let authority = match port {
        Some(p) => format!("{host}:{p}"),
        None => host.to_string(),
    };
    let path = match v["path"].as_str().unwrap() {
        "empty" => "",
        "slash" => "/",
        "long" => pick(PATHS, rng),
        o => panic!("path class {o}"),
    };
    let query = if v["query"].as_bool().unwrap() { Some(pick(QUERIES, rng)) } else { None };
    let uri = format!("{scheme}://{authority}{path}{}", query.map(|q| format!("?{q}")).unwrap_or_default());
    let method = match v["method"].as_str().unwrap() {
        "GET" => pick(GET_LIKE, rng),
        "POST" => pick(POST_LIKE, rng),
        "CONNECT" => "CONNECT",
        "EXT" => pick(EXT, rng),
        o => panic!("method class {o}"),
    };
    // the caller-supplied Host: "same" = what the property says would be generated
    let shown = matches!(v["port"].as_str().unwrap(), "xdefault" | "other");
    let preset: Option<String> = match v["preset"].as_str().unwrap() {
        "none" => None,
        "same" => Some(if shown { authority.clone() } else { host.to_string() }),
        "other" => Some(pick(OTHER_HOSTS, rng).to_string()),
        o => panic!("preset {o}"),
    };
    let mut headers: Vec<Value> = vec![json!(["accept", "*/*"])];
    let mut hs: Vec<&str> = v["hdrs"].as_array().unwrap().iter().map(|h| h.as_str().unwrap()).collect();
    // header order as the caller wrote it: seeded shuffle, Host somewhere in between
    for i in (1..hs.len()).rev() {
        hs.swap(i, rng.gen_range(0..=i));
    }
    let host_at = rng.gen_range(0..=hs.len());
    for (i, h) in hs.iter().enumerate() {
        if i == host_at {
            if let Some(p) = &preset {
                headers.push(json!(["host", p]));
            }
        }
        headers.push(json!([h, header_value(h, rng)]));
    }
    if host_at == hs.len() {
        if let Some(p) = &preset {
            headers.push(json!(["host", p]));
        }
    }
    headers.push(json!(["x-request-id", format!("r{}", rng.gen_range(0..1000000))]));
    let mode = if line.get("alpn").map(|a| a.is_string()).unwrap_or(false) { "e2e" } else { "layers" };
    json!({
        "mode": mode, "alpn": line.get("alpn").cloned().unwrap_or(json!("")), "conn": v["conn"],
        "method": method, "uri": uri, "ver": v["rv"], "headers": headers,
        "uri_display": uri.parse::<http::Uri>().map(|u| u.to_string()).unwrap_or_default(),
        "parts": {"host_lc": host.to_ascii_lowercase(), "port": port.map(|p| p.to_string()).unwrap_or_default(),
                  "authority": authority, "authority_lc": authority.to_ascii_lowercase(),
                  "path": path, "query": query.unwrap_or(""),
                  "preset": preset.clone().unwrap_or_default(),
                  "preset_lc": preset.unwrap_or_default().to_ascii_lowercase()},
    })
}

async fn run(c: &Value) -> Value {
    match c["mode"].as_str().unwrap() {
        "layers" => run_layers(c),
        "sel" | "e2e" => run_e2e(c).await,
        o => panic!("mode {o}"),
    }
}

fn read_lines(path: &str) -> impl Iterator<Item = Value> {
    let f = std::fs::File::open(path).unwrap_or_else(|e| panic!("open {path}: {e}"));
    BufReader::new(f)
        .lines()
        .map(|l| l.unwrap())
        .filter(|l| !l.trim().is_empty())
        .map(|l| serde_json::from_str(&l).unwrap_or_else(|e| panic!("bad json line {l}: {e}")))
}

#[tokio::main(flavor = "current_thread", start_paused = true)]
async fn main() {
    let a: Vec<String> = std::env::args().collect();
    if a.len() < 4 {
        eprintln!("usage: wire gen <vectors> <out> <seed> <spellings> | wire rerun <records> <out>");
        std::process::exit(2);
    }
    // panics of the code under test are data; keep stderr quiet
    std::panic::set_hook(Box::new(|_| {}));
    let mut out = TraceOut::create(&a[3]);
    let mut n = 0usize;
    match a[1].as_str() {
        "gen" => {
            let seed: u64 = a[4].parse().unwrap();
            let k: usize = a[5].parse().unwrap();
            let mut rng = StdRng::seed_from_u64(seed ^ 0xC13);
            for line in read_lines(&a[2]) {
                let reps = if line["v"]["kind"] == "sel" { std::cmp::max(k, 8) } else { k };
                for _ in 0..reps {
                    let c = instantiate(&line, &mut rng);
                    let o = run(&c).await;
                    n += 1;
                    out.emit(&json!({"i": n, "v": line["v"], "c": c, "o": o}));
                }
            }
        }
        "rerun" => {
            for r in read_lines(&a[2]) {
                let o = run(&r["c"]).await;
                n += 1;
                out.emit(&json!({"i": n, "v": r["v"], "c": r["c"], "o": o}));
            }
        }
        o => {
            eprintln!("unknown mode {o}");
            std::process::exit(2);
        }
    }
    out.finish();
    println!("{}", json!({"records": n}));
}
