//! C13 driver: the request put on the wire matches the connection's protocol.
//!
//!   wire gen   <vectors.ndjson> <out.ndjson> <seed> <spellings>
//!   wire rerun <records.ndjson> <out.ndjson>
//!
//! Input lines (from TLC, Wire_gen_*.cfg): {"v":{kind:"req"|"sel",...}[,"alpn":...]}.
//!  * kind "req" without "alpn"  -> mode "layers": the public layers SetHostHeaderLayer, Http2ChecksLayer,
//!    Http1ChecksLayer stacked in the order of client/builder.rs around a stub connection that reports a
//!    version; the final http::Request is recorded by the innermost service.
//!  * kind "sel"                 -> mode "sel": a real ConnectionPoolService<FakeTransport, HttpConnectionBuilder>
//!    with the same layers and the real RequestExecutor; the transport hands out an in-memory duplex IO that
//!    reports an ALPN result through the public HasTlsConnectionInfo (no real TLS); a raw peer captures the
//!    first bytes (`PRI * HTTP/2.0` preface or an HTTP/1 request line).
//!  * kind "req" with "alpn"     -> mode "e2e": the whole vector end to end through that same real client
//!    stack; on HTTP/1 the raw peer parses request line + headers from the wire, on HTTP/2 a hyper h2
//!    server behind the captured preface records the request.
//!
//!  * kind "seq" (with "first")  -> modes "client1"/"client2": a REAL `hyperdriver::Client::builder()` client
//!    (with_transport(in-memory transport) / with_protocol(HttpConnectionBuilder) / default pool, with_tls(..) when the
//!    vector has an ALPN result: the peer then runs a real rustls handshake offering exactly that ALPN protocol; env
//!    C13_CERTS = dir with cert.pem / key.pem) sends TWO requests to one origin: a plain GET with version `prv` that opens
//!    the connection (record mode "client1"), then the vector's request with version `rv`, which the pool serves with
//!    that pooled connection (record mode "client2"). The raw peer logs every request it reads from the wire, per connection.
//!
//! Output: {"i":n,"v":..,"c":{concrete request},"o":{real observation}}. The harness decides nothing:
//! WireObs.tla (TLC) evaluates the C13 clauses on every record.
use std::convert::Infallible;
use std::io::{BufRead, BufReader};
use std::panic::{catch_unwind, AssertUnwindSafe};
use std::pin::Pin;
use std::sync::{Arc, Mutex};
use std::task::{Context, Poll};
use std::time::Duration;

use bytes::Bytes;
use futures_util::FutureExt;
use http_body_util::Empty;
use hyperdriver::bridge::io::TokioIo;
use hyperdriver::bridge::rt::TokioExecutor;
use hyperdriver::client::conn::protocol::auto::HttpConnectionBuilder;
use hyperdriver::client::conn::Connection;
use hyperdriver::client::pool::{Config, PoolableStream, UriKey};
use hyperdriver::client::ConnectionPoolService;
use hyperdriver::info::{ConnectionInfo, HasConnectionInfo, HasTlsConnectionInfo, Protocol, TlsConnectionInfo};
use hyperdriver::service::{ExecuteRequest, Http1ChecksLayer, Http2ChecksLayer, RequestExecutor, SetHostHeaderLayer};
use rand::rngs::StdRng;
use rand::{Rng, SeedableRng};
use serde_json::{json, Value};
use tokio::io::{AsyncRead, AsyncReadExt, AsyncWrite, AsyncWriteExt, DuplexStream, ReadBuf};
use tower::{Service, ServiceBuilder, ServiceExt};
use vh::trace::TraceOut;

type B = Empty<Bytes>;

const HDRS: &[&str] = &["connection", "keep-alive", "proxy-connection", "transfer-encoding", "upgrade", "te"];
const PREFACE: &[u8] = b"PRI * HTTP/2.0\r\n\r\nSM\r\n\r\n";

fn ver_of(s: &str) -> http::Version {
    match s {
        "1.0" => http::Version::HTTP_10,
        "1.1" => http::Version::HTTP_11,
        "2" => http::Version::HTTP_2,
        o => panic!("bad version {o}"),
    }
}
fn ver_str(v: http::Version) -> String {
    match v {
        http::Version::HTTP_09 => "0.9",
        http::Version::HTTP_10 => "1.0",
        http::Version::HTTP_11 => "1.1",
        http::Version::HTTP_2 => "2",
        http::Version::HTTP_3 => "3",
        _ => "?",
    }
    .to_string()
}

// ------------------------------------------------------------------------------------------------
// observation of a request (from an http::Request or from the wire)
#[derive(Default, Clone, Debug)]
struct Seen {
    method: String,
    target: String,
    ver: String,
    headers: Vec<(String, String)>,
}

impl Seen {
    fn of<T>(req: &http::Request<T>) -> Seen {
        Seen {
            method: req.method().as_str().to_string(),
            // hyper's HTTP/1 encoder writes the request target as `Display` of the Uri
            target: req.uri().to_string(),
            ver: ver_str(req.version()),
            headers: req
                .headers()
                .iter()
                .map(|(n, v)| (n.as_str().to_string(), String::from_utf8_lossy(v.as_bytes()).to_string()))
                .collect(),
        }
    }
    fn obs(&self) -> Value {
        let hosts: Vec<&String> = self.headers.iter().filter(|(n, _)| n == "host").map(|(_, v)| v).collect();
        let mut hdrs: Vec<&str> = HDRS.iter().copied().filter(|h| self.headers.iter().any(|(n, _)| n == h)).collect();
        hdrs.dedup();
        let others: Vec<Value> = self
            .headers
            .iter()
            .filter(|(n, _)| n.starts_with("x-") || n == "accept")
            .map(|(n, v)| json!([n, v]))
            .collect();
        json!({
            "method": self.method, "target": self.target, "target_lc": self.target.to_ascii_lowercase(),
            "ver": self.ver, "hosts": hosts,
            "hosts_lc": hosts.iter().map(|h| h.to_ascii_lowercase()).collect::<Vec<_>>(),
            "hdrs": hdrs, "others": others,
        })
    }
}

fn blank_obs() -> Value {
    json!({"method": "", "target": "", "target_lc": "", "ver": "", "hosts": [], "hosts_lc": [], "hdrs": [], "others": []})
}

fn merge(mut a: Value, b: Value) -> Value {
    for (k, v) in b.as_object().unwrap() {
        a[k] = v.clone();
    }
    a
}

fn build_request(c: &Value) -> http::Request<B> {
    let mut req = http::Request::builder()
        .method(c["method"].as_str().unwrap())
        .uri(c["uri"].as_str().unwrap())
        .version(ver_of(c["ver"].as_str().unwrap()))
        .body(Empty::new())
        .expect("harness builds a valid request");
    for h in c["headers"].as_array().unwrap() {
        req.headers_mut().append(
            http::HeaderName::from_bytes(h[0].as_str().unwrap().as_bytes()).unwrap(),
            http::HeaderValue::from_str(h[1].as_str().unwrap()).unwrap(),
        );
    }
    req
}

fn panic_msg(p: Box<dyn std::any::Any + Send>) -> String {
    p.downcast_ref::<String>()
        .cloned()
        .or_else(|| p.downcast_ref::<&str>().map(|s| s.to_string()))
        .unwrap_or_else(|| "panic".into())
}

// ------------------------------------------------------------------------------------------------
// mode "layers": stub connection + recording innermost service
struct StubConn(http::Version);

impl Connection<B> for StubConn {
    type ResBody = B;
    type Error = Infallible;
    type Future = std::future::Ready<Result<http::Response<B>, Infallible>>;
    fn send_request(&mut self, _: http::Request<B>) -> Self::Future {
        std::future::ready(Ok(http::Response::new(Empty::new())))
    }
    fn poll_ready(&mut self, _: &mut Context<'_>) -> Poll<Result<(), Infallible>> {
        Poll::Ready(Ok(()))
    }
    fn version(&self) -> http::Version {
        self.0
    }
}

#[derive(Clone)]
struct Recorder(Arc<Mutex<Option<Seen>>>);

impl Service<ExecuteRequest<StubConn, B>> for Recorder {
    type Response = http::Response<B>;
    type Error = hyperdriver::client::Error;
    type Future = std::future::Ready<Result<http::Response<B>, hyperdriver::client::Error>>;
    fn poll_ready(&mut self, _: &mut Context<'_>) -> Poll<Result<(), Self::Error>> {
        Poll::Ready(Ok(()))
    }
    fn call(&mut self, req: ExecuteRequest<StubConn, B>) -> Self::Future {
        *self.0.lock().unwrap() = Some(Seen::of(req.request()));
        std::future::ready(Ok(http::Response::new(Empty::new())))
    }
}

fn run_layers(c: &Value) -> Value {
    let seen = Arc::new(Mutex::new(None));
    let rec = Recorder(seen.clone());
    let c2 = c.clone();
    let res = catch_unwind(AssertUnwindSafe(move || {
        let conn = StubConn(if c2["conn"] == "h2" { http::Version::HTTP_2 } else { http::Version::HTTP_11 });
        let req = build_request(&c2);
        // the order of client/builder.rs build_service
        let mut svc = ServiceBuilder::new()
            .layer(SetHostHeaderLayer::new())
            .layer(Http2ChecksLayer::new())
            .layer(Http1ChecksLayer::new())
            .service(rec);
        let waker = futures_util::task::noop_waker();
        let mut cx = Context::from_waker(&waker);
        let _ = Service::<ExecuteRequest<StubConn, B>>::poll_ready(&mut svc, &mut cx);
        svc.call(ExecuteRequest::new(conn, req)).now_or_never()
    }));
    let s = seen.lock().unwrap().clone();
    let (kind, err) = match (&res, &s) {
        (Err(_), _) => ("panicked", String::new()),
        (Ok(None), _) => ("pending", String::new()),
        (Ok(Some(Ok(_))), Some(_)) => ("sent", String::new()),
        (Ok(Some(Ok(_))), None) => ("answered_without_send", String::new()),
        (Ok(Some(Err(e))), None) => ("error", e.to_string()),
        (Ok(Some(Err(e))), Some(_)) => ("error_after_send", e.to_string()),
    };
    let err = if let Err(p) = res { panic_msg(p) } else { err };
    let o = match (kind, s) {
        ("sent", Some(s)) | ("error_after_send", Some(s)) => s.obs(),
        _ => blank_obs(),
    };
    merge(o, json!({"kind": kind, "err": err, "proto": c["conn"]}))
}

// ------------------------------------------------------------------------------------------------
// modes "sel" / "e2e": real client stack over an in-memory IO that reports an ALPN result
struct FakeIo {
    io: DuplexStream,
    tls: Option<TlsConnectionInfo>,
}
impl AsyncRead for FakeIo {
    fn poll_read(mut self: Pin<&mut Self>, cx: &mut Context<'_>, buf: &mut ReadBuf<'_>) -> Poll<std::io::Result<()>> {
        Pin::new(&mut self.io).poll_read(cx, buf)
    }
}
impl AsyncWrite for FakeIo {
    fn poll_write(mut self: Pin<&mut Self>, cx: &mut Context<'_>, buf: &[u8]) -> Poll<std::io::Result<usize>> {
        Pin::new(&mut self.io).poll_write(cx, buf)
    }
    fn poll_flush(mut self: Pin<&mut Self>, cx: &mut Context<'_>) -> Poll<std::io::Result<()>> {
        Pin::new(&mut self.io).poll_flush(cx)
    }
    fn poll_shutdown(mut self: Pin<&mut Self>, cx: &mut Context<'_>) -> Poll<std::io::Result<()>> {
        Pin::new(&mut self.io).poll_shutdown(cx)
    }
}
impl HasConnectionInfo for FakeIo {
    type Addr = String;
    fn info(&self) -> ConnectionInfo<String> {
        ConnectionInfo { local_addr: "harness-client".into(), remote_addr: "harness-peer".into() }
    }
}
impl HasTlsConnectionInfo for FakeIo {
    fn tls_info(&self) -> Option<&TlsConnectionInfo> {
        self.tls.as_ref()
    }
}
impl PoolableStream for FakeIo {
    fn can_share(&self) -> bool {
        self.tls.as_ref().map(|t| t.alpn == Some(Protocol::http(http::Version::HTTP_2))).unwrap_or(false)
    }
}

#[derive(Default, Debug)]
struct PeerRec {
    dials: usize,
    first: Vec<u8>,
    proto: String,
    seen: Option<Seen>,
    requests: usize,
}

#[derive(Clone)]
struct FakeTransport {
    alpn: String,
    rec: Arc<Mutex<PeerRec>>,
    tasks: Arc<Mutex<Vec<tokio::task::JoinHandle<()>>>>,
}

impl Service<http::request::Parts> for FakeTransport {
    type Response = FakeIo;
    type Error = Infallible;
    type Future = std::future::Ready<Result<FakeIo, Infallible>>;
    fn poll_ready(&mut self, _: &mut Context<'_>) -> Poll<Result<(), Infallible>> {
        Poll::Ready(Ok(()))
    }
    fn call(&mut self, _: http::request::Parts) -> Self::Future {
        let (client, server) = tokio::io::duplex(1 << 16);
        self.rec.lock().unwrap().dials += 1;
        let h = tokio::spawn(peer(server, self.rec.clone()));
        self.tasks.lock().unwrap().push(h);
        let tls = match self.alpn.as_str() {
            "notls" => None,
            "noalpn" => Some(TlsConnectionInfo { server_name: None, validated_server_name: false, alpn: None }),
            a => Some(TlsConnectionInfo {
                server_name: None,
                validated_server_name: false,
                alpn: Some(a.parse::<Protocol>().unwrap()),
            }),
        };
        std::future::ready(Ok(FakeIo { io: client, tls }))
    }
}

/// IO that replays bytes already consumed by the raw peer before the rest of the stream.
struct Prefixed {
    prefix: Vec<u8>,
    pos: usize,
    inner: DuplexStream,
}
impl AsyncRead for Prefixed {
    fn poll_read(mut self: Pin<&mut Self>, cx: &mut Context<'_>, buf: &mut ReadBuf<'_>) -> Poll<std::io::Result<()>> {
        if self.pos < self.prefix.len() {
            let n = std::cmp::min(buf.remaining(), self.prefix.len() - self.pos);
            let (a, b) = (self.pos, self.pos + n);
            buf.put_slice(&self.prefix[a..b]);
            self.pos += n;
            return Poll::Ready(Ok(()));
        }
        Pin::new(&mut self.inner).poll_read(cx, buf)
    }
}
impl AsyncWrite for Prefixed {
    fn poll_write(mut self: Pin<&mut Self>, cx: &mut Context<'_>, buf: &[u8]) -> Poll<std::io::Result<usize>> {
        Pin::new(&mut self.inner).poll_write(cx, buf)
    }
    fn poll_flush(mut self: Pin<&mut Self>, cx: &mut Context<'_>) -> Poll<std::io::Result<()>> {
        Pin::new(&mut self.inner).poll_flush(cx)
    }
    fn poll_shutdown(mut self: Pin<&mut Self>, cx: &mut Context<'_>) -> Poll<std::io::Result<()>> {
        Pin::new(&mut self.inner).poll_shutdown(cx)
    }
}

fn parse_h1_head(head: &[u8]) -> Option<Seen> {
    let text = String::from_utf8_lossy(head).to_string();
    let mut lines = text.split("\r\n");
    let rl = lines.next()?;
    // method SP request-target SP HTTP-version (the target contains no SP)
    let mut it = rl.splitn(2, ' ');
    let method = it.next()?.to_string();
    let rest = it.next()?;
    let idx = rest.rfind(' ')?;
    let target = rest[..idx].to_string();
    let ver = rest[idx + 1..].strip_prefix("HTTP/")?.to_string();
    let mut headers = vec![];
    for l in lines {
        if l.is_empty() {
            break;
        }
        let (n, v) = l.split_once(':')?;
        headers.push((n.trim().to_ascii_lowercase(), v.trim().to_string()));
    }
    Some(Seen { method, target, ver, headers })
}

async fn peer(mut s: DuplexStream, rec: Arc<Mutex<PeerRec>>) {
    let mut buf: Vec<u8> = Vec::new();
    let mut tmp = [0u8; 4096];
    loop {
        let n = match s.read(&mut tmp).await {
            Ok(0) | Err(_) => return,
            Ok(n) => n,
        };
        buf.extend_from_slice(&tmp[..n]);
        let m = std::cmp::min(buf.len(), PREFACE.len());
        if buf[..m] == PREFACE[..m] {
            if buf.len() < PREFACE.len() {
                continue;
            }
            {
                let mut r = rec.lock().unwrap();
                if r.first.is_empty() {
                    r.first = buf[..PREFACE.len()].to_vec();
                    r.proto = "h2".into();
                }
            }
            // decode what follows the preface with a real HTTP/2 server
            let rec2 = rec.clone();
            let svc = hyper::service::service_fn(move |req: http::Request<hyper::body::Incoming>| {
                let rec3 = rec2.clone();
                async move {
                    let mut r = rec3.lock().unwrap();
                    r.requests += 1;
                    if r.seen.is_none() {
                        r.seen = Some(Seen::of(&req));
                    }
                    Ok::<_, Infallible>(http::Response::new(Empty::<Bytes>::new()))
                }
            });
            let io = TokioIo::new(Prefixed { prefix: buf, pos: 0, inner: s });
            let _ = hyper::server::conn::http2::Builder::new(TokioExecutor::new()).serve_connection(io, svc).await;
            return;
        }
        // not the HTTP/2 preface: an HTTP/1 request head
        if let Some(end) = buf.windows(4).position(|w| w == b"\r\n\r\n") {
            {
                let mut r = rec.lock().unwrap();
                r.requests += 1;
                if r.first.is_empty() {
                    r.first = buf[..std::cmp::min(buf.len(), 24)].to_vec();
                    let seen = parse_h1_head(&buf[..end + 4]);
                    r.proto = match &seen {
                        Some(s) if s.ver == "1.1" => "h1".into(),
                        Some(s) => format!("h1-http/{}", s.ver),
                        None => "garbage".into(),
                    };
                    r.seen = seen;
                }
            }
            let _ = s.write_all(b"HTTP/1.1 200 OK\r\ncontent-length: 0\r\n\r\n").await;
            let _ = s.flush().await;
            buf.clear();
        }
    }
}

async fn run_e2e(c: &Value) -> Value {
    let rec = Arc::new(Mutex::new(PeerRec::default()));
    let tasks = Arc::new(Mutex::new(Vec::new()));
    let transport = FakeTransport { alpn: c["alpn"].as_str().unwrap().to_string(), rec: rec.clone(), tasks: tasks.clone() };
    let c2 = c.clone();
    let fut = async move {
        // the stack of client/builder.rs below the pool: SetHost -> Http2Checks -> Http1Checks -> RequestExecutor
        let inner = ServiceBuilder::new()
            .layer(SetHostHeaderLayer::new())
            .layer(Http2ChecksLayer::new())
            .layer(Http1ChecksLayer::new())
            .service(RequestExecutor::new());
        let svc: ConnectionPoolService<_, _, _, B, UriKey> =
            ConnectionPoolService::new(transport, HttpConnectionBuilder::<B>::default(), inner, Config::default());
        let req = build_request(&c2);
        tokio::time::timeout(Duration::from_secs(5), svc.oneshot(req)).await
    };
    let res = AssertUnwindSafe(fut).catch_unwind().await;
    // let detached tasks (connection drivers, peer) run to quiescence
    tokio::time::sleep(Duration::from_millis(1)).await;
    for h in tasks.lock().unwrap().drain(..) {
        h.abort();
    }
    let r = rec.lock().unwrap();
    let (kind, err) = match res {
        Err(p) => ("panicked", panic_msg(p)),
        Ok(Err(_)) => ("timeout", String::new()),
        Ok(Ok(Ok(_))) => (if r.seen.is_some() { "sent" } else { "answered_without_send" }, String::new()),
        Ok(Ok(Err(e))) => (if r.seen.is_some() { "error_after_send" } else { "error" }, format!("{e}")),
    };
    let o = match (&r.seen, kind) {
        (Some(s), "sent") | (Some(s), "error_after_send") => s.obs(),
        _ => blank_obs(),
    };
    let proto = if r.proto.is_empty() { "none".to_string() } else { r.proto.clone() };
    merge(
        o,
        json!({"kind": kind, "err": err, "proto": proto, "dials": r.dials, "requests": r.requests,
               "first": String::from_utf8_lossy(&r.first).to_string()}),
    )
}

// ------------------------------------------------------------------------------------------------
// instantiation of abstract vectors
const NAMES: &[&str] = &[
    "example.com", "EXAMPLE.com", "Sub.Domain.Example.ORG", "localhost", "xn--bcher-kva.example", "a", "h-y.p0.test",
    "api.internal.",
];
const V4: &[&str] = &["127.0.0.1", "192.0.2.1", "10.255.0.8", "0.0.0.0"];
const V6: &[&str] = &["[::1]", "[2001:db8::1]", "[2001:DB8:0:0:8:800:200C:417A]", "[::ffff:192.0.2.1]"];
const OTHER_PORTS: &[u16] = &[8080, 8443, 1, 65535, 8000, 81, 444, 3000];
const PATHS: &[&str] = &[
    "/a/b", "/index.html", "/a%20b/c", "/a/./b/../c", "//double//slash/", "/trailing/", "/UPPER/lower",
    "/a;params=1", "/*", "/~user/file.tar.gz", "/a/b/c/d/e/f/g/h/i/j/k/l/m/n/o/p", "/%E2%9C%93", "/a+b,c=d:e@f",
];
const QUERIES: &[&str] = &["x=1", "a=1&b=2", "q=%20%3F", "a=/b?c", "k", "A=B&a=b", "path=/x/y/", "e=", "u=http://o.example/p", ""];
const OTHER_HOSTS: &[&str] = &["other.example.net", "proxy.internal:3128", "Caller.Example", "[::2]:8080", "203.0.113.9"];
const GET_LIKE: &[&str] = &["GET", "HEAD", "DELETE"];
const POST_LIKE: &[&str] = &["POST", "PUT", "PATCH"];
const EXT: &[&str] = &["PURGE", "PROPFIND", "M-SEARCH", "REPORT"];
const OTHER_SCHEMES: &[&str] = &["ftp", "custom", "h2c", "svc+http"];

fn pick<'a, T: Copy>(xs: &'a [T], rng: &mut StdRng) -> T {
    xs[rng.gen_range(0..xs.len())]
}

fn header_value(h: &str, rng: &mut StdRng) -> &'static str {
    match h {
        "connection" => pick(&["keep-alive", "close", "upgrade, te", "Keep-Alive, x-hop"], rng),
        "keep-alive" => pick(&["timeout=5", "timeout=5, max=100"], rng),
        "proxy-connection" => pick(&["keep-alive", "close"], rng),
        "transfer-encoding" => pick(&["chunked", "gzip, chunked"], rng),
        "upgrade" => pick(&["websocket", "h2c", "TLS/1.3, HTTP/1.1"], rng),
        "te" => pick(&["trailers", "gzip", "trailers, deflate;q=0.5"], rng),
        o => panic!("unknown header {o}"),
    }
}

fn instantiate(line: &Value, rng: &mut StdRng) -> Value {
    let v = &line["v"];
    if v["kind"] == "sel" {
        // protocol selection only: a plain request
        let host = pick(NAMES, rng);
        let scheme = if v["alpn"] == "notls" { "http" } else { "https" };
        let path = pick(PATHS, rng);
        return json!({
            "mode": "sel", "alpn": v["alpn"], "conn": "", "method": pick(GET_LIKE, rng),
            "uri": format!("{scheme}://{host}{path}"), "uri_display": "", "ver": v["rv"], "headers": [["accept", "*/*"]],
            "parts": {"host_lc": "", "port": "", "authority": "", "authority_lc": "", "path": "", "query": "",
                      "preset": "", "preset_lc": ""},
        });
    }
    let scheme: String = match v["scheme"].as_str().unwrap() {
        "other" => pick(OTHER_SCHEMES, rng).to_string(),
        s => match s {
            "http" | "https" | "ws" | "wss" => s.to_string(),
            o => panic!("scheme {o}"),
        },
    };
    let secure = scheme == "https" || scheme == "wss";
    let host: String = match v["host"].as_str().unwrap() {
        "name" => pick(NAMES, rng),
        "v4" => pick(V4, rng),
        "v6" => pick(V6, rng),
        o => panic!("host kind {o}"),
    }
    .to_string();
    let port: Option<u16> = match v["port"].as_str().unwrap() {
        "absent" => None,
        "default" => Some(if secure { 443 } else { 80 }),
        "xdefault" => Some(if secure { 80 } else { 443 }),
        "other" => Some(pick(OTHER_PORTS, rng)),
        o => panic!("port class {o}"),
    };
    // a fixed origin (second request of a client run: same scheme, host spelling and port as the first)
    let (scheme, host, port) = match line.get("origin").filter(|o| o.is_object()) {
        Some(o) => (
            o["scheme"].as_str().unwrap().to_string(),
            o["host"].as_str().unwrap().to_string(),
            o["port"].as_u64().map(|p| p as u16),
        ),
        None => (scheme, host, port),
    };
    let authority = match port {
        Some(p) => format!("{host}:{p}"),
        None => host.to_string(),
    };
    let path = match v["path"].as_str().unwrap() {
        "empty" => "",
        "slash" => "/",
        "long" => pick(PATHS, rng),
        o => panic!("path class {o}"),
    };
    let query = if v["query"].as_bool().unwrap() { Some(pick(QUERIES, rng)) } else { None };
    let uri = format!("{scheme}://{authority}{path}{}", query.map(|q| format!("?{q}")).unwrap_or_default());
    let method = match v["method"].as_str().unwrap() {
        "GET" => pick(GET_LIKE, rng),
        "POST" => pick(POST_LIKE, rng),
        "CONNECT" => "CONNECT",
        "EXT" => pick(EXT, rng),
        o => panic!("method class {o}"),
    };
    // the caller-supplied Host: "same" = what the property says would be generated
    let shown = matches!(v["port"].as_str().unwrap(), "xdefault" | "other");
    let preset: Option<String> = match v["preset"].as_str().unwrap() {
        "none" => None,
        "same" => Some(if shown { authority.clone() } else { host.to_string() }),
        "other" => Some(pick(OTHER_HOSTS, rng).to_string()),
        o => panic!("preset {o}"),
    };
    let mut headers: Vec<Value> = vec![json!(["accept", "*/*"])];
    let mut hs: Vec<&str> = v["hdrs"].as_array().unwrap().iter().map(|h| h.as_str().unwrap()).collect();
    // header order as the caller wrote it: seeded shuffle, Host somewhere in between
    for i in (1..hs.len()).rev() {
        hs.swap(i, rng.gen_range(0..=i));
    }
    let host_at = rng.gen_range(0..=hs.len());
    for (i, h) in hs.iter().enumerate() {
        if i == host_at {
            if let Some(p) = &preset {
                headers.push(json!(["host", p]));
            }
        }
        headers.push(json!([h, header_value(h, rng)]));
    }
    if host_at == hs.len() {
        if let Some(p) = &preset {
            headers.push(json!(["host", p]));
        }
    }
    headers.push(json!(["x-request-id", format!("r{}", rng.gen_range(0..1000000))]));
    let mode = if line.get("alpn").map(|a| a.is_string()).unwrap_or(false) { "e2e" } else { "layers" };
    json!({
        "mode": mode, "alpn": line.get("alpn").cloned().unwrap_or(json!("")), "conn": v["conn"],
        "method": method, "uri": uri, "ver": v["rv"], "headers": headers,
        "uri_display": uri.parse::<http::Uri>().map(|u| u.to_string()).unwrap_or_default(),
        "origin": {"scheme": scheme, "host": host, "port": port.map(|p| p as i64).unwrap_or(-1)},
        "parts": {"host_lc": host.to_ascii_lowercase(), "port": port.map(|p| p.to_string()).unwrap_or_default(),
                  "authority": authority, "authority_lc": authority.to_ascii_lowercase(),
                  "path": path, "query": query.unwrap_or(""),
                  "preset": preset.clone().unwrap_or_default(),
                  "preset_lc": preset.unwrap_or_default().to_ascii_lowercase()},
    })
}

// ------------------------------------------------------------------------------------------------
// modes "client1" / "client2": the REAL client assembled by Client::builder(), two requests to one origin
#[derive(Debug)]
struct PlainIo(DuplexStream);
impl AsyncRead for PlainIo {
    fn poll_read(mut self: Pin<&mut Self>, cx: &mut Context<'_>, buf: &mut ReadBuf<'_>) -> Poll<std::io::Result<()>> {
        Pin::new(&mut self.0).poll_read(cx, buf)
    }
}
impl AsyncWrite for PlainIo {
    fn poll_write(mut self: Pin<&mut Self>, cx: &mut Context<'_>, buf: &[u8]) -> Poll<std::io::Result<usize>> {
        Pin::new(&mut self.0).poll_write(cx, buf)
    }
    fn poll_flush(mut self: Pin<&mut Self>, cx: &mut Context<'_>) -> Poll<std::io::Result<()>> {
        Pin::new(&mut self.0).poll_flush(cx)
    }
    fn poll_shutdown(mut self: Pin<&mut Self>, cx: &mut Context<'_>) -> Poll<std::io::Result<()>> {
        Pin::new(&mut self.0).poll_shutdown(cx)
    }
}
impl HasConnectionInfo for PlainIo {
    type Addr = String;
    fn info(&self) -> ConnectionInfo<String> {
        ConnectionInfo { local_addr: "harness-client".into(), remote_addr: "harness-peer".into() }
    }
}
impl PoolableStream for PlainIo {
    fn can_share(&self) -> bool {
        false
    }
}

#[derive(Default, Debug)]
struct ClientLog {
    /// per connection (dial order): protocol seen on the wire ("" until the first bytes), TLS or not
    conns: Vec<(String, bool)>,
    /// every request read from the wire: (connection index, request)
    reqs: Vec<(usize, Seen)>,
}

#[derive(Clone)]
struct ClientTransport {
    log: Arc<Mutex<ClientLog>>,
    tasks: Arc<Mutex<Vec<tokio::task::JoinHandle<()>>>>,
    tls: Option<Arc<rustls::ServerConfig>>,
}

impl Service<http::request::Parts> for ClientTransport {
    type Response = PlainIo;
    type Error = Infallible;
    type Future = std::future::Ready<Result<PlainIo, Infallible>>;
    fn poll_ready(&mut self, _: &mut Context<'_>) -> Poll<Result<(), Infallible>> {
        Poll::Ready(Ok(()))
    }
    fn call(&mut self, _: http::request::Parts) -> Self::Future {
        let (client, server) = tokio::io::duplex(1 << 16);
        let id = {
            let mut l = self.log.lock().unwrap();
            l.conns.push((String::new(), false));
            l.conns.len() - 1
        };
        let h = tokio::spawn(peer_entry(server, id, self.log.clone(), self.tls.clone()));
        self.tasks.lock().unwrap().push(h);
        std::future::ready(Ok(PlainIo(client)))
    }
}

/// IO replaying bytes already consumed before the rest of the stream (generic version of `Prefixed`).
struct Pre<S> {
    prefix: Vec<u8>,
    pos: usize,
    inner: S,
}
impl<S: AsyncRead + Unpin> AsyncRead for Pre<S> {
    fn poll_read(mut self: Pin<&mut Self>, cx: &mut Context<'_>, buf: &mut ReadBuf<'_>) -> Poll<std::io::Result<()>> {
        if self.pos < self.prefix.len() {
            let n = std::cmp::min(buf.remaining(), self.prefix.len() - self.pos);
            let (a, b) = (self.pos, self.pos + n);
            buf.put_slice(&self.prefix[a..b]);
            self.pos += n;
            return Poll::Ready(Ok(()));
        }
        Pin::new(&mut self.inner).poll_read(cx, buf)
    }
}
impl<S: AsyncWrite + Unpin> AsyncWrite for Pre<S> {
    fn poll_write(mut self: Pin<&mut Self>, cx: &mut Context<'_>, buf: &[u8]) -> Poll<std::io::Result<usize>> {
        Pin::new(&mut self.inner).poll_write(cx, buf)
    }
    fn poll_flush(mut self: Pin<&mut Self>, cx: &mut Context<'_>) -> Poll<std::io::Result<()>> {
        Pin::new(&mut self.inner).poll_flush(cx)
    }
    fn poll_shutdown(mut self: Pin<&mut Self>, cx: &mut Context<'_>) -> Poll<std::io::Result<()>> {
        Pin::new(&mut self.inner).poll_shutdown(cx)
    }
}

/// First byte 0x16 = a TLS record: run a real rustls server handshake (offering the configured ALPN), then serve.
async fn peer_entry(mut s: DuplexStream, id: usize, log: Arc<Mutex<ClientLog>>, tls: Option<Arc<rustls::ServerConfig>>) {
    let mut first = [0u8; 1];
    match s.read(&mut first).await {
        Ok(1) => {}
        _ => return,
    }
    let pre = Pre { prefix: first.to_vec(), pos: 0, inner: s };
    if first[0] == 0x16 {
        let Some(cfg) = tls else { return };
        log.lock().unwrap().conns[id].1 = true;
        match tokio_rustls::TlsAcceptor::from(cfg).accept(pre).await {
            Ok(t) => peer_serve(t, id, log).await,
            Err(_) => {}
        }
    } else {
        peer_serve(pre, id, log).await
    }
}

/// Raw peer serving any number of requests on one connection, logging each as read from the wire.
async fn peer_serve<S: AsyncRead + AsyncWrite + Unpin + Send + 'static>(mut s: S, id: usize, log: Arc<Mutex<ClientLog>>) {
    let mut buf: Vec<u8> = Vec::new();
    let mut tmp = [0u8; 4096];
    loop {
        let n = match s.read(&mut tmp).await {
            Ok(0) | Err(_) => return,
            Ok(n) => n,
        };
        buf.extend_from_slice(&tmp[..n]);
        let m = std::cmp::min(buf.len(), PREFACE.len());
        if buf[..m] == PREFACE[..m] {
            if buf.len() < PREFACE.len() {
                continue;
            }
            log.lock().unwrap().conns[id].0 = "h2".into();
            let log2 = log.clone();
            let svc = hyper::service::service_fn(move |req: http::Request<hyper::body::Incoming>| {
                let log3 = log2.clone();
                async move {
                    log3.lock().unwrap().reqs.push((id, Seen::of(&req)));
                    Ok::<_, Infallible>(http::Response::new(Empty::<Bytes>::new()))
                }
            });
            let io = TokioIo::new(Pre { prefix: buf, pos: 0, inner: s });
            let _ = hyper::server::conn::http2::Builder::new(TokioExecutor::new()).serve_connection(io, svc).await;
            return;
        }
        while let Some(end) = buf.windows(4).position(|w| w == b"\r\n\r\n") {
            {
                let mut l = log.lock().unwrap();
                match parse_h1_head(&buf[..end + 4]) {
                    Some(seen) => {
                        if l.conns[id].0.is_empty() {
                            l.conns[id].0 = if seen.ver == "1.1" { "h1".into() } else { format!("h1-http/{}", seen.ver) };
                        }
                        l.reqs.push((id, seen));
                    }
                    None => {
                        if l.conns[id].0.is_empty() {
                            l.conns[id].0 = "garbage".into();
                        }
                    }
                }
            }
            buf.drain(..end + 4);
            if s.write_all(b"HTTP/1.1 200 OK\r\ncontent-length: 0\r\n\r\n").await.is_err() {
                return;
            }
            let _ = s.flush().await;
        }
    }
}

#[derive(Debug)]
struct AcceptAnyCert(Arc<rustls::crypto::CryptoProvider>);
impl rustls::client::danger::ServerCertVerifier for AcceptAnyCert {
    fn verify_server_cert(
        &self,
        _: &rustls::pki_types::CertificateDer<'_>,
        _: &[rustls::pki_types::CertificateDer<'_>],
        _: &rustls::pki_types::ServerName<'_>,
        _: &[u8],
        _: rustls::pki_types::UnixTime,
    ) -> Result<rustls::client::danger::ServerCertVerified, rustls::Error> {
        Ok(rustls::client::danger::ServerCertVerified::assertion())
    }
    fn verify_tls12_signature(
        &self,
        m: &[u8],
        c: &rustls::pki_types::CertificateDer<'_>,
        d: &rustls::DigitallySignedStruct,
    ) -> Result<rustls::client::danger::HandshakeSignatureValid, rustls::Error> {
        rustls::crypto::verify_tls12_signature(m, c, d, &self.0.signature_verification_algorithms)
    }
    fn verify_tls13_signature(
        &self,
        m: &[u8],
        c: &rustls::pki_types::CertificateDer<'_>,
        d: &rustls::DigitallySignedStruct,
    ) -> Result<rustls::client::danger::HandshakeSignatureValid, rustls::Error> {
        rustls::crypto::verify_tls13_signature(m, c, d, &self.0.signature_verification_algorithms)
    }
    fn supported_verify_schemes(&self) -> Vec<rustls::SignatureScheme> {
        self.0.signature_verification_algorithms.supported_schemes()
    }
}

/// (client config offering h2 and http/1.1, server config offering exactly the ALPN result wanted)
fn tls_configs(alpn: &str) -> (rustls::ClientConfig, Arc<rustls::ServerConfig>) {
    let dir = std::env::var("C13_CERTS").expect("env C13_CERTS (directory with cert.pem and key.pem)");
    let provider = Arc::new(rustls::crypto::ring::default_provider());
    let _ = rustls::crypto::ring::default_provider().install_default();
    let (_, cert) = pem_rfc7468::decode_vec(&std::fs::read(format!("{dir}/cert.pem")).expect("cert.pem")).expect("cert pem");
    let key_pem = std::fs::read(format!("{dir}/key.pem")).expect("key.pem");
    let (label, key) = pem_rfc7468::decode_vec(&key_pem).expect("key pem");
    let key = match label {
        "PRIVATE KEY" => rustls::pki_types::PrivateKeyDer::Pkcs8(key.into()),
        "RSA PRIVATE KEY" => rustls::pki_types::PrivateKeyDer::Pkcs1(key.into()),
        "EC PRIVATE KEY" => rustls::pki_types::PrivateKeyDer::Sec1(key.into()),
        o => panic!("unknown key type {o}"),
    };
    let mut server = rustls::ServerConfig::builder()
        .with_no_client_auth()
        .with_single_cert(vec![rustls::pki_types::CertificateDer::from(cert)], key)
        .expect("server config");
    server.alpn_protocols = match alpn {
        "noalpn" => vec![],
        a => vec![a.as_bytes().to_vec()],
    };
    let mut client = rustls::ClientConfig::builder()
        .dangerous()
        .with_custom_certificate_verifier(Arc::new(AcceptAnyCert(provider)))
        .with_no_client_auth();
    client.alpn_protocols = vec![b"h2".to_vec(), b"http/1.1".to_vec()];
    (client, Arc::new(server))
}

/// Runs the two requests c1, c2 (same origin) on one real client; returns their observations.
async fn run_client(c1: &Value, c2: &Value) -> (Value, Value) {
    let alpn = c2["alpn"].as_str().unwrap().to_string();
    let log = Arc::new(Mutex::new(ClientLog::default()));
    let tasks = Arc::new(Mutex::new(Vec::new()));
    let (ccfg, scfg) = if alpn == "notls" { (None, None) } else { let (c, s) = tls_configs(&alpn); (Some(c), Some(s)) };
    let transport = ClientTransport { log: log.clone(), tasks: tasks.clone(), tls: scfg };
    let (c1b, c2b) = (c1.clone(), c2.clone());
    let fut = async move {
        // the stack is whatever client/builder.rs assembles
        let b = hyperdriver::Client::builder()
            .with_transport(transport)
            .with_protocol(HttpConnectionBuilder::<hyperdriver::Body>::default())
            .with_default_pool();
        let b = match ccfg {
            Some(c) => b.with_tls(c),
            None => b,
        };
        let client = b.build();
        let mut results = vec![];
        for c in [&c1b, &c2b] {
            let req = build_request(c).map(|_| hyperdriver::Body::empty());
            let r = tokio::time::timeout(Duration::from_secs(5), client.clone().oneshot(req)).await;
            results.push(match r {
                Err(_) => ("timeout".to_string(), String::new()),
                Ok(Ok(resp)) => {
                    drop(resp);
                    ("ok".to_string(), String::new())
                }
                Ok(Err(e)) => ("error".to_string(), format!("{e}")),
            });
            // the response is consumed: let the connection find its way back into the pool
            tokio::time::sleep(Duration::from_millis(10)).await;
        }
        drop(client);
        results
    };
    let res = AssertUnwindSafe(fut).catch_unwind().await;
    tokio::time::sleep(Duration::from_millis(1)).await;
    for h in tasks.lock().unwrap().drain(..) {
        h.abort();
    }
    let l = log.lock().unwrap();
    let results = match res {
        Ok(r) => r,
        Err(p) => {
            let m = panic_msg(p);
            vec![("panicked".to_string(), m.clone()), ("panicked".to_string(), m)]
        }
    };
    let rid = |c: &Value| -> String {
        c["headers"].as_array().unwrap().iter().find(|h| h[0] == "x-request-id").map(|h| h[1].as_str().unwrap().to_string()).unwrap()
    };
    let mut out = vec![];
    let mut first_conn: Option<usize> = None;
    for (k, c) in [c1, c2].iter().enumerate() {
        let id = rid(c);
        let hits: Vec<&(usize, Seen)> =
            l.reqs.iter().filter(|(_, s)| s.headers.iter().any(|(n, v)| n == "x-request-id" && *v == id)).collect();
        let (st, err) = &results[k];
        let kind = match (st.as_str(), hits.is_empty()) {
            ("ok", false) => "sent",
            ("ok", true) => "answered_without_send",
            ("error", true) => "error",
            ("error", false) => "error_after_send",
            (o, _) => o,
        };
        // the connection that carried it; a request that never reached the wire is attributed to the only connection
        let conn = hits.first().map(|(c, _)| *c).or(if l.conns.len() == 1 { Some(0) } else { None });
        let proto = conn.map(|c| l.conns[c].0.clone()).filter(|p| !p.is_empty()).unwrap_or_else(|| "none".into());
        if k == 0 {
            first_conn = conn;
        }
        let o = match (hits.first(), kind) {
            (Some((_, s)), "sent") | (Some((_, s)), "error_after_send") => s.obs(),
            _ => blank_obs(),
        };
        out.push(merge(
            o,
            json!({"kind": kind, "err": err, "proto": proto, "dials": l.conns.len(), "requests": hits.len(),
                   "conn": conn.map(|c| c as i64).unwrap_or(-1), "reused": k == 1 && conn.is_some() && conn == first_conn,
                   "tls": conn.map(|c| l.conns[c].1).unwrap_or(false), "first": ""}),
        ));
    }
    let o2 = out.pop().unwrap();
    let o1 = out.pop().unwrap();
    (o1, o2)
}

/// Instantiates a "seq" line: (c1, c2) with a shared origin.
fn instantiate_client(line: &Value, rng: &mut StdRng, n: usize) -> (Value, Value) {
    let alpn = line["v"]["alpn"].clone();
    let mut c2 = instantiate(&json!({"v": line["v"]}), rng);
    let mut c1 = instantiate(&json!({"v": line["first"], "origin": c2["origin"]}), rng);
    for (c, mode, tag) in [(&mut c1, "client1", "a"), (&mut c2, "client2", "b")] {
        c["mode"] = json!(mode);
        c["alpn"] = alpn.clone();
        c["conn"] = json!("");
        for h in c["headers"].as_array_mut().unwrap() {
            if h[0] == "x-request-id" {
                h[1] = json!(format!("k{n}{tag}"));
            }
        }
    }
    (c1, c2)
}

/// Runs a client pair and emits its two records.
async fn emit_client(v1: &Value, v2: &Value, c1: &Value, c2: &Value, out: &mut TraceOut, n: &mut usize) {
    let (o1, o2) = run_client(c1, c2).await;
    let pair = serde_json::to_string(&json!({"v1": v1, "v2": v2, "c1": c1, "c2": c2})).unwrap();
    for (v, c, o) in [(v1, c1, o1), (v2, c2, o2)] {
        let mut c = c.clone();
        c["pair_json"] = json!(pair);
        *n += 1;
        out.emit(&json!({"i": *n, "v": v, "c": c, "o": o}));
    }
}

async fn run(c: &Value) -> Value {
    match c["mode"].as_str().unwrap() {
        "layers" => run_layers(c),
        "sel" | "e2e" => run_e2e(c).await,
        o => panic!("mode {o}"),
    }
}

fn read_lines(path: &str) -> impl Iterator<Item = Value> {
    let f = std::fs::File::open(path).unwrap_or_else(|e| panic!("open {path}: {e}"));
    BufReader::new(f)
        .lines()
        .map(|l| l.unwrap())
        .filter(|l| !l.trim().is_empty())
        .map(|l| serde_json::from_str(&l).unwrap_or_else(|e| panic!("bad json line {l}: {e}")))
}

#[tokio::main(flavor = "current_thread", start_paused = true)]
async fn main() {
    let a: Vec<String> = std::env::args().collect();
    if a.len() < 4 {
        eprintln!("usage: wire gen <vectors> <out> <seed> <spellings> | wire rerun <records> <out>");
        std::process::exit(2);
    }
    // panics of the code under test are data; keep stderr quiet
    std::panic::set_hook(Box::new(|_| {}));
    let mut out = TraceOut::create(&a[3]);
    let mut n = 0usize;
    match a[1].as_str() {
        "gen" => {
            let seed: u64 = a[4].parse().unwrap();
            let k: usize = a[5].parse().unwrap();
            let mut rng = StdRng::seed_from_u64(seed ^ 0xC13);
            for line in read_lines(&a[2]) {
                if line["v"]["kind"] == "seq" {
                    for _ in 0..k {
                        let (c1, c2) = instantiate_client(&line, &mut rng, n);
                        emit_client(&line["first"], &line["v"], &c1, &c2, &mut out, &mut n).await;
                    }
                    continue;
                }
                let reps = if line["v"]["kind"] == "sel" { std::cmp::max(k, 8) } else { k };
                for _ in 0..reps {
                    let c = instantiate(&line, &mut rng);
                    let o = run(&c).await;
                    n += 1;
                    out.emit(&json!({"i": n, "v": line["v"], "c": c, "o": o}));
                }
            }
        }
        "rerun" => {
            let mut pairs_done: Vec<String> = vec![];
            for r in read_lines(&a[2]) {
                if r["c"]["mode"] == "client1" || r["c"]["mode"] == "client2" {
                    // a client record stands for its two-request run: replay the run once
                    let pj = r["c"]["pair_json"].as_str().unwrap().to_string();
                    if pairs_done.contains(&pj) {
                        continue;
                    }
                    pairs_done.push(pj.clone());
                    let p: Value = serde_json::from_str(&pj).unwrap();
                    emit_client(&p["v1"], &p["v2"], &p["c1"], &p["c2"], &mut out, &mut n).await;
                    continue;
                }
                let o = run(&r["c"]).await;
                n += 1;
                out.emit(&json!({"i": n, "v": r["v"], "c": r["c"], "o": o}));
            }
        }
        o => {
            eprintln!("unknown mode {o}");
            std::process::exit(2);
        }
    }
    out.finish();
    println!("{}", json!({"records": n}));
}
