//! C10 / C11 driver: runs happy-eyeballs scenarios on the REAL `hyperdriver::verif::EyeballSet`
//! under paused tokio time with scripted attempt futures and records what it did.
//!
//!   eyeballs run --vec <tlc-output> --out <dir> --seed S --sample K [--all] [--threads T]
//!       <tlc-output>: stdout of TLC on Eyeballs_gen_*.cfg; every line `<<"VEC", "<json>">>` is a pair
//!       (scenario v, one observation o the spec allows). Scenarios are grouped, each is executed once.
//!       Writes <dir>/obs.ndjson (records for the TLC monitor EyeballsObs: every record flagged by the
//!       in-process mirror or not conformant, plus a seeded sample of K others, or all with --all) and
//!       prints a JSON summary on stdout. The mirror and the conformance comparison never decide.
//!   eyeballs one --in <file.json> --out <file.ndjson>     re-run the scenarios of a replay file
//!   eyeballs tcp --out <file.ndjson>                      TCP layer through TcpTransport::connect_to_addrs
//!
//! Panics of the code under test are caught and recorded as kind "panic".
use futures_util::FutureExt as _;
use hyperdriver::verif::{EyeballSet, HappyEyeballsError};
use rand::seq::SliceRandom;
use rand::SeedableRng;
use serde_json::{json, Value};
use std::cell::RefCell;
use std::collections::BTreeMap;
use std::future::Future;
use std::io::{BufRead, Write};
use std::panic::AssertUnwindSafe;
use std::pin::Pin;
use std::rc::Rc;
use std::task::{Context, Poll};
use std::time::Duration;
use tokio::time::Instant;

const U: u64 = 10; // ms of virtual time per model time unit
const HORIZON: u64 = 1000; // units after which a still pending operation is recorded as "hang"
const NONE: i64 = -1;

fn dur(x: i64) -> Option<Duration> {
    if x < 0 {
        None
    } else {
        Some(Duration::from_millis(x as u64 * U))
    }
}

#[derive(Clone, Debug)]
struct Scn {
    n: usize,
    oc: Vec<String>,
    lat: Vec<i64>,
    delay: i64,
    tmo: i64,
    conc: i64,
}

impl Scn {
    fn from_json(v: &Value) -> Scn {
        let n = v["n"].as_u64().expect("v.n") as usize;
        let oc: Vec<String> = v["oc"].as_array().expect("v.oc").iter().map(|x| x.as_str().unwrap().to_string()).collect();
        let lat: Vec<i64> = v["lat"].as_array().expect("v.lat").iter().map(|x| x.as_i64().unwrap()).collect();
        assert!(oc.len() >= n && lat.len() >= n);
        Scn { n, oc, lat, delay: v["delay"].as_i64().unwrap(), tmo: v["tmo"].as_i64().unwrap(), conc: v["conc"].as_i64().unwrap() }
    }
}

const W: usize = 6; // max attempts per scenario
const KINDS: [&str; 7] = ["ok", "err", "timeout", "noprogress", "hang", "panic", "other"];

/// An observation, compact (millions of allowed observations are held in memory in the thorough tier).
#[derive(Clone, Debug, PartialEq)]
struct Obs {
    kind: &'static str,
    id: i64,
    at: i64,
    width: u8,
    start: [i16; W],
    ord: [i8; W],
    drop: [i16; W],
}

impl Obs {
    fn new(kind: &str, id: i64, at: i64, start: &[i64], ord: &[i64], drop: &[i64]) -> Obs {
        let kind = KINDS.iter().copied().find(|k| *k == kind).unwrap_or("other");
        assert!(start.len() <= W && start.len() == ord.len() && start.len() == drop.len());
        let mut o = Obs { kind, id, at, width: start.len() as u8, start: [NONE as i16; W], ord: [0; W], drop: [NONE as i16; W] };
        for i in 0..start.len() {
            o.start[i] = start[i] as i16;
            o.ord[i] = ord[i] as i8;
            o.drop[i] = drop[i] as i16;
        }
        o
    }
    fn starts(&self) -> Vec<i64> {
        self.start[..self.width as usize].iter().map(|&x| x as i64).collect()
    }
    fn ords(&self) -> Vec<i64> {
        self.ord[..self.width as usize].iter().map(|&x| x as i64).collect()
    }
    fn drops(&self) -> Vec<i64> {
        self.drop[..self.width as usize].iter().map(|&x| x as i64).collect()
    }
    fn to_json(&self) -> Value {
        json!({"kind": self.kind, "id": self.id, "at": self.at, "start": self.starts(), "ord": self.ords(), "drop": self.drops()})
    }
    fn from_json(o: &Value) -> Obs {
        let arr = |k: &str| -> Vec<i64> { o[k].as_array().unwrap().iter().map(|x| x.as_i64().unwrap()).collect() };
        Obs::new(o["kind"].as_str().unwrap(), o["id"].as_i64().unwrap(), o["at"].as_i64().unwrap(), &arr("start"), &arr("ord"), &arr("drop"))
    }
}

struct Log {
    t0: Instant,
    start: Vec<i64>,
    ord: Vec<i64>,
    drop: Vec<i64>,
    nord: i64,
    inexact: bool,
}

impl Log {
    fn now(&mut self) -> i64 {
        let ms = (Instant::now() - self.t0).as_millis() as u64;
        if ms % U != 0 {
            self.inexact = true;
        }
        (ms / U) as i64
    }
}

/// A scripted connection attempt: records its first poll and its drop, completes `lat` units after its
/// first poll with Ok(i) / Err(i), or never.
struct Attempt {
    i: usize,
    oc: u8, // 0 ok, 1 err, 2 never
    lat: u64,
    started: bool,
    sleep: Option<Pin<Box<tokio::time::Sleep>>>,
    log: Rc<RefCell<Log>>,
}

impl Future for Attempt {
    type Output = Result<usize, usize>;
    fn poll(mut self: Pin<&mut Self>, cx: &mut Context<'_>) -> Poll<Self::Output> {
        let this = &mut *self;
        if !this.started {
            this.started = true;
            let mut log = this.log.borrow_mut();
            let t = log.now();
            log.nord += 1;
            let k = log.nord;
            log.start[this.i] = t;
            log.ord[this.i] = k;
            if this.oc != 2 && this.lat > 0 {
                this.sleep = Some(Box::pin(tokio::time::sleep(Duration::from_millis(this.lat * U))));
            }
        }
        if this.oc == 2 {
            return Poll::Pending;
        }
        if let Some(s) = this.sleep.as_mut() {
            if s.as_mut().poll(cx).is_pending() {
                return Poll::Pending;
            }
        }
        Poll::Ready(if this.oc == 0 { Ok(this.i + 1) } else { Err(this.i + 1) })
    }
}

impl Drop for Attempt {
    fn drop(&mut self) {
        let mut log = self.log.borrow_mut();
        let t = log.now();
        log.drop[self.i] = t;
    }
}

/// One scenario on the real EyeballSet.
async fn run_scenario(s: &Scn, width: usize) -> (Obs, bool) {
    let t0 = Instant::now();
    let log = Rc::new(RefCell::new(Log { t0, start: vec![NONE; width], ord: vec![0; width], drop: vec![NONE; width], nord: 0, inexact: false }));
    let conc = if s.conc < 0 { None } else { Some(s.conc as usize) };
    let mut set: EyeballSet<Attempt, usize, usize> = EyeballSet::new(dur(s.delay), dur(s.tmo), conc);
    for i in 0..s.n {
        let oc = match s.oc[i].as_str() {
            "ok" => 0,
            "err" => 1,
            "never" => 2,
            other => panic!("bad outcome {other}"),
        };
        set.push(Attempt { i, oc, lat: s.lat[i] as u64, started: false, sleep: None, log: log.clone() });
    }
    let hang_snapshot;
    let r = {
        let fin = AssertUnwindSafe(set.finish()).catch_unwind();
        tokio::pin!(fin);
        let r = tokio::time::timeout(Duration::from_millis(HORIZON * U), &mut fin).await;
        // a still pending operation holds everything it has not released: snapshot before `fin` is dropped
        hang_snapshot = if r.is_err() {
            let l = log.borrow();
            Some((l.start.clone(), l.ord.clone(), l.drop.clone(), l.inexact))
        } else {
            None
        };
        r
    };
    let at = log.borrow_mut().now();
    let (kind, id, at) = match r {
        Err(_) => ("hang", 0, NONE),
        Ok(Err(_panic)) => ("panic", 0, at),
        Ok(Ok(Ok(i))) => ("ok", i as i64, at),
        Ok(Ok(Err(HappyEyeballsError::Error(i)))) => ("err", i as i64, at),
        Ok(Ok(Err(HappyEyeballsError::Timeout(_)))) => ("timeout", 0, at),
        Ok(Ok(Err(HappyEyeballsError::NoProgress))) => ("noprogress", 0, at),
        Ok(Ok(Err(_))) => ("other", 0, at),
    };
    if let Some((start, ord, drop, inexact)) = hang_snapshot {
        std::mem::drop(set);
        return (Obs::new(kind, id, at, &start, &ord, &drop), inexact);
    }
    // the caller drops the set as soon as finish() has returned
    std::mem::drop(set);
    let l = log.borrow();
    (Obs::new(kind, id, at, &l.start, &l.ord, &l.drop), l.inexact)
}

// -------------------------------------------------------------------------------------------------
// In-process mirror of spec/EyeballsProps.tla (screening only; TLC decides).
mod mirror {
    use super::{Obs, Scn, NONE};

    pub struct Flat {
        kind: &'static str,
        id: i64,
        at: i64,
        start: Vec<i64>,
        ord: Vec<i64>,
    }
    impl Flat {
        fn of(o: &Obs) -> Flat {
            Flat { kind: o.kind, id: o.id, at: o.at, start: o.starts(), ord: o.ords() }
        }
    }
    fn started(v: &Scn, o: &Flat) -> Vec<usize> {
        (0..v.n).filter(|&i| o.start[i] != NONE).collect()
    }
    fn fin(v: &Scn, o: &Flat, i: usize) -> i64 {
        o.start[i] + v.lat[i]
    }
    fn running(o: &Flat, t: i64) -> bool {
        o.kind == "hang" || o.at > t
    }

    pub fn c10(v: &Scn, o: &Obs) -> bool {
        let o = &Flat::of(o);
        let st = started(v, o);
        let succ: Vec<usize> = st.iter().copied().filter(|&i| v.oc[i] == "ok").collect();
        if !["ok", "err", "timeout", "noprogress", "hang"].contains(&o.kind) {
            return false;
        }
        if o.kind == "ok" {
            let id = o.id - 1;
            if id < 0 || !succ.contains(&(id as usize)) {
                return false;
            }
            let f = fin(v, o, id as usize);
            if f > o.at || succ.iter().any(|&j| fin(v, o, j) < f) {
                return false;
            }
        }
        if succ.iter().any(|&i| v.tmo == NONE || fin(v, o, i) < v.tmo) && o.kind != "ok" {
            return false;
        }
        if o.kind == "err" {
            if v.n == 0 || st.len() != v.n {
                return false;
            }
            if (0..v.n).any(|i| v.oc[i] != "err" || fin(v, o, i) > o.at) {
                return false;
            }
            let id = o.id - 1;
            if id < 0 || id as usize >= v.n {
                return false;
            }
            let f = fin(v, o, id as usize);
            if (0..v.n).any(|j| fin(v, o, j) < f) {
                return false;
            }
        }
        if o.kind == "timeout" && (v.tmo == NONE || o.at < v.tmo) {
            return false;
        }
        if o.kind == "noprogress" && v.n != 0 {
            return false;
        }
        if v.n == 0 && !(o.kind == "noprogress" && o.at == 0) {
            return false;
        }
        true
    }

    pub fn c11(v: &Scn, o: &Obs) -> bool {
        let o = &Flat::of(o);
        let st = started(v, o);
        // order
        for i in 0..v.n {
            if (o.start[i] != NONE) != (o.ord[i] > 0) {
                return false;
            }
        }
        for &i in &st {
            for &j in &st {
                if i < j && !(o.ord[i] < o.ord[j] && o.start[i] <= o.start[j]) {
                    return false;
                }
            }
        }
        for &j in &st {
            if (0..j).any(|i| o.start[i] == NONE) {
                return false;
            }
        }
        let initial = if v.conc == NONE { v.n } else { v.n.min((v.conc.max(1)) as usize) };
        let further: Vec<usize> = (initial..v.n).collect();
        let fail: Vec<usize> = st.iter().copied().filter(|&i| v.oc[i] == "err").collect();
        let stagger = |k: usize| v.delay != NONE && k > 0 && o.start[k - 1] != NONE && o.start[k] >= o.start[k - 1] + v.delay;
        // never earlier
        let fs: Vec<usize> = further.iter().copied().filter(|&k| o.start[k] != NONE).collect();
        for &k in &fs {
            if !stagger(k) {
                let need = fs.iter().filter(|&&j| j <= k && !stagger(j)).count();
                let have = fail.iter().filter(|&&i| i < k && fin(v, o, i) <= o.start[k]).count();
                if need > have {
                    return false;
                }
            }
        }
        // as soon as (delay)
        if v.delay != NONE {
            for &k in &further {
                if k > 0 && o.start[k - 1] != NONE && running(o, o.start[k - 1] + v.delay) && !(o.start[k] != NONE && o.start[k] <= o.start[k - 1] + v.delay) {
                    return false;
                }
            }
        }
        // as soon as (failure)
        for &i in &fail {
            let t = fin(v, o, i);
            if running(o, t) {
                let have = fs.iter().filter(|&&k| o.start[k] <= t).count();
                let want = fail.iter().filter(|&&j| fin(v, o, j) <= t).count().min(further.len());
                if have < want {
                    return false;
                }
            }
        }
        // deadline
        if v.tmo != NONE && (o.kind == "hang" || o.at > v.tmo) {
            return false;
        }
        true
    }
}

// -------------------------------------------------------------------------------------------------
fn arg(args: &[String], name: &str) -> Option<String> {
    args.iter().position(|a| a == name).and_then(|p| args.get(p + 1)).cloned()
}

fn paused_rt() -> tokio::runtime::Runtime {
    tokio::runtime::Builder::new_current_thread().enable_time().start_paused(true).build().unwrap()
}

struct Case {
    key: String, // canonical JSON of the scenario
    allowed: Vec<Obs>,
}

impl Case {
    fn v(&self) -> Value {
        serde_json::from_str(&self.key).unwrap()
    }
    fn scn(&self) -> Scn {
        Scn::from_json(&self.v())
    }
}

struct Outcome {
    obs: Obs,
    conform: bool,
    m10: bool,
    m11: bool,
    inexact: bool,
}

fn cmd_run(args: &[String]) {
    let vec_path = arg(args, "--vec").expect("--vec");
    let out_dir = arg(args, "--out").expect("--out");
    let seed: u64 = arg(args, "--seed").map(|s| s.parse().unwrap()).unwrap_or(1);
    let sample: usize = arg(args, "--sample").map(|s| s.parse().unwrap()).unwrap_or(5000);
    let all = args.iter().any(|a| a == "--all");
    let threads: usize = arg(args, "--threads").map(|s| s.parse().unwrap()).unwrap_or(4);

    // 1. read (scenario, allowed observation) pairs printed by TLC
    let f = std::io::BufReader::new(std::fs::File::open(&vec_path).unwrap_or_else(|e| panic!("open {vec_path}: {e}")));
    let mut map: BTreeMap<String, Case> = BTreeMap::new();
    let mut pairs = 0usize;
    for line in f.lines() {
        let line = line.unwrap();
        let Some(rest) = line.strip_prefix("<<\"VEC\", ") else { continue };
        let Some(inner) = rest.strip_suffix(">>") else { continue };
        let js: String = serde_json::from_str(inner).expect("VEC payload is a TLA+ string");
        let rec: Value = serde_json::from_str(&js).expect("VEC payload json");
        let key = serde_json::to_string(&rec["v"]).unwrap();
        let o = Obs::from_json(&rec["o"]);
        pairs += 1;
        map.entry(key.clone()).or_insert_with(|| Case { key, allowed: vec![] }).allowed.push(o);
    }
    let cases: Vec<Case> = map.into_values().collect();
    if cases.is_empty() {
        eprintln!("no VEC lines in {vec_path}");
        std::process::exit(3);
    }

    // 2. run every scenario on the real EyeballSet (several threads, each its own paused runtime)
    let nthreads = threads.max(1).min(cases.len());
    let chunk = (cases.len() + nthreads - 1) / nthreads;
    let mut outcomes: Vec<Option<Outcome>> = Vec::new();
    outcomes.resize_with(cases.len(), || None);
    std::thread::scope(|sc| {
        let mut handles = vec![];
        for (ci, (cs, os)) in cases.chunks(chunk).zip(outcomes.chunks_mut(chunk)).enumerate() {
            let _ = ci;
            handles.push(sc.spawn(move || {
                let rt = paused_rt();
                rt.block_on(async {
                    for (c, slot) in cs.iter().zip(os.iter_mut()) {
                        let scn = c.scn();
                        let width = scn.oc.len();
                        let (obs, inexact) = run_scenario(&scn, width).await;
                        let conform = c.allowed.iter().any(|a| *a == obs);
                        let m10 = mirror::c10(&scn, &obs);
                        let m11 = mirror::c11(&scn, &obs);
                        *slot = Some(Outcome { obs, conform, m10, m11, inexact });
                    }
                });
            }));
        }
        for h in handles {
            h.join().expect("worker thread");
        }
    });
    let outcomes: Vec<Outcome> = outcomes.into_iter().map(|o| o.unwrap()).collect();

    // 3. select records for the TLC monitor
    let mut selected: Vec<bool> = outcomes.iter().map(|o| all || !o.conform || !o.m10 || !o.m11).collect();
    let mut rest: Vec<usize> = (0..cases.len()).filter(|&i| !selected[i]).collect();
    let mut rng = rand::rngs::StdRng::seed_from_u64(seed);
    rest.shuffle(&mut rng);
    for &i in rest.iter().take(sample) {
        selected[i] = true;
    }
    std::fs::create_dir_all(&out_dir).unwrap();
    let mut w = std::io::BufWriter::new(std::fs::File::create(format!("{out_dir}/obs.ndjson")).unwrap());
    let mut nsel = 0usize;
    for (i, c) in cases.iter().enumerate() {
        if selected[i] {
            let o = &outcomes[i];
            serde_json::to_writer(&mut w, &json!({"sid": i + 1, "v": c.v(), "o": o.obs.to_json(), "conform": o.conform, "m10": o.m10, "m11": o.m11})).unwrap();
            w.write_all(b"\n").unwrap();
            nsel += 1;
        }
    }
    w.flush().unwrap();

    // 4. summary
    let mut kinds: BTreeMap<String, usize> = BTreeMap::new();
    let mut drift = vec![];
    let mut ndrift = 0usize;
    let (mut f10, mut f11, mut inexact) = (0usize, 0usize, 0usize);
    let mut nontrivial = 0usize;
    let mut conc0 = 0usize;
    for (c, o) in cases.iter().zip(outcomes.iter()) {
        *kinds.entry(o.obs.kind.to_string()).or_default() += 1;
        let scn = c.scn();
        if !o.conform {
            ndrift += 1;
            if drift.len() < 10 {
                drift.push(json!({"v": c.v(), "real": o.obs.to_json(), "allowed": c.allowed.iter().map(|a| a.to_json()).collect::<Vec<_>>()}));
            }
        }
        f10 += (!o.m10) as usize;
        f11 += (!o.m11) as usize;
        inexact += o.inexact as usize;
        // non-trivial: at least two attempts and something timed happens (a positive latency, delay or timeout)
        if scn.n >= 2 && (scn.lat.iter().take(scn.n).any(|&l| l > 0) || scn.delay > 0 || scn.tmo > 0) {
            nontrivial += 1;
        }
        if scn.conc == 0 && scn.n > 0 {
            conc0 += 1;
        }
    }
    let samples: Vec<Value> = [0usize, cases.len() / 3, cases.len() / 2, cases.len() - 1]
        .iter()
        .map(|&i| json!({"v": cases[i].v(), "real": outcomes[i].obs.to_json(), "conform": outcomes[i].conform}))
        .collect();
    let _ = &cases[0].key;
    println!(
        "{}",
        json!({"pairs": pairs, "scenarios": cases.len(), "selected": nsel, "conform": cases.len() - ndrift, "drift": ndrift,
               "drift_examples": drift, "mirror_flag_c10": f10, "mirror_flag_c11": f11, "inexact_time": inexact,
               "kinds": kinds, "nontrivial": nontrivial, "conc0_scenarios": conc0, "samples": samples, "threads": nthreads})
    );
}

fn cmd_one(args: &[String]) {
    let inp = arg(args, "--in").expect("--in");
    let out = arg(args, "--out").expect("--out");
    let text = std::fs::read_to_string(&inp).unwrap();
    let doc: Value = serde_json::from_str(&text).expect("replay json");
    // accepts {"replay": {"records": [{"v":..}, ..]}} (violation file), {"records": [...]}, or a bare record
    let root = if doc.get("replay").is_some() { doc["replay"].clone() } else { doc };
    let recs: Vec<Value> = if let Some(a) = root.get("records").and_then(|r| r.as_array()) { a.clone() } else { vec![root] };
    let mut w = std::io::BufWriter::new(std::fs::File::create(&out).unwrap());
    let rt = paused_rt();
    rt.block_on(async {
        for (i, r) in recs.iter().enumerate() {
            let scn = Scn::from_json(&r["v"]);
            let (obs, _) = run_scenario(&scn, scn.oc.len()).await;
            serde_json::to_writer(&mut w, &json!({"sid": r.get("sid").cloned().unwrap_or(json!(i + 1)), "v": r["v"], "o": obs.to_json(),
                "conform": true, "m10": mirror::c10(&scn, &obs), "m11": mirror::c11(&scn, &obs)})).unwrap();
            w.write_all(b"\n").unwrap();
        }
    });
    w.flush().unwrap();
}

// -------------------------------------------------------------------------------------------------
// TCP layer: TcpTransport::connect_to_addrs against loopback ports. One-sided observations only.
mod tcp {
    use super::*;
    use hyperdriver::client::conn::transport::tcp::{TcpTransport, TcpTransportConfig};
    use std::net::SocketAddr;
    use tokio::net::{TcpListener, TcpSocket, TcpStream as TokioStream};

    pub struct Env {
        pub listeners: Vec<TcpListener>,
        pub _fill: Vec<TokioStream>,
        pub never: Option<SocketAddr>,
        pub _never_l: Option<TcpListener>,
        pub bound: Vec<TcpSocket>,
    }

    /// A port that refuses connections: a socket that is bound (so nobody else can take the port while the
    /// scenario runs) but never listens.
    fn closed_port(env: &mut Env) -> SocketAddr {
        let s = TcpSocket::new_v4().unwrap();
        s.bind("127.0.0.1:0".parse().unwrap()).unwrap();
        let a = s.local_addr().unwrap();
        env.bound.push(s);
        a
    }

    /// A loopback port that does not answer: a listener with backlog 1 that never accepts and whose accept
    /// queue has been filled. Returns None when the kernel does not behave that way here.
    async fn never_port(env: &mut Env) {
        let s = TcpSocket::new_v4().unwrap();
        s.bind("127.0.0.1:0".parse().unwrap()).unwrap();
        let l = s.listen(1).unwrap();
        let a = l.local_addr().unwrap();
        let mut saturated = false;
        for _ in 0..16 {
            match tokio::time::timeout(Duration::from_millis(250), TokioStream::connect(a)).await {
                Ok(Ok(c)) => env._fill.push(c),
                Ok(Err(_)) => break,
                Err(_) => {
                    saturated = true;
                    break;
                }
            }
        }
        if saturated {
            // confirm with a second probe
            if tokio::time::timeout(Duration::from_millis(250), TokioStream::connect(a)).await.is_err() {
                env.never = Some(a);
            }
        }
        env._never_l = Some(l);
    }

    fn classify(msg: &str) -> &'static str {
        if msg.contains("Exhausted connection candidates") {
            "noprogress"
        } else if msg.starts_with("Connection attempts timed out after") {
            "timeout"
        } else if msg.contains("tcp connect error") {
            "err"
        } else {
            "other"
        }
    }

    pub async fn run(out: &str) {
        let mut env = Env { listeners: vec![], _fill: vec![], never: None, _never_l: None, bound: vec![] };
        never_port(&mut env).await;
        // scenario table: (outcomes, he_timeout ms or -1, concurrency or -1)
        let mut table: Vec<(Vec<&str>, i64, i64)> = vec![
            (vec![], 30000, 2),
            (vec![], -1, -1),
            (vec!["err"], 30000, 2),
            (vec!["err", "err", "err"], 30000, 2),
            (vec!["err", "err", "err"], -1, 1),
            (vec!["err", "err"], 30000, -1),
            (vec!["ok"], 30000, 2),
            (vec!["err", "ok"], 30000, 2),
            (vec!["err", "ok"], 30000, 1),
            (vec!["err", "ok"], -1, 1),
            (vec!["err", "err", "ok"], 30000, 1),
            (vec!["err", "err", "ok"], -1, -1),
            (vec!["ok", "err"], 30000, 1),
            (vec!["ok", "ok"], 30000, -1),
            (vec!["err", "ok", "err", "ok"], 30000, 0),
        ];
        if env.never.is_some() {
            table.extend(vec![
                (vec!["never", "ok"], 600, 1),
                (vec!["never", "never", "ok"], 900, 1),
                (vec!["never", "ok"], 600, 2),
                (vec!["never", "err", "ok"], 900, 1),
                (vec!["never"], 300, 2),
                (vec!["never", "never"], 400, 1),
                (vec!["never", "ok"], 400, 0),
            ]);
        }
        let mut w = std::io::BufWriter::new(std::fs::File::create(out).unwrap());
        let mut n = 0;
        for (ocs, tmo, conc) in table {
            let mut addrs: Vec<SocketAddr> = vec![];
            for oc in &ocs {
                match *oc {
                    "ok" => {
                        let l = TcpListener::bind("127.0.0.1:0").await.unwrap();
                        addrs.push(l.local_addr().unwrap());
                        env.listeners.push(l);
                    }
                    "err" => addrs.push(closed_port(&mut env)),
                    _ => addrs.push(env.never.unwrap()),
                }
            }
            let mut cfg = TcpTransportConfig::default();
            cfg.happy_eyeballs_timeout = if tmo < 0 { None } else { Some(Duration::from_millis(tmo as u64)) };
            cfg.happy_eyeballs_concurrency = if conc < 0 { None } else { Some(conc as usize) };
            cfg.connect_timeout = Some(Duration::from_secs(20));
            let transport: TcpTransport = TcpTransport::builder().with_config(cfg).with_gai_resolver().build();
            let t = std::time::Instant::now();
            let r = AssertUnwindSafe(transport.connect_to_addrs(addrs.clone())).catch_unwind().await;
            let elapsed = t.elapsed().as_millis() as i64;
            let (kind, id, msg) = match r {
                Err(_) => ("panic".to_string(), 0usize, String::new()),
                Ok(Ok(s)) => {
                    let peer = s.peer_addr().ok();
                    // with a repeated "never" address the first matching index is reported; ok addresses are unique
                    let id = peer.and_then(|p| addrs.iter().position(|a| *a == p)).map(|p| p + 1).unwrap_or(0);
                    ("ok".to_string(), id, String::new())
                }
                Ok(Err(e)) => {
                    let m = e.to_string();
                    (classify(&m).to_string(), 0, m)
                }
            };
            // lower bound on the stagger: when candidates 1..id-1 never answer and id is beyond the initial batch,
            // id cannot have been started before (id - batch) * (timeout / n)
            let nn = ocs.len() as i64;
            let batch = if conc < 0 { nn } else { conc.max(1).min(nn) };
            let mut lb = NONE;
            if kind == "ok" && tmo >= 0 && (id as i64) > batch && ocs[..id - 1].iter().all(|o| *o == "never") {
                lb = (id as i64 - batch) * (tmo / nn);
            }
            n += 1;
            serde_json::to_writer(
                &mut w,
                &json!({"sid": n, "layer": "tcp", "v": {"n": ocs.len(), "oc": ocs, "tmoMs": tmo, "conc": conc},
                        "o": {"kind": kind, "id": id, "elapsedMs": elapsed, "delayLbMs": lb}, "msg": msg}),
            )
            .unwrap();
            w.write_all(b"\n").unwrap();
        }
        w.flush().unwrap();
        println!("{}", json!({"tcp_scenarios": n, "never_port_available": env.never.is_some()}));
    }
}

fn main() {
    let args: Vec<String> = std::env::args().collect();
    match args.get(1).map(|s| s.as_str()) {
        Some("run") => cmd_run(&args[2..]),
        Some("one") => cmd_one(&args[2..]),
        Some("tcp") => {
            let out = arg(&args[2..], "--out").expect("--out");
            let rt = tokio::runtime::Builder::new_current_thread().enable_all().build().unwrap();
            rt.block_on(tcp::run(&out));
        }
        _ => {
            eprintln!("usage: eyeballs run|one|tcp ...");
            std::process::exit(2);
        }
    }
}
