//! C10 / C11 driver: runs happy-eyeballs scenarios on the REAL `hyperdriver::verif::EyeballSet`
//! under paused tokio time with scripted attempt futures and records what it did.
//!
//!   eyeballs run --vec <tlc-output> --out <dir> --seed S --sample K [--all] [--threads T]
//!       <tlc-output>: stdout of TLC on Eyeballs_gen_*.cfg; every line `<<"VEC", "<json>">>` is a pair
//!       (scenario v, one observation o the spec allows). Scenarios are grouped, each is executed once.
//!       Writes <dir>/obs.ndjson (records for the TLC monitor EyeballsObs: every record flagged by the
//!       in-process mirror or not conformant, plus a seeded sample of K others, or all with --all) and
//!       prints a JSON summary on stdout. The mirror and the conformance comparison never decide.
//!   eyeballs one --in <file.json> --out <file.ndjson>     re-run the scenarios of a replay file
//!   eyeballs tcp --out <file.ndjson> [--vec <TCPVEC file>] [--tier quick|thorough] [--only <replay.json>]
//!       TCP layer: named loopback rows + every realizable vector of spec/TcpEyeballs.tla through
//!       TcpTransport::connect_to_addrs / Service::call (outcome-level observations)
//!
//! Panics of the code under test are caught and recorded as kind "panic".
use futures_util::FutureExt as _;
use hyperdriver::verif::{EyeballSet, HappyEyeballsError};
use rand::seq::SliceRandom;
use rand::SeedableRng;
use serde_json::{json, Value};
use std::cell::RefCell;
use std::collections::BTreeMap;
use std::future::Future;
use std::io::{BufRead, Write};
use std::panic::AssertUnwindSafe;
use std::pin::Pin;
use std::rc::Rc;
use std::task::{Context, Poll};
use std::time::Duration;
use tokio::time::Instant;

const U: u64 = 10; // ms of virtual time per model time unit
const HORIZON: u64 = 1000; // units after which a still pending operation is recorded as "hang"
const NONE: i64 = -1;

fn dur(x: i64) -> Option<Duration> {
    if x < 0 {
        None
    } else {
        Some(Duration::from_millis(x as u64 * U))
    }
}

#[derive(Clone, Debug)]
struct Scn {
    n: usize,
    oc: Vec<String>,
    lat: Vec<i64>,
    delay: i64,
    tmo: i64,
    conc: i64,
}

impl Scn {
    fn from_json(v: &Value) -> Scn {
        let n = v["n"].as_u64().expect("v.n") as usize;
        let oc: Vec<String> = v["oc"].as_array().expect("v.oc").iter().map(|x| x.as_str().unwrap().to_string()).collect();
        let lat: Vec<i64> = v["lat"].as_array().expect("v.lat").iter().map(|x| x.as_i64().unwrap()).collect();
        assert!(oc.len() >= n && lat.len() >= n);
        Scn { n, oc, lat, delay: v["delay"].as_i64().unwrap(), tmo: v["tmo"].as_i64().unwrap(), conc: v["conc"].as_i64().unwrap() }
    }
}

const W: usize = 6; // max attempts per scenario
const KINDS: [&str; 7] = ["ok", "err", "timeout", "noprogress", "hang", "panic", "other"];

/// An observation, compact (millions of allowed observations are held in memory in the thorough tier).
#[derive(Clone, Debug, PartialEq)]
struct Obs {
    kind: &'static str,
    id: i64,
    at: i64,
    width: u8,
    start: [i16; W],
    ord: [i8; W],
    drop: [i16; W],
}

impl Obs {
    fn new(kind: &str, id: i64, at: i64, start: &[i64], ord: &[i64], drop: &[i64]) -> Obs {
        let kind = KINDS.iter().copied().find(|k| *k == kind).unwrap_or("other");
        assert!(start.len() <= W && start.len() == ord.len() && start.len() == drop.len());
        let mut o = Obs { kind, id, at, width: start.len() as u8, start: [NONE as i16; W], ord: [0; W], drop: [NONE as i16; W] };
        for i in 0..start.len() {
            o.start[i] = start[i] as i16;
            o.ord[i] = ord[i] as i8;
            o.drop[i] = drop[i] as i16;
        }
        o
    }
    fn starts(&self) -> Vec<i64> {
        self.start[..self.width as usize].iter().map(|&x| x as i64).collect()
    }
    fn ords(&self) -> Vec<i64> {
        self.ord[..self.width as usize].iter().map(|&x| x as i64).collect()
    }
    fn drops(&self) -> Vec<i64> {
        self.drop[..self.width as usize].iter().map(|&x| x as i64).collect()
    }
    fn to_json(&self) -> Value {
        json!({"kind": self.kind, "id": self.id, "at": self.at, "start": self.starts(), "ord": self.ords(), "drop": self.drops()})
    }
    fn from_json(o: &Value) -> Obs {
        let arr = |k: &str| -> Vec<i64> { o[k].as_array().unwrap().iter().map(|x| x.as_i64().unwrap()).collect() };
        Obs::new(o["kind"].as_str().unwrap(), o["id"].as_i64().unwrap(), o["at"].as_i64().unwrap(), &arr("start"), &arr("ord"), &arr("drop"))
    }
}

struct Log {
    t0: Instant,
    start: Vec<i64>,
    ord: Vec<i64>,
    drop: Vec<i64>,
    nord: i64,
    inexact: bool,
}

impl Log {
    fn now(&mut self) -> i64 {
        let ms = (Instant::now() - self.t0).as_millis() as u64;
        if ms % U != 0 {
            self.inexact = true;
        }
        (ms / U) as i64
    }
}

/// A scripted connection attempt: records its first poll and its drop, completes `lat` units after its
/// first poll with Ok(i) / Err(i), or never.
struct Attempt {
    i: usize,
    oc: u8, // 0 ok, 1 err, 2 never
    lat: u64,
    started: bool,
    sleep: Option<Pin<Box<tokio::time::Sleep>>>,
    log: Rc<RefCell<Log>>,
}

impl Future for Attempt {
    type Output = Result<usize, usize>;
    fn poll(mut self: Pin<&mut Self>, cx: &mut Context<'_>) -> Poll<Self::Output> {
        let this = &mut *self;
        if !this.started {
            this.started = true;
            let mut log = this.log.borrow_mut();
            let t = log.now();
            log.nord += 1;
            let k = log.nord;
            log.start[this.i] = t;
            log.ord[this.i] = k;
            if this.oc != 2 && this.lat > 0 {
                this.sleep = Some(Box::pin(tokio::time::sleep(Duration::from_millis(this.lat * U))));
            }
        }
        if this.oc == 2 {
            return Poll::Pending;
        }
        if let Some(s) = this.sleep.as_mut() {
            if s.as_mut().poll(cx).is_pending() {
                return Poll::Pending;
            }
        }
        Poll::Ready(if this.oc == 0 { Ok(this.i + 1) } else { Err(this.i + 1) })
    }
}

impl Drop for Attempt {
    fn drop(&mut self) {
        let mut log = self.log.borrow_mut();
        let t = log.now();
        log.drop[self.i] = t;
    }
}

/// One scenario on the real EyeballSet.
async fn run_scenario(s: &Scn, width: usize) -> (Obs, bool) {
    let t0 = Instant::now();
    let log = Rc::new(RefCell::new(Log { t0, start: vec![NONE; width], ord: vec![0; width], drop: vec![NONE; width], nord: 0, inexact: false }));
    let conc = if s.conc < 0 { None } else { Some(s.conc as usize) };
    let mut set: EyeballSet<Attempt, usize, usize> = EyeballSet::new(dur(s.delay), dur(s.tmo), conc);
    for i in 0..s.n {
        let oc = match s.oc[i].as_str() {
            "ok" => 0,
            "err" => 1,
            "never" => 2,
            other => panic!("bad outcome {other}"),
        };
        set.push(Attempt { i, oc, lat: s.lat[i] as u64, started: false, sleep: None, log: log.clone() });
    }
    let hang_snapshot;
    let r = {
        let fin = AssertUnwindSafe(set.finish()).catch_unwind();
        tokio::pin!(fin);
        let r = tokio::time::timeout(Duration::from_millis(HORIZON * U), &mut fin).await;
        // a still pending operation holds everything it has not released: snapshot before `fin` is dropped
        hang_snapshot = if r.is_err() {
            let l = log.borrow();
            Some((l.start.clone(), l.ord.clone(), l.drop.clone(), l.inexact))
        } else {
            None
        };
        r
    };
    let at = log.borrow_mut().now();
    let (kind, id, at) = match r {
        Err(_) => ("hang", 0, NONE),
        Ok(Err(_panic)) => ("panic", 0, at),
        Ok(Ok(Ok(i))) => ("ok", i as i64, at),
        Ok(Ok(Err(HappyEyeballsError::Error(i)))) => ("err", i as i64, at),
        Ok(Ok(Err(HappyEyeballsError::Timeout(_)))) => ("timeout", 0, at),
        Ok(Ok(Err(HappyEyeballsError::NoProgress))) => ("noprogress", 0, at),
        Ok(Ok(Err(_))) => ("other", 0, at),
    };
    if let Some((start, ord, drop, inexact)) = hang_snapshot {
        std::mem::drop(set);
        return (Obs::new(kind, id, at, &start, &ord, &drop), inexact);
    }
    // the caller drops the set as soon as finish() has returned
    std::mem::drop(set);
    let l = log.borrow();
    (Obs::new(kind, id, at, &l.start, &l.ord, &l.drop), l.inexact)
}

// -------------------------------------------------------------------------------------------------
// In-process mirror of spec/EyeballsProps.tla (screening only; TLC decides).
mod mirror {
    use super::{Obs, Scn, NONE};

    pub struct Flat {
        kind: &'static str,
        id: i64,
        at: i64,
        start: Vec<i64>,
        ord: Vec<i64>,
    }
    impl Flat {
        fn of(o: &Obs) -> Flat {
            Flat { kind: o.kind, id: o.id, at: o.at, start: o.starts(), ord: o.ords() }
        }
    }
    fn started(v: &Scn, o: &Flat) -> Vec<usize> {
        (0..v.n).filter(|&i| o.start[i] != NONE).collect()
    }
    fn fin(v: &Scn, o: &Flat, i: usize) -> i64 {
        o.start[i] + v.lat[i]
    }
    fn running(o: &Flat, t: i64) -> bool {
        o.kind == "hang" || o.at > t
    }

    pub fn c10(v: &Scn, o: &Obs) -> bool {
        let o = &Flat::of(o);
        let st = started(v, o);
        let succ: Vec<usize> = st.iter().copied().filter(|&i| v.oc[i] == "ok").collect();
        if !["ok", "err", "timeout", "noprogress", "hang"].contains(&o.kind) {
            return false;
        }
        if o.kind == "ok" {
            let id = o.id - 1;
            if id < 0 || !succ.contains(&(id as usize)) {
                return false;
            }
            let f = fin(v, o, id as usize);
            if f > o.at || succ.iter().any(|&j| fin(v, o, j) < f) {
                return false;
            }
        }
        if succ.iter().any(|&i| v.tmo == NONE || fin(v, o, i) < v.tmo) && o.kind != "ok" {
            return false;
        }
        if o.kind == "err" {
            if v.n == 0 || st.len() != v.n {
                return false;
            }
            if (0..v.n).any(|i| v.oc[i] != "err" || fin(v, o, i) > o.at) {
                return false;
            }
            let id = o.id - 1;
            if id < 0 || id as usize >= v.n {
                return false;
            }
            let f = fin(v, o, id as usize);
            if (0..v.n).any(|j| fin(v, o, j) < f) {
                return false;
            }
        }
        if o.kind == "timeout" && (v.tmo == NONE || o.at < v.tmo) {
            return false;
        }
        if o.kind == "noprogress" && v.n != 0 {
            return false;
        }
        if v.n == 0 && !(o.kind == "noprogress" && o.at == 0) {
            return false;
        }
        true
    }

    pub fn c11(v: &Scn, o: &Obs) -> bool {
        let o = &Flat::of(o);
        let st = started(v, o);
        // order
        for i in 0..v.n {
            if (o.start[i] != NONE) != (o.ord[i] > 0) {
                return false;
            }
        }
        for &i in &st {
            for &j in &st {
                if i < j && !(o.ord[i] < o.ord[j] && o.start[i] <= o.start[j]) {
                    return false;
                }
            }
        }
        for &j in &st {
            if (0..j).any(|i| o.start[i] == NONE) {
                return false;
            }
        }
        let initial = if v.conc == NONE { v.n } else { v.n.min((v.conc.max(1)) as usize) };
        let further: Vec<usize> = (initial..v.n).collect();
        let fail: Vec<usize> = st.iter().copied().filter(|&i| v.oc[i] == "err").collect();
        let stagger = |k: usize| v.delay != NONE && k > 0 && o.start[k - 1] != NONE && o.start[k] >= o.start[k - 1] + v.delay;
        // never earlier
        let fs: Vec<usize> = further.iter().copied().filter(|&k| o.start[k] != NONE).collect();
        for &k in &fs {
            if !stagger(k) {
                let need = fs.iter().filter(|&&j| j <= k && !stagger(j)).count();
                let have = fail.iter().filter(|&&i| i < k && fin(v, o, i) <= o.start[k]).count();
                if need > have {
                    return false;
                }
            }
        }
        // as soon as (delay)
        if v.delay != NONE {
            for &k in &further {
                if k > 0 && o.start[k - 1] != NONE && running(o, o.start[k - 1] + v.delay) && !(o.start[k] != NONE && o.start[k] <= o.start[k - 1] + v.delay) {
                    return false;
                }
            }
        }
        // as soon as (failure)
        for &i in &fail {
            let t = fin(v, o, i);
            if running(o, t) {
                let have = fs.iter().filter(|&&k| o.start[k] <= t).count();
                let want = fail.iter().filter(|&&j| fin(v, o, j) <= t).count().min(further.len());
                if have < want {
                    return false;
                }
            }
        }
        // deadline
        if v.tmo != NONE && (o.kind == "hang" || o.at > v.tmo) {
            return false;
        }
        true
    }
}

// -------------------------------------------------------------------------------------------------
fn arg(args: &[String], name: &str) -> Option<String> {
    args.iter().position(|a| a == name).and_then(|p| args.get(p + 1)).cloned()
}

fn paused_rt() -> tokio::runtime::Runtime {
    tokio::runtime::Builder::new_current_thread().enable_time().start_paused(true).build().unwrap()
}

struct Case {
    key: String, // canonical JSON of the scenario
    allowed: Vec<Obs>,
}

impl Case {
    fn v(&self) -> Value {
        serde_json::from_str(&self.key).unwrap()
    }
    fn scn(&self) -> Scn {
        Scn::from_json(&self.v())
    }
}

struct Outcome {
    obs: Obs,
    conform: bool,
    m10: bool,
    m11: bool,
    inexact: bool,
}

fn cmd_run(args: &[String]) {
    let vec_paths: Vec<String> = args.iter().enumerate().filter(|(_, a)| *a == "--vec").filter_map(|(i, _)| args.get(i + 1).cloned()).collect();
    assert!(!vec_paths.is_empty(), "--vec");
    let out_dir = arg(args, "--out").expect("--out");
    let seed: u64 = arg(args, "--seed").map(|s| s.parse().unwrap()).unwrap_or(1);
    let sample: usize = arg(args, "--sample").map(|s| s.parse().unwrap()).unwrap_or(5000);
    let all = args.iter().any(|a| a == "--all");
    let threads: usize = arg(args, "--threads").map(|s| s.parse().unwrap()).unwrap_or(4);

    // 1. read (scenario, allowed observation) pairs printed by TLC
    let mut map: BTreeMap<String, Case> = BTreeMap::new();
    let mut pairs = 0usize;
    for vec_path in &vec_paths {
        let f = std::io::BufReader::new(std::fs::File::open(vec_path).unwrap_or_else(|e| panic!("open {vec_path}: {e}")));
        for line in f.lines() {
            let line = line.unwrap();
            let Some(rest) = line.strip_prefix("<<\"VEC\", ") else { continue };
            let Some(inner) = rest.strip_suffix(">>") else { continue };
            let js: String = serde_json::from_str(inner).expect("VEC payload is a TLA+ string");
            let rec: Value = serde_json::from_str(&js).expect("VEC payload json");
            let key = serde_json::to_string(&rec["v"]).unwrap();
            let o = Obs::from_json(&rec["o"]);
            pairs += 1;
            map.entry(key.clone()).or_insert_with(|| Case { key, allowed: vec![] }).allowed.push(o);
        }
    }
    let cases: Vec<Case> = map.into_values().collect();
    if cases.is_empty() {
        eprintln!("no VEC lines in {vec_paths:?}");
        std::process::exit(3);
    }

    // 2. run every scenario on the real EyeballSet (several threads, each its own paused runtime)
    let nthreads = threads.max(1).min(cases.len());
    let chunk = (cases.len() + nthreads - 1) / nthreads;
    let mut outcomes: Vec<Option<Outcome>> = Vec::new();
    outcomes.resize_with(cases.len(), || None);
    std::thread::scope(|sc| {
        let mut handles = vec![];
        for (ci, (cs, os)) in cases.chunks(chunk).zip(outcomes.chunks_mut(chunk)).enumerate() {
            let _ = ci;
            handles.push(sc.spawn(move || {
                let rt = paused_rt();
                rt.block_on(async {
                    for (c, slot) in cs.iter().zip(os.iter_mut()) {
                        let scn = c.scn();
                        let width = scn.oc.len();
                        let (obs, inexact) = run_scenario(&scn, width).await;
                        let conform = c.allowed.iter().any(|a| *a == obs);
                        let m10 = mirror::c10(&scn, &obs);
                        let m11 = mirror::c11(&scn, &obs);
                        *slot = Some(Outcome { obs, conform, m10, m11, inexact });
                    }
                });
            }));
        }
        for h in handles {
            h.join().expect("worker thread");
        }
    });
    let outcomes: Vec<Outcome> = outcomes.into_iter().map(|o| o.unwrap()).collect();

    // 3. select records for the TLC monitor
    let mut selected: Vec<bool> = outcomes.iter().map(|o| all || !o.conform || !o.m10 || !o.m11).collect();
    let mut rest: Vec<usize> = (0..cases.len()).filter(|&i| !selected[i]).collect();
    let mut rng = rand::rngs::StdRng::seed_from_u64(seed);
    rest.shuffle(&mut rng);
    for &i in rest.iter().take(sample) {
        selected[i] = true;
    }
    std::fs::create_dir_all(&out_dir).unwrap();
    let mut w = std::io::BufWriter::new(std::fs::File::create(format!("{out_dir}/obs.ndjson")).unwrap());
    let mut nsel = 0usize;
    for (i, c) in cases.iter().enumerate() {
        if selected[i] {
            let o = &outcomes[i];
            serde_json::to_writer(&mut w, &json!({"sid": i + 1, "v": c.v(), "o": o.obs.to_json(), "conform": o.conform, "m10": o.m10, "m11": o.m11})).unwrap();
            w.write_all(b"\n").unwrap();
            nsel += 1;
        }
    }
    w.flush().unwrap();

    // 4. summary
    let mut kinds: BTreeMap<String, usize> = BTreeMap::new();
    let mut drift = vec![];
    let mut ndrift = 0usize;
    let (mut f10, mut f11, mut inexact) = (0usize, 0usize, 0usize);
    let mut nontrivial = 0usize;
    let mut conc0 = 0usize;
    let mut n4 = 0usize;
    for (c, o) in cases.iter().zip(outcomes.iter()) {
        *kinds.entry(o.obs.kind.to_string()).or_default() += 1;
        let scn = c.scn();
        if !o.conform {
            ndrift += 1;
            if drift.len() < 10 {
                drift.push(json!({"v": c.v(), "real": o.obs.to_json(), "allowed": c.allowed.iter().map(|a| a.to_json()).collect::<Vec<_>>()}));
            }
        }
        f10 += (!o.m10) as usize;
        f11 += (!o.m11) as usize;
        inexact += o.inexact as usize;
        // non-trivial: at least two attempts and something timed happens (a positive latency, delay or timeout)
        if scn.n >= 2 && (scn.lat.iter().take(scn.n).any(|&l| l > 0) || scn.delay > 0 || scn.tmo > 0) {
            nontrivial += 1;
        }
        if scn.conc == 0 && scn.n > 0 {
            conc0 += 1;
        }
        if scn.n >= 4 {
            n4 += 1;
        }
    }
    let samples: Vec<Value> = [0usize, cases.len() / 3, cases.len() / 2, cases.len() - 1]
        .iter()
        .map(|&i| json!({"v": cases[i].v(), "real": outcomes[i].obs.to_json(), "conform": outcomes[i].conform}))
        .collect();
    let _ = &cases[0].key;
    println!(
        "{}",
        json!({"pairs": pairs, "scenarios": cases.len(), "selected": nsel, "conform": cases.len() - ndrift, "drift": ndrift,
               "drift_examples": drift, "mirror_flag_c10": f10, "mirror_flag_c11": f11, "inexact_time": inexact,
               "kinds": kinds, "nontrivial": nontrivial, "conc0_scenarios": conc0, "scenarios_with_4_attempts": n4, "samples": samples, "threads": nthreads})
    );
}

fn cmd_one(args: &[String]) {
    let inp = arg(args, "--in").expect("--in");
    let out = arg(args, "--out").expect("--out");
    let text = std::fs::read_to_string(&inp).unwrap();
    let doc: Value = serde_json::from_str(&text).expect("replay json");
    // accepts {"replay": {"records": [{"v":..}, ..]}} (violation file), {"records": [...]}, or a bare record
    let root = if doc.get("replay").is_some() { doc["replay"].clone() } else { doc };
    let recs: Vec<Value> = if let Some(a) = root.get("records").and_then(|r| r.as_array()) { a.clone() } else { vec![root] };
    let mut w = std::io::BufWriter::new(std::fs::File::create(&out).unwrap());
    let rt = paused_rt();
    rt.block_on(async {
        for (i, r) in recs.iter().enumerate() {
            let scn = Scn::from_json(&r["v"]);
            let (obs, _) = run_scenario(&scn, scn.oc.len()).await;
            serde_json::to_writer(&mut w, &json!({"sid": r.get("sid").cloned().unwrap_or(json!(i + 1)), "v": r["v"], "o": obs.to_json(),
                "conform": true, "m10": mirror::c10(&scn, &obs), "m11": mirror::c11(&scn, &obs)})).unwrap();
            w.write_all(b"\n").unwrap();
        }
    });
    w.flush().unwrap();
}

// -------------------------------------------------------------------------------------------------
// TCP layer: TcpTransport::connect_to_addrs / Service::call against loopback ports.
// OUTCOME-level observations (which candidate was connected / class of the error); the only timing facts
// recorded are one-sided (elapsed time, used for "never earlier" lower bounds and "timeout => deadline reached").
mod tcp {
    use super::*;
    use hyperdriver::client::conn::transport::tcp::{TcpTransport, TcpTransportConfig};
    use std::collections::BTreeSet;
    use std::net::{IpAddr, Ipv4Addr, Ipv6Addr, SocketAddr};
    use tokio::net::{TcpListener, TcpSocket, TcpStream as TokioStream};

    /// documentation addresses no host owns: binding a socket to them fails (EADDRNOTAVAIL)
    const BOGUS_V4: Ipv4Addr = Ipv4Addr::new(192, 0, 2, 77);
    const BOGUS_V6: Ipv6Addr = Ipv6Addr::new(0x2001, 0xdb8, 0, 0, 0, 0, 0xdead, 0xbeef);
    const UNIT_MS: i64 = 500; // one model time unit of spec/MC_TcpEyeballs.tla

    #[derive(Clone, Copy, PartialEq, Eq, Debug)]
    enum Bind {
        None,
        BogusV4,        // only local_address_ipv4 = BOGUS_V4 (prefers IPv4)
        BogusV6,        // only local_address_ipv6 = BOGUS_V6 (prefers IPv6)
        V6OkBogusV4,    // local_address_ipv6 = ::1, local_address_ipv4 = BOGUS_V4 (prefers IPv6)
    }

    #[derive(Clone, Debug)]
    struct Row {
        name: String,
        cands: Vec<(u8, &'static str)>, // (family, "ok" | "err" | "never"), in resolver order
        bind: Bind,
        tmo: i64,
        conc: i64,
        api: &'static str, // "addrs" | "call"
        allowed: Option<BTreeSet<(String, i64, String)>>, // outcomes the model allows (generated rows)
    }

    pub struct Env {
        listeners: Vec<TcpListener>,
        fill: Vec<TokioStream>,
        never: Vec<(SocketAddr, TcpListener)>,
        bound: Vec<TcpSocket>,
        v6: bool,
        bogus_v4: bool,
        bogus_v6: bool,
    }

    fn lo(f: u8) -> IpAddr {
        if f == 4 { IpAddr::V4(Ipv4Addr::LOCALHOST) } else { IpAddr::V6(Ipv6Addr::LOCALHOST) }
    }

    /// A port that refuses connections: bound (nobody else can take it meanwhile) but never listening.
    fn closed_port(env: &mut Env, f: u8) -> SocketAddr {
        let s = if f == 4 { TcpSocket::new_v4().unwrap() } else { TcpSocket::new_v6().unwrap() };
        s.bind(SocketAddr::new(lo(f), 0)).unwrap();
        let a = s.local_addr().unwrap();
        env.bound.push(s);
        a
    }

    /// A loopback port that does not answer: a listener with backlog 1 that never accepts and whose accept
    /// queue has been filled, so further SYNs are dropped.
    async fn never_port(env: &mut Env) -> bool {
        let s = TcpSocket::new_v4().unwrap();
        s.bind("127.0.0.1:0".parse().unwrap()).unwrap();
        let l = s.listen(1).unwrap();
        let a = l.local_addr().unwrap();
        let mut saturated = false;
        for _ in 0..16 {
            match tokio::time::timeout(Duration::from_millis(250), TokioStream::connect(a)).await {
                Ok(Ok(c)) => env.fill.push(c),
                Ok(Err(_)) => break,
                Err(_) => {
                    saturated = true;
                    break;
                }
            }
        }
        let ok = saturated && tokio::time::timeout(Duration::from_millis(250), TokioStream::connect(a)).await.is_err();
        if ok {
            env.never.push((a, l));
        }
        ok
    }

    fn bind_fails(addr: IpAddr) -> bool {
        let s = if addr.is_ipv4() { TcpSocket::new_v4() } else { TcpSocket::new_v6() };
        match s {
            Ok(s) => s.bind(SocketAddr::new(addr, 0)).is_err(),
            Err(_) => true,
        }
    }

    fn config(r: &Row) -> TcpTransportConfig {
        let mut cfg = TcpTransportConfig::default();
        cfg.happy_eyeballs_timeout = if r.tmo < 0 { None } else { Some(Duration::from_millis(r.tmo as u64)) };
        cfg.happy_eyeballs_concurrency = if r.conc < 0 { None } else { Some(r.conc as usize) };
        cfg.connect_timeout = Some(Duration::from_secs(20));
        match r.bind {
            Bind::None => {}
            Bind::BogusV4 => cfg.local_address_ipv4 = Some(BOGUS_V4),
            Bind::BogusV6 => cfg.local_address_ipv6 = Some(BOGUS_V6),
            Bind::V6OkBogusV4 => {
                cfg.local_address_ipv6 = Some(Ipv6Addr::LOCALHOST);
                cfg.local_address_ipv4 = Some(BOGUS_V4);
            }
        }
        cfg
    }

    fn setup_fails(bind: Bind, f: u8) -> bool {
        matches!((bind, f), (Bind::BogusV4, 4) | (Bind::V6OkBogusV4, 4) | (Bind::BogusV6, 6))
    }

    fn classify(msg: &str) -> (&'static str, &'static str) {
        if msg.contains("Exhausted connection candidates") {
            ("noprogress", "")
        } else if msg.starts_with("Connection attempts timed out after") {
            ("timeout", "")
        } else if msg.contains("tcp connect error") {
            ("err", "connect")
        } else if msg.contains("tcp bind local address") || msg.contains("tcp open error") || msg.contains("tcp set_nonblocking error") {
            ("err", "setup")
        } else {
            ("other", "")
        }
    }

    /// A resolver double answering every host with a fixed list (ports are rewritten by the transport).
    #[derive(Clone)]
    struct FixedResolver(Vec<SocketAddr>);
    impl tower::Service<Box<str>> for FixedResolver {
        type Response = hyperdriver::client::conn::dns::SocketAddrs;
        type Error = std::io::Error;
        type Future = std::future::Ready<Result<Self::Response, std::io::Error>>;
        fn poll_ready(&mut self, _: &mut Context<'_>) -> Poll<Result<(), std::io::Error>> {
            Poll::Ready(Ok(()))
        }
        fn call(&mut self, _host: Box<str>) -> Self::Future {
            std::future::ready(Ok(self.0.iter().copied().collect()))
        }
    }

    /// The order in which the real transport hands the candidates to the set (verif-hooks plan of the real
    /// sorting code), as indices into `cands`.
    fn plan_order(r: &Row) -> Vec<usize> {
        let transport: TcpTransport = TcpTransport::builder().with_config(config(r)).with_gai_resolver().build();
        let addrs: Vec<SocketAddr> = r
            .cands
            .iter()
            .enumerate()
            .map(|(i, (f, _))| {
                let ip = if *f == 4 { IpAddr::V4(Ipv4Addr::new(10, 0, 0, i as u8 + 1)) } else { IpAddr::V6(Ipv6Addr::new(0xfd00, 0, 0, 0, 0, 0, 0, i as u16 + 1)) };
                SocketAddr::new(ip, 1)
            })
            .collect();
        transport
            .verif_plan(addrs, 1)
            .iter()
            .map(|a| match a.ip() {
                IpAddr::V4(x) => x.octets()[3] as usize - 1,
                IpAddr::V6(x) => x.segments()[7] as usize - 1,
            })
            .collect()
    }

    async fn run_row(env: &mut Env, r: &Row, sid: usize) -> Option<Value> {
        // preconditions of the environment; a row that cannot be realized here is skipped (and counted)
        let needs_v6 = r.cands.iter().any(|c| c.0 == 6) || matches!(r.bind, Bind::V6OkBogusV4);
        if needs_v6 && !env.v6 {
            return None;
        }
        if matches!(r.bind, Bind::BogusV4 | Bind::V6OkBogusV4) && !env.bogus_v4 || r.bind == Bind::BogusV6 && !env.bogus_v6 {
            return None;
        }
        let nnever = r.cands.iter().filter(|c| c.1 == "never").count();
        while env.never.len() < nnever {
            if !never_port(env).await {
                return None;
            }
        }
        let call = r.api == "call";
        // "call": every candidate shares the request port, so at most one distinct (family, kind) role per family
        let mut addrs: Vec<SocketAddr> = vec![];
        let mut shared_port: Option<u16> = None;
        let mut nv = 0;
        for (f, kind) in &r.cands {
            let a = match *kind {
                "ok" => {
                    let bind_addr = match (call, shared_port) {
                        (true, Some(p)) => SocketAddr::new(lo(*f), p),
                        _ => SocketAddr::new(lo(*f), 0),
                    };
                    let l = TcpListener::bind(bind_addr).await.ok()?;
                    let a = l.local_addr().unwrap();
                    env.listeners.push(l);
                    a
                }
                "err" => match (call, shared_port) {
                    // through Service::call every candidate is attempted at the URI's port: own that port on this address too
                    // (bound, never listening), otherwise another process's listener there would answer
                    (true, Some(p)) => {
                        let s = if *f == 4 { TcpSocket::new_v4().ok()? } else { TcpSocket::new_v6().ok()? };
                        s.bind(SocketAddr::new(lo(*f), p)).ok()?;
                        let a = s.local_addr().ok()?;
                        env.bound.push(s);
                        a
                    }
                    _ => closed_port(env, *f),
                },
                _ => {
                    nv += 1;
                    env.never[nv - 1].0
                }
            };
            if call && shared_port.is_none() {
                shared_port = Some(a.port());
            }
            addrs.push(a);
        }
        let order = plan_order(r);
        let oc: Vec<&str> = order.iter().map(|&i| if setup_fails(r.bind, r.cands[i].0) { "setuperr" } else { r.cands[i].1 }).collect();
        let planned: Vec<SocketAddr> = order.iter().map(|&i| addrs[i]).collect();
        let t = std::time::Instant::now();
        let res: Result<Result<Option<SocketAddr>, String>, ()> = if call {
            use tower::ServiceExt as _;
            let port = shared_port.unwrap_or(9);
            let answer: Vec<SocketAddr> = addrs.iter().map(|a| SocketAddr::new(a.ip(), 7)).collect();
            let transport: TcpTransport<FixedResolver> = TcpTransport::builder().with_config(config(r)).with_resolver(FixedResolver(answer)).build();
            let (parts, _) = http::Request::builder().uri(format!("http://candidates.test:{port}/")).body(()).unwrap().into_parts();
            AssertUnwindSafe(transport.oneshot(parts)).catch_unwind().await.map(|r| r.map(|s| s.peer_addr().ok()).map_err(|e| e.to_string())).map_err(|_| ())
        } else {
            let transport: TcpTransport = TcpTransport::builder().with_config(config(r)).with_gai_resolver().build();
            AssertUnwindSafe(transport.connect_to_addrs(addrs.clone())).catch_unwind().await.map(|r| r.map(|s| s.peer_addr().ok()).map_err(|e| e.to_string())).map_err(|_| ())
        };
        let elapsed = t.elapsed().as_millis() as i64;
        let (kind, id, errclass, msg) = match res {
            Err(()) => ("panic".to_string(), 0usize, "".to_string(), String::new()),
            Ok(Ok(peer)) => {
                let id = peer.and_then(|p| planned.iter().position(|a| *a == p)).map(|p| p + 1).unwrap_or(0);
                ("ok".to_string(), id, "".to_string(), String::new())
            }
            Ok(Err(m)) => {
                let (k, c) = classify(&m);
                (k.to_string(), 0, c.to_string(), m)
            }
        };
        let conform = r.allowed.as_ref().map(|a| a.contains(&(kind.clone(), id as i64, errclass.clone())));
        Some(json!({"sid": sid, "layer": "tcp", "name": r.name, "api": r.api,
                    "v": {"n": oc.len(), "oc": oc, "tmoMs": r.tmo, "conc": r.conc},
                    "o": {"kind": kind, "id": id, "errclass": errclass, "elapsedMs": elapsed},
                    "conform": conform.unwrap_or(true), "from_model": conform.is_some(), "msg": msg, "bind": format!("{:?}", r.bind),
                    "families": order.iter().map(|&i| r.cands[i].0).collect::<Vec<_>>()}))
    }

    fn compact(oc: &[String], tmo: i64, conc: i64) -> String {
        format!("{}:t{}:c{}", oc.join(","), tmo, conc)
    }

    /// Realize a model vector (candidate outcomes in hand-over order) on loopback: set-up errors are IPv4 candidates
    /// under a bogus local IPv4 address, everything else IPv6 (::1); without set-up errors everything is IPv4.
    fn realize(oc: &[String], tmo_units: i64, conc: i64, allowed: BTreeSet<(String, i64, String)>) -> Option<Row> {
        let has_setup = oc.iter().any(|o| o == "setuperr");
        let cands: Vec<(u8, &'static str)> = oc
            .iter()
            .map(|o| match o.as_str() {
                "setuperr" => (4u8, "err"),
                "ok" => (if has_setup { 6 } else { 4 }, "ok"),
                "err" => (if has_setup { 6 } else { 4 }, "err"),
                _ => (if has_setup { 6 } else { 4 }, "never"),
            })
            .collect();
        let tmo = if tmo_units < 0 { -1 } else { tmo_units * UNIT_MS };
        let name = compact(oc, tmo, conc);
        let binds: &[Bind] = if has_setup { &[Bind::BogusV4, Bind::V6OkBogusV4] } else { &[Bind::None] };
        for &bind in binds {
            let row = Row { name: name.clone(), cands: cands.clone(), bind, tmo, conc, api: "addrs", allowed: Some(allowed.clone()) };
            // realizable iff the real sorting code keeps the hand-over order
            if plan_order(&row) == (0..cands.len()).collect::<Vec<_>>() {
                return Some(row);
            }
        }
        None
    }

    fn named_rows(tier: &str) -> Vec<Row> {
        let r = |name: &str, cands: Vec<(u8, &'static str)>, bind: Bind, tmo: i64, conc: i64, api: &'static str| Row { name: name.to_string(), cands, bind, tmo, conc, api, allowed: None };
        let mut rows = vec![
            // one candidate's local set-up fails (bind to an address the host does not own), the other family is live
            r("setup-error-other-family", vec![(6, "ok"), (4, "ok")], Bind::BogusV6, 30000, 2, "addrs"),
            r("setup-error-other-family/call", vec![(6, "ok"), (4, "ok")], Bind::BogusV6, 30000, 2, "call"),
            r("setup-error-other-family-v4", vec![(4, "ok"), (6, "ok")], Bind::BogusV4, 30000, 2, "addrs"),
            r("setup-error-other-family-v4/call", vec![(4, "ok"), (6, "ok")], Bind::BogusV4, 30000, 2, "call"),
            r("setup-error-other-family/conc1", vec![(6, "ok"), (4, "ok")], Bind::BogusV6, 30000, 1, "addrs"),
            r("setup-error-only-family", vec![(6, "ok")], Bind::BogusV6, 30000, 2, "addrs"),
            // the first two candidates never answer, the third is live: succeeds after one stagger interval
            r("blackholed-first-two", vec![(4, "never"), (4, "never"), (4, "ok")], Bind::None, 3000, 2, "addrs"),
            r("blackholed-first/conc1", vec![(4, "never"), (4, "ok")], Bind::None, 600, 1, "addrs"),
        ];
        if tier == "thorough" {
            rows.extend(vec![
                r("blackholed-first-two/conc1", vec![(4, "never"), (4, "never"), (4, "ok")], Bind::None, 900, 1, "addrs"),
                r("blackholed-first/conc2", vec![(4, "never"), (4, "ok")], Bind::None, 600, 2, "addrs"),
                r("blackholed-refused-live/conc1", vec![(4, "never"), (4, "err"), (4, "ok")], Bind::None, 900, 1, "addrs"),
                r("blackholed-only", vec![(4, "never")], Bind::None, 300, 2, "addrs"),
                r("blackholed-both/conc1", vec![(4, "never"), (4, "never")], Bind::None, 400, 1, "addrs"),
                r("blackholed-first/conc0", vec![(4, "never"), (4, "ok")], Bind::None, 400, 0, "addrs"),
            ]);
        }
        rows
    }

    fn read_tcpvec(path: &str) -> Vec<(Vec<String>, i64, i64, BTreeSet<(String, i64, String)>)> {
        let f = std::io::BufReader::new(std::fs::File::open(path).unwrap_or_else(|e| panic!("open {path}: {e}")));
        let mut map: BTreeMap<String, (Vec<String>, i64, i64, BTreeSet<(String, i64, String)>)> = BTreeMap::new();
        for line in f.lines() {
            let line = line.unwrap();
            let Some(rest) = line.strip_prefix("<<\"TCPVEC\", ") else { continue };
            let Some(inner) = rest.strip_suffix(">>") else { continue };
            let js: String = serde_json::from_str(inner).expect("TCPVEC payload");
            let rec: Value = serde_json::from_str(&js).expect("TCPVEC json");
            let n = rec["v"]["n"].as_u64().unwrap() as usize;
            let oc: Vec<String> = rec["v"]["oc"].as_array().unwrap().iter().take(n).map(|x| x.as_str().unwrap().to_string()).collect();
            let tmo = rec["v"]["tmoMs"].as_i64().unwrap();
            let conc = rec["v"]["conc"].as_i64().unwrap();
            let o = (rec["o"]["kind"].as_str().unwrap().to_string(), rec["o"]["id"].as_i64().unwrap(), rec["o"]["errclass"].as_str().unwrap().to_string());
            let key = format!("{}|{}", oc.len(), compact(&oc, tmo, conc));
            map.entry(key).or_insert_with(|| (oc, tmo, conc, BTreeSet::new())).3.insert(o);
        }
        map.into_values().collect()
    }

    pub async fn run(args: &[String]) {
        let out = arg(args, "--out").expect("--out");
        let tier = arg(args, "--tier").unwrap_or_else(|| "quick".into());
        let only: Option<BTreeSet<String>> = arg(args, "--only").map(|p| {
            let doc: Value = serde_json::from_str(&std::fs::read_to_string(&p).unwrap()).expect("replay json");
            let root = if doc.get("replay").is_some() { doc["replay"].clone() } else { doc };
            root["records"].as_array().map(|a| a.iter().filter_map(|r| r["name"].as_str().map(|s| s.to_string())).collect()).unwrap_or_default()
        });
        let v6 = async {
            let l = TcpListener::bind("[::1]:0").await.ok()?;
            TokioStream::connect(l.local_addr().ok()?).await.ok()?;
            Some(())
        }
        .await
        .is_some();
        let mut env = Env { listeners: vec![], fill: vec![], never: vec![], bound: vec![], v6,
                            bogus_v4: bind_fails(IpAddr::V4(BOGUS_V4)), bogus_v6: bind_fails(IpAddr::V6(BOGUS_V6)) };
        let mut rows = named_rows(&tier);
        let (mut generated, mut unrealizable, mut slow_skipped) = (0usize, 0usize, 0usize);
        if let Some(vec) = arg(args, "--vec") {
            for (oc, tmo, conc, allowed) in read_tcpvec(&vec) {
                // candidates that never answer cost real time: those are covered by the named rows only
                if oc.iter().any(|o| o == "never") {
                    slow_skipped += 1;
                    continue;
                }
                match realize(&oc, tmo, conc, allowed) {
                    Some(row) => {
                        generated += 1;
                        rows.push(row);
                    }
                    None => unrealizable += 1,
                }
            }
        }
        if let Some(only) = &only {
            rows.retain(|r| only.contains(&r.name));
        }
        let mut w = std::io::BufWriter::new(std::fs::File::create(&out).unwrap());
        let (mut n, mut skipped, mut drift) = (0usize, 0usize, 0usize);
        let mut drift_examples = vec![];
        for r in &rows {
            match run_row(&mut env, r, n + 1).await {
                Some(rec) => {
                    n += 1;
                    if rec["conform"] == json!(false) {
                        drift += 1;
                        if drift_examples.len() < 5 {
                            drift_examples.push(rec.clone());
                        }
                    }
                    serde_json::to_writer(&mut w, &rec).unwrap();
                    w.write_all(b"\n").unwrap();
                }
                None => skipped += 1,
            }
            // listeners and bound sockets of a finished row are released
            env.listeners.clear();
            env.bound.clear();
        }
        w.flush().unwrap();
        println!(
            "{}",
            json!({"tcp_runs": n, "named_rows": named_rows(&tier).len(), "generated_from_model": generated, "model_vectors_not_realizable": unrealizable,
                   "model_vectors_with_silent_candidates_left_to_named_rows": slow_skipped, "skipped_environment": skipped, "drift": drift, "drift_examples": drift_examples,
                   "ipv6_loopback": env.v6, "bogus_v4_bind_fails": env.bogus_v4, "bogus_v6_bind_fails": env.bogus_v6, "silent_ports": env.never.len()})
        );
    }
}

fn main() {
    let args: Vec<String> = std::env::args().collect();
    match args.get(1).map(|s| s.as_str()) {
        Some("run") => cmd_run(&args[2..]),
        Some("one") => cmd_one(&args[2..]),
        Some("tcp") => {
            let rt = tokio::runtime::Builder::new_current_thread().enable_all().build().unwrap();
            rt.block_on(tcp::run(&args[2..]));
        }
        _ => {
            eprintln!("usage: eyeballs run|one|tcp ...");
            std::process::exit(2);
        }
    }
}
