//! C01 end-to-end harness: the real `hyperdriver::Client` (full builder stack) and the bare
//! `ConnectionPoolService` against real `hyperdriver::Server`s (auto / http1 / http2) over duplex,
//! TCP loopback and Unix sockets, on a multi-thread tokio runtime.
//!
//! Everything a request carries (method, path, query, headers, body, and the response the server
//! must produce for it) is a deterministic function of (run seed, request id), so the server
//! recomputes the expectation from the id it *received* without shared state.
//!
//! Observation is through public API only:
//!  * `E2eTransport` (custom `Transport`): maps every origin onto its own in-process server and
//!    tags each IO with a `ConnState` (connection id, origin it was dialled for).
//!  * `ObservedProtocol<P>` / `ObservedConn<C>`: delegating `Protocol` / `Connection +
//!    PoolableConnection` wrappers around the real `HttpConnectionBuilder` / `HttpConnection`;
//!    `send_request` records `Send(r, c, origin_of_c, version, inflightBefore, afterUpgrade, broken)`
//!    atomically under the per-connection mutex.
//!  * the server's make-service gives each accepted connection an id; the handler records
//!    `Handle(sconn, origin, idInPath, idInHeader, idInBody, intact)`.
//!  * the caller records `Issue`, and one of `Response` / `Error` / `Cancel` / `Stuck`.
//!
//! The ndjson trace is decided by TLC (spec/EndToEndTrace.tla). Nothing here decides a verdict.

use std::collections::{BTreeMap, HashMap, HashSet, VecDeque};
use std::convert::Infallible;
use std::future::Future;
use std::io;
use std::pin::Pin;
use std::sync::atomic::{AtomicU32, AtomicU64, Ordering};
use std::sync::{Arc, Mutex};
use std::task::{Context, Poll};
use std::time::Duration;

use bytes::Bytes;
use http::{HeaderValue, Method, Request, Response, StatusCode, Version};
use http_body::{Body as HttpBody, Frame, SizeHint};
use http_body_util::BodyExt;
use serde_json::{json, Value};
use tokio::io::{AsyncRead, AsyncReadExt, AsyncWrite, AsyncWriteExt, ReadBuf};
use tokio::sync::Notify;
use tower::{Service, ServiceExt};

use hyperdriver::bridge::io::TokioIo;
use hyperdriver::bridge::rt::TokioExecutor;
use hyperdriver::client::conn::connection::ConnectionError;
use hyperdriver::client::conn::protocol::auto::HttpConnectionBuilder;
use hyperdriver::client::conn::transport::TlsTransport;
use hyperdriver::client::conn::{Connection, ProtocolRequest};
use hyperdriver::client::pool::{PoolableConnection, PoolableStream};
use hyperdriver::client::ConnectionPoolService;
use hyperdriver::info::{ConnectionInfo, HasConnectionInfo};
use hyperdriver::server::conn::Acceptor;
use hyperdriver::service::{
    make_service_fn, Http1ChecksLayer, Http2ChecksLayer, RequestExecutor, SetHostHeaderLayer,
};
use hyperdriver::stream::Braid;

type BoxFut<T> = Pin<Box<dyn Future<Output = T> + Send + 'static>>;
type BoxError = Box<dyn std::error::Error + Send + Sync + 'static>;

// ------------------------------------------------------------------------------------------------
// deterministic pseudo-randomness (independent of the rand crate's algorithms)

#[derive(Clone)]
struct Rng(u64);

fn mix(a: u64, b: u64) -> u64 {
    let mut z = a
        .wrapping_mul(0x9E37_79B9_7F4A_7C15)
        .wrapping_add(b.wrapping_mul(0xD1B5_4A32_D192_ED03))
        .wrapping_add(0x2545_F491_4F6C_DD1D);
    z = (z ^ (z >> 30)).wrapping_mul(0xBF58_476D_1CE4_E5B9);
    z = (z ^ (z >> 27)).wrapping_mul(0x94D0_49BB_1331_11EB);
    z ^ (z >> 31)
}

impl Rng {
    fn new(seed: u64) -> Self {
        Rng(mix(seed, 0x1234_5678))
    }
    fn next(&mut self) -> u64 {
        self.0 = self.0.wrapping_add(0x9E37_79B9_7F4A_7C15);
        let mut z = self.0;
        z = (z ^ (z >> 30)).wrapping_mul(0xBF58_476D_1CE4_E5B9);
        z = (z ^ (z >> 27)).wrapping_mul(0x94D0_49BB_1331_11EB);
        z ^ (z >> 31)
    }
    fn below(&mut self, n: u64) -> u64 {
        if n == 0 {
            0
        } else {
            self.next() % n
        }
    }
    fn range(&mut self, lo: u64, hi: u64) -> u64 {
        lo + self.below(hi - lo + 1)
    }
    fn pct(&mut self, p: u64) -> bool {
        self.below(100) < p
    }
    fn pick<T: Clone>(&mut self, xs: &[T]) -> T {
        xs[self.below(xs.len() as u64) as usize].clone()
    }
}

fn fnv1a(data: &[u8]) -> u64 {
    let mut h: u64 = 0xcbf2_9ce4_8422_2325;
    for b in data {
        h ^= *b as u64;
        h = h.wrapping_mul(0x0000_0100_0000_01B3);
    }
    h
}

/// Body of request/response `id`: "<id>:" followed by pseudo-random bytes.
fn gen_body(seed: u64, id: u32, tag: u64, len: usize) -> Vec<u8> {
    let mut v = Vec::with_capacity(len);
    if len == 0 {
        return v;
    }
    v.extend_from_slice(format!("{id}:").as_bytes());
    let mut rng = Rng::new(mix(mix(seed, id as u64), tag));
    while v.len() < len {
        v.extend_from_slice(&rng.next().to_le_bytes());
    }
    v.truncate(len);
    v
}

fn body_id(b: &[u8]) -> i64 {
    let n = b.iter().take(12).position(|c| *c == b':');
    match n {
        Some(n) if n > 0 => std::str::from_utf8(&b[..n])
            .ok()
            .and_then(|s| s.parse::<i64>().ok())
            .unwrap_or(-1),
        _ => -1,
    }
}

// ------------------------------------------------------------------------------------------------
// run configuration and per-request plans

#[derive(Clone, Copy, PartialEq, Eq, Debug)]
enum Proto {
    Auto,
    H1,
    H2,
}
#[derive(Clone, Copy, PartialEq, Eq, Debug)]
enum Tr {
    Duplex,
    Tcp,
    Unix,
}
#[derive(Clone, Copy, PartialEq, Eq, Debug)]
enum Stack {
    Client,
    Pool,
}

/// The six origins: they differ in scheme, host and port; letter case of the host is varied per
/// request (same origin). Each one is served by its own server instance.
const ORIGINS: [(&str, &str, Option<u16>); 6] = [
    ("http", "a.test", None),
    ("https", "a.test", None),
    ("http", "a.test", Some(8080)),
    ("https", "a.test", Some(8080)),
    ("http", "b.test", None),
    ("http", "a.test", Some(8081)),
];

#[derive(Clone, Debug)]
struct OriginCfg {
    idx: usize, // index into ORIGINS: the origin id that appears in the trace
    proto: Proto,
    tr: Tr,
}

impl OriginCfg {
    fn scheme(&self) -> &'static str {
        ORIGINS[self.idx].0
    }
    fn host(&self) -> &'static str {
        ORIGINS[self.idx].1
    }
    fn port(&self) -> Option<u16> {
        ORIGINS[self.idx].2
    }
    fn authority_lc(&self) -> String {
        match self.port() {
            Some(p) => format!("{}:{}", self.host(), p),
            None => self.host().to_string(),
        }
    }
}

#[derive(Clone, Debug)]
struct Wave {
    n: usize,
    kill: Vec<usize>, // positions in cfg.origins whose server-side connections are torn down afterwards
}

#[derive(Clone, Debug)]
struct RunCfg {
    master: u64,
    run: usize,
    seed: u64,
    thorough: bool,
    stack: Stack,
    origins: Vec<OriginCfg>,
    cap: bool, // pool::Config::continue_after_preemption
    idle_timeout: bool,
    waves: Vec<Wave>,
    n_main: usize,
    zone_d7: bool, // allow duplex buffers < 24 bytes for HTTP/2 dials to an auto-detecting server
    p_cancel: u64,
    p_upgrade: u64,
}

impl RunCfg {
    fn derive(master: u64, run: usize, thorough: bool, max_req: usize) -> RunCfg {
        let seed = mix(master, run as u64);
        let mut rng = Rng::new(seed);
        let stack = if run % 2 == 0 { Stack::Client } else { Stack::Pool };
        let n_or = rng.pick(&[2usize, 2, 3, 3, 4, 5, 6]);
        let mut idxs: Vec<usize> = (0..ORIGINS.len()).collect();
        // choose a subset, keep table order
        while idxs.len() > n_or {
            let k = rng.below(idxs.len() as u64) as usize;
            idxs.remove(k);
        }
        let origins = idxs
            .into_iter()
            .map(|idx| OriginCfg {
                idx,
                proto: rng.pick(&[Proto::Auto, Proto::Auto, Proto::H1, Proto::H2]),
                tr: if thorough {
                    rng.pick(&[Tr::Duplex, Tr::Duplex, Tr::Tcp, Tr::Unix])
                } else {
                    rng.pick(&[Tr::Duplex, Tr::Duplex, Tr::Duplex, Tr::Tcp])
                },
            })
            .collect::<Vec<_>>();
        let cap = rng.below(8) != 0;
        let idle_timeout = rng.pct(50);
        let n_waves = rng.below(4) as usize;
        let mut waves = Vec::new();
        for _ in 0..n_waves {
            let n = rng.range(1, 6) as usize;
            let mut kill = Vec::new();
            for p in 0..origins.len() {
                if rng.pct(30) {
                    kill.push(p);
                }
            }
            waves.push(Wave { n, kill });
        }
        let n_main = if thorough {
            rng.range(8.min(max_req as u64), max_req as u64) as usize
        } else {
            max_req
        };
        let zone_d7 = rng.below(8) == 0;
        let p_cancel = rng.pick(&[0u64, 10, 20, 20, 30]);
        let p_upgrade = rng.pick(&[0u64, 5, 10, 10]);
        // development aids (notes/e2e.md): steer the random configuration towards one corner
        let envu = |k: &str| std::env::var(k).ok().and_then(|s| s.parse::<u64>().ok());
        let cap = envu("E2E_FORCE_CAP").map(|v| v != 0).unwrap_or(cap);
        let zone_d7 = envu("E2E_FORCE_D7").map(|v| v != 0).unwrap_or(zone_d7);
        let p_cancel = envu("E2E_PCANCEL").unwrap_or(p_cancel);
        RunCfg {
            master,
            run,
            seed,
            thorough,
            stack,
            origins,
            cap,
            idle_timeout,
            waves,
            n_main,
            zone_d7,
            p_cancel,
            p_upgrade,
        }
    }

    fn n_warm(&self) -> usize {
        self.waves.iter().map(|w| w.n).sum()
    }

    fn to_json(&self) -> Value {
        json!({
            "stack": format!("{:?}", self.stack),
            "origins": self.origins.iter().map(|o| json!({"o": o.idx, "uri": format!("{}://{}", o.scheme(), o.authority_lc()),
                "proto": format!("{:?}", o.proto), "tr": format!("{:?}", o.tr)})).collect::<Vec<_>>(),
            "cap": self.cap, "idleTimeout": self.idle_timeout,
            "waves": self.waves.iter().map(|w| json!({"n": w.n, "kill": w.kill.iter().map(|p| self.origins[*p].idx).collect::<Vec<_>>()})).collect::<Vec<_>>(),
            "nMain": self.n_main, "zoneD7": self.zone_d7, "pCancel": self.p_cancel, "pUpgrade": self.p_upgrade,
        })
    }
}

#[derive(Clone, Copy, Debug, PartialEq)]
enum Delay {
    None,
    Yield,
    SleepUs(u64),
}

async fn delay(d: Delay) {
    match d {
        Delay::None => {}
        Delay::Yield => tokio::task::yield_now().await,
        Delay::SleepUs(us) => tokio::time::sleep(Duration::from_micros(us)).await,
    }
}

#[derive(Clone, Copy, Debug, PartialEq)]
enum CancelPlan {
    None,
    AfterDelayUs(u64),
    AfterReqChunks(usize),
    AfterHead,
    AfterRespChunks(usize),
}

#[derive(Clone, Debug)]
struct Plan {
    id: u32,
    opos: usize, // position in cfg.origins
    host_spelling: String,
    h2: bool,
    method: Method,
    path: String,     // the path the server must see
    uri_path: String, // the path as the caller spells it in the URI ("" for the empty-path form)
    query: Option<String>,
    headers: Vec<(String, String)>,
    req_len: usize,
    req_exact: bool,
    req_chunks: Vec<(Delay, usize)>,
    upgrade: bool,
    status: u16,
    resp_headers: Vec<(String, String)>,
    resp_len: usize,
    resp_exact: bool,
    resp_chunks: Vec<(Delay, usize)>,
    handler_delay: Delay,
    srv_read_yield: u64,
    conn_close: bool,
    start_delay: Delay,
    cancel: CancelPlan,
    read_yield: u64,
}

fn rand_token(rng: &mut Rng, alphabet: &[u8], lo: u64, hi: u64) -> String {
    let n = rng.range(lo, hi);
    (0..n)
        .map(|_| alphabet[rng.below(alphabet.len() as u64) as usize] as char)
        .collect()
}

fn rand_len(rng: &mut Rng) -> usize {
    match rng.below(10) {
        0..=2 => 0,
        3..=6 => rng.range(1, 2048) as usize,
        7..=8 => rng.range(2049, 16384) as usize,
        _ => rng.range(16385, 65536) as usize,
    }
}

fn rand_delay(rng: &mut Rng) -> Delay {
    match rng.below(10) {
        0..=5 => Delay::None,
        6..=8 => Delay::Yield,
        _ => Delay::SleepUs(rng.range(50, 2000)),
    }
}

fn rand_chunks(rng: &mut Rng, len: usize) -> Vec<(Delay, usize)> {
    if len == 0 {
        return vec![];
    }
    let k = rng.pick(&[1u64, 1, 2, 3, 5, 8, 16]).min(len as u64) as usize;
    let mut cuts: Vec<usize> = (0..k - 1).map(|_| rng.range(1, len as u64 - 1).max(1) as usize).collect();
    cuts.push(len);
    cuts.sort();
    cuts.dedup();
    let mut out = Vec::new();
    let mut prev = 0;
    for c in cuts {
        if c > prev {
            out.push((rand_delay(rng), c - prev));
            prev = c;
        }
    }
    out
}

const PATH_CH: &[u8] = b"abcdefghijklmnopqrstuvwxyzABCXYZ0123456789-._~";
const VAL_CH: &[u8] = b"abcdefghijklmnopqrstuvwxyzABCDEFGHIJKLMNOPQRSTUVWXYZ0123456789-._~!#$&'()*+,/:;=?@[]^`{|} ";
const STATUSES: [u16; 11] = [200, 200, 200, 201, 202, 203, 400, 404, 409, 418, 500];

impl Plan {
    fn derive(cfg: &RunCfg, id: u32) -> Plan {
        let mut rng = Rng::new(mix(cfg.seed, 0xABCD_0000 + id as u64));
        let warm = (id as usize) <= cfg.n_warm();
        let opos = rng.below(cfg.origins.len() as u64) as usize;
        let o = &cfg.origins[opos];
        let h2 = match o.proto {
            Proto::H1 => false,
            Proto::H2 => true,
            Proto::Auto => rng.pct(50),
        };
        let host_spelling = match rng.below(4) {
            0 => o.host().to_uppercase(),
            1 => {
                let mut s = o.host().to_string();
                let up = s[..1].to_uppercase();
                s.replace_range(..1, &up);
                s
            }
            _ => o.host().to_string(),
        };
        let upgrade = !h2 && rng.pct(cfg.p_upgrade);
        let method = if upgrade {
            Method::GET
        } else {
            rng.pick(&[
                Method::GET,
                Method::GET,
                Method::POST,
                Method::POST,
                Method::PUT,
                Method::DELETE,
                Method::PATCH,
                Method::OPTIONS,
            ])
        };
        let nseg = rng.range(0, 3);
        let mut path = format!("/r/{id}");
        for _ in 0..nseg {
            path.push('/');
            path.push_str(&rand_token(&mut rng, PATH_CH, 1, 12));
            if rng.pct(10) {
                path.push_str("%41%2f");
            }
        }
        if rng.pct(15) {
            path.push('/');
        }
        // ~13 % of the requests address the ROOT: path "/" or an EMPTY path (`scheme://authority?query`); the id
        // then travels in the query string (`rid=<id>`) -- or, for the few root requests without a (non-empty)
        // query, only in the header and the body prefix.
        let root_form = if rng.pct(13) { rng.below(20) as i64 } else { -1 };
        let query = match rng.below(20) {
            0..=6 => None,
            7 => Some(String::new()),
            _ => {
                let n = rng.range(1, 3);
                Some(
                    (0..n)
                        .map(|_| {
                            format!(
                                "{}={}",
                                rand_token(&mut rng, PATH_CH, 1, 6),
                                rand_token(&mut rng, b"abcxyz0189%20+-._~", 0, 16).replace('%', "%25")
                            )
                        })
                        .collect::<Vec<_>>()
                        .join("&"),
                )
            }
        };
        let mut uri_path = path.clone();
        let mut query = query;
        if root_form >= 0 {
            let with_id = |q: Option<String>| match q {
                Some(q) if !q.is_empty() => Some(format!("rid={id}&{q}")),
                _ => Some(format!("rid={id}")),
            };
            let (up, q) = match root_form {
                0..=7 => ("/", with_id(query.clone())),   // /?rid=..
                8..=14 => ("", with_id(query.clone())),   // scheme://authority?rid=..
                15..=16 => ("/", None),                   // path only
                17 => ("", None),                         // scheme://authority
                18 => ("/", Some(String::new())),         // /?
                _ => ("", Some(String::new())),           // scheme://authority?
            };
            uri_path = up.to_string();
            path = "/".to_string(); // what a server sees for the root, whichever way it was spelled
            query = q;
        }
        let nh = rng.range(0, 5);
        let mut headers = Vec::new();
        for k in 0..nh {
            let name = format!("x-h{k}-{}", rand_token(&mut rng, b"abcdefghijklmnopqrstuvwxyz0123456789", 1, 8));
            let mut val = if rng.pct(8) {
                rand_token(&mut rng, VAL_CH, 200, 3000)
            } else {
                rand_token(&mut rng, VAL_CH, 0, 40)
            };
            val = val.trim().to_string();
            headers.push((name, val));
        }
        let mut req_len = if upgrade || (matches!(method, Method::GET | Method::DELETE | Method::OPTIONS) && rng.pct(60)) {
            0
        } else {
            rand_len(&mut rng)
        };
        if req_len > 0 {
            req_len = req_len.max(12);
        }
        // hyper's HTTP/1 client deliberately sends NO body for GET/HEAD/CONNECT when the body length is
        // unknown ("assume no body ... set the headers explicitly"): a GET body always has a length here
        let req_exact = rng.pct(50) || method == Method::GET;
        let req_chunks = rand_chunks(&mut rng, req_len);
        let status = rng.pick(&STATUSES);
        let nrh = rng.range(0, 4);
        let mut resp_headers = Vec::new();
        for k in 0..nrh {
            let name = format!("x-s{k}-{}", rand_token(&mut rng, b"abcdefghijklmnopqrstuvwxyz0123456789", 1, 8));
            let val = rand_token(&mut rng, VAL_CH, 0, 60).trim().to_string();
            resp_headers.push((name, val));
        }
        let mut resp_len = rand_len(&mut rng);
        if resp_len > 0 {
            resp_len = resp_len.max(12);
        }
        let resp_exact = rng.pct(50);
        let resp_chunks = rand_chunks(&mut rng, resp_len);
        let handler_delay = match rng.below(10) {
            0..=3 => Delay::None,
            4..=6 => Delay::Yield,
            _ => Delay::SleepUs(rng.range(100, 5000)),
        };
        let srv_read_yield = rng.pick(&[0u64, 0, 20, 50]);
        let conn_close = !h2 && rng.below(12) == 0;
        let start_delay = match rng.below(6) {
            0..=2 => Delay::None,
            3 => Delay::Yield,
            _ => Delay::SleepUs(rng.range(0, 3000)),
        };
        let p_cancel = if warm { cfg.p_cancel / 2 } else { cfg.p_cancel };
        let cancel = if rng.pct(p_cancel) {
            match rng.below(5) {
                0 | 1 => CancelPlan::AfterDelayUs(rng.range(0, 6000)),
                2 if !req_chunks.is_empty() => CancelPlan::AfterReqChunks(rng.range(1, req_chunks.len() as u64) as usize),
                3 => CancelPlan::AfterHead,
                4 if !resp_chunks.is_empty() => CancelPlan::AfterRespChunks(rng.range(1, resp_chunks.len() as u64) as usize),
                _ => CancelPlan::AfterDelayUs(rng.range(0, 3000)),
            }
        } else {
            CancelPlan::None
        };
        let read_yield = rng.pick(&[0u64, 0, 20, 50]);
        Plan {
            id,
            opos,
            host_spelling,
            h2,
            method,
            path,
            uri_path,
            query,
            headers,
            req_len,
            req_exact,
            req_chunks,
            upgrade,
            status,
            resp_headers,
            resp_len,
            resp_exact,
            resp_chunks,
            handler_delay,
            srv_read_yield,
            conn_close,
            start_delay,
            cancel,
            read_yield,
        }
    }

    fn uri(&self, cfg: &RunCfg) -> String {
        let o = &cfg.origins[self.opos];
        let mut s = format!("{}://{}", o.scheme(), self.host_spelling);
        if let Some(p) = o.port() {
            s.push_str(&format!(":{p}"));
        }
        s.push_str(&self.uri_path);
        if let Some(q) = &self.query {
            s.push('?');
            s.push_str(q);
        }
        s
    }

    fn summary(&self, cfg: &RunCfg) -> Value {
        json!({"id": self.id, "uri": self.uri(cfg), "ver": if self.h2 {"h2"} else {"h1"}, "method": self.method.as_str(),
               "nHeaders": self.headers.len(), "reqLen": self.req_len, "reqChunks": self.req_chunks.len(), "reqExact": self.req_exact,
               "upgrade": self.upgrade, "status": self.status, "respLen": self.resp_len, "respChunks": self.resp_chunks.len(),
               "connClose": self.conn_close, "cancel": format!("{:?}", self.cancel)})
    }
}

// ------------------------------------------------------------------------------------------------
// scripted body (request and response side): chunks with delays in between

struct ScriptBody {
    steps: VecDeque<(Delay, Bytes)>,
    exact: Option<u64>,
    sleeping: Option<Pin<Box<tokio::time::Sleep>>>,
    yielded: bool,
    emitted: usize,
    notify_after: Option<(usize, Arc<Notify>)>,
    progress: Option<Arc<AtomicU64>>,
}

impl Default for ScriptBody {
    fn default() -> Self {
        ScriptBody {
            steps: VecDeque::new(),
            exact: Some(0),
            sleeping: None,
            yielded: false,
            emitted: 0,
            notify_after: None,
            progress: None,
        }
    }
}

impl ScriptBody {
    fn new(data: Vec<u8>, chunks: &[(Delay, usize)], exact: bool, progress: Arc<AtomicU64>) -> Self {
        let data = Bytes::from(data);
        let mut steps = VecDeque::new();
        let mut at = 0;
        for (d, n) in chunks {
            steps.push_back((*d, data.slice(at..at + n)));
            at += n;
        }
        debug_assert_eq!(at, data.len());
        ScriptBody {
            steps,
            exact: if exact || data.is_empty() { Some(data.len() as u64) } else { None },
            progress: Some(progress),
            ..Default::default()
        }
    }
}

impl HttpBody for ScriptBody {
    type Data = Bytes;
    type Error = Infallible;

    fn poll_frame(mut self: Pin<&mut Self>, cx: &mut Context<'_>) -> Poll<Option<Result<Frame<Bytes>, Infallible>>> {
        let this = &mut *self;
        let Some((d, _)) = this.steps.front() else {
            return Poll::Ready(None);
        };
        match *d {
            Delay::None => {}
            Delay::Yield => {
                if !this.yielded {
                    this.yielded = true;
                    cx.waker().wake_by_ref();
                    return Poll::Pending;
                }
            }
            Delay::SleepUs(us) => {
                if !this.yielded {
                    let s = this
                        .sleeping
                        .get_or_insert_with(|| Box::pin(tokio::time::sleep(Duration::from_micros(us))));
                    match s.as_mut().poll(cx) {
                        Poll::Pending => return Poll::Pending,
                        Poll::Ready(()) => {
                            this.sleeping = None;
                            this.yielded = true;
                        }
                    }
                }
            }
        }
        let (_, data) = this.steps.pop_front().unwrap();
        this.yielded = false;
        this.emitted += 1;
        if let Some(p) = &this.progress {
            p.fetch_add(1, Ordering::Relaxed);
        }
        if let Some((k, n)) = &this.notify_after {
            if this.emitted == *k {
                n.notify_one();
            }
        }
        Poll::Ready(Some(Ok(Frame::data(data))))
    }

    fn is_end_stream(&self) -> bool {
        self.steps.is_empty()
    }

    fn size_hint(&self) -> SizeHint {
        match self.exact {
            Some(n) => SizeHint::with_exact(n),
            None => SizeHint::default(),
        }
    }
}

// ------------------------------------------------------------------------------------------------
// recorder

#[derive(PartialEq, Eq, PartialOrd, Ord, Clone, Copy)]
enum Key {
    Req(u32, u32),
    Handle(usize, u32, u32),
}

#[derive(Default)]
struct Recorder {
    events: Mutex<Vec<(Key, Value)>>,
    rseq: Mutex<HashMap<u32, u32>>,
    progress: Arc<AtomicU64>,
    handle_aborted: AtomicU32,
    srv_errors: Mutex<Vec<String>>,
}

impl Recorder {
    fn req(&self, r: u32, v: Value) {
        let q = {
            let mut m = self.rseq.lock().unwrap();
            let e = m.entry(r).or_insert(0);
            *e += 1;
            *e
        };
        self.events.lock().unwrap().push((Key::Req(r, q), v));
        self.progress.fetch_add(1, Ordering::Relaxed);
    }
    fn handle(&self, origin: usize, sconn: u32, seq: u32, v: Value) {
        self.events.lock().unwrap().push((Key::Handle(origin, sconn, seq), v));
        self.progress.fetch_add(1, Ordering::Relaxed);
    }
}

// ------------------------------------------------------------------------------------------------
// client-side connection state, transport, IO

#[derive(Debug)]
struct ConnInner {
    inflight: u32,     // send_request futures on this connection that have not resolved yet
    body_pending: u32, // responses handed to a caller that the caller has not finished / dropped yet

    upgraded: bool,
    broken: bool,
    sends: u32,
}

#[derive(Debug)]
struct ConnState {
    id: u32,
    opos: usize,
    origin: usize,
    mu: Mutex<ConnInner>,
}

#[derive(Clone, Debug)]
struct TagAddr(Arc<ConnState>);

impl std::fmt::Display for TagAddr {
    fn fmt(&self, f: &mut std::fmt::Formatter<'_>) -> std::fmt::Result {
        write!(f, "conn{}@o{}", self.0.id, self.0.origin)
    }
}

struct TaggedIo {
    inner: Braid,
    st: Arc<ConnState>,
}

impl HasConnectionInfo for TaggedIo {
    type Addr = TagAddr;
    fn info(&self) -> ConnectionInfo<TagAddr> {
        ConnectionInfo {
            local_addr: TagAddr(self.st.clone()),
            remote_addr: TagAddr(self.st.clone()),
        }
    }
}

impl PoolableStream for TaggedIo {
    fn can_share(&self) -> bool {
        false
    }
}

impl AsyncRead for TaggedIo {
    fn poll_read(mut self: Pin<&mut Self>, cx: &mut Context<'_>, buf: &mut ReadBuf<'_>) -> Poll<io::Result<()>> {
        Pin::new(&mut self.inner).poll_read(cx, buf)
    }
}

impl AsyncWrite for TaggedIo {
    fn poll_write(mut self: Pin<&mut Self>, cx: &mut Context<'_>, buf: &[u8]) -> Poll<io::Result<usize>> {
        Pin::new(&mut self.inner).poll_write(cx, buf)
    }
    fn poll_flush(mut self: Pin<&mut Self>, cx: &mut Context<'_>) -> Poll<io::Result<()>> {
        Pin::new(&mut self.inner).poll_flush(cx)
    }
    fn poll_shutdown(mut self: Pin<&mut Self>, cx: &mut Context<'_>) -> Poll<io::Result<()>> {
        Pin::new(&mut self.inner).poll_shutdown(cx)
    }
}

#[derive(Clone)]
enum Target {
    Duplex(hyperdriver::stream::duplex::DuplexClient),
    Tcp(std::net::SocketAddr),
    Unix(String),
}

/// Scenario device: dials are held at a gate (inside the requester's own future) until it is opened.
struct Gate {
    open: tokio::sync::watch::Receiver<bool>,
    dial_started: Arc<Notify>,
    h2_only: bool,
}

struct Registry {
    gate: Option<Gate>,
    cfg: Arc<RunCfg>,
    rec: Arc<Recorder>,
    targets: Vec<Target>,
    conns: Mutex<Vec<Arc<ConnState>>>,
    next_conn: AtomicU32,
    dials: AtomicU32,
}

impl Registry {
    fn route(&self, uri: &http::Uri) -> Option<usize> {
        let scheme = uri.scheme_str()?.to_ascii_lowercase();
        let host = uri.host()?.to_ascii_lowercase();
        let port = uri.port_u16();
        self.cfg
            .origins
            .iter()
            .position(|o| o.scheme() == scheme && o.host() == host && o.port() == port)
    }
}

#[derive(Clone)]
struct E2eTransport {
    reg: Arc<Registry>,
}

const DUPLEX_BUFS: [usize; 14] = [1, 2, 3, 7, 16, 23, 24, 25, 64, 256, 1024, 4096, 16384, 65536];

impl Service<http::request::Parts> for E2eTransport {
    type Response = TaggedIo;
    type Error = io::Error;
    type Future = BoxFut<Result<TaggedIo, io::Error>>;

    fn poll_ready(&mut self, _cx: &mut Context<'_>) -> Poll<Result<(), io::Error>> {
        Poll::Ready(Ok(()))
    }

    fn call(&mut self, parts: http::request::Parts) -> Self::Future {
        let reg = self.reg.clone();
        Box::pin(async move {
            let opos = reg
                .route(&parts.uri)
                .ok_or_else(|| io::Error::new(io::ErrorKind::Other, format!("no server for {}", parts.uri)))?;
            let o = reg.cfg.origins[opos].clone();
            let id = reg.next_conn.fetch_add(1, Ordering::SeqCst) + 1;
            let st = Arc::new(ConnState {
                id,
                opos,
                origin: o.idx,
                mu: Mutex::new(ConnInner {
                    inflight: 0,
                    body_pending: 0,
                    upgraded: false,
                    broken: false,
                    sends: 0,
                }),
            });
            // registered BEFORE the connect starts: see `kill_origin`
            reg.conns.lock().unwrap().push(st.clone());
            reg.dials.fetch_add(1, Ordering::Relaxed);
            let rid: i64 = hdr(&parts.headers, "x-rid").and_then(|s| s.parse().ok()).unwrap_or(-1);
            let target = reg.targets[opos].clone();
            let mut brng = Rng::new(mix(reg.cfg.seed, 0x00B0_F000 + id as u64));
            let mut buf = brng.pick(&DUPLEX_BUFS);
            if let Some(b) = std::env::var("E2E_BUF").ok().and_then(|s| s.parse().ok()) {
                buf = b; // development aid only
            }
            if parts.version == Version::HTTP_2 {
                // (a) An HTTP/2-only hyper server flushes its SETTINGS before it reads, while the hyper
                //     client writes its 24-byte preface before it reads: with less than 24 bytes of
                //     buffering in the transport the two handshakes block each other for ever. That is
                //     a property of hyper/h2, not of hyperdriver: excluded.
                // (b) The auto-detecting server reads the preface first, so small buffers are fine in
                //     principle; detection of a SPLIT preface is C08's subject (finding D7) and is
                //     exercised only in the designated `zoneD7` runs.
                if o.proto == Proto::H2 || !reg.cfg.zone_d7 {
                    buf = buf.max(24);
                }
            }
            if rid >= 0 {
                reg.rec.req(rid as u32, json!({"e": "Dial", "r": rid, "c": id, "corigin": o.idx, "tr": format!("{:?}", o.tr),
                    "sproto": format!("{:?}", o.proto), "buf": if o.tr == Tr::Duplex { buf as i64 } else { -1 },
                    "ver": ver_str(parts.version)}));
            }
            if let Some(g) = reg.gate.as_ref().filter(|g| !g.h2_only || parts.version == Version::HTTP_2) {
                g.dial_started.notify_one();
                let mut rx = g.open.clone();
                while !*rx.borrow() {
                    if rx.changed().await.is_err() {
                        break;
                    }
                }
            }
            // the connect itself is never abandoned half-way (a duplex connect whose requester went
            // away is C09's subject, finding D8): it completes in its own task
            let h = tokio::spawn(async move {
                match target {
                    Target::Duplex(c) => c.connect(buf).await.map(Braid::from),
                    Target::Tcp(a) => hyperdriver::stream::TcpStream::connect(a).await.map(Braid::from),
                    Target::Unix(p) => hyperdriver::stream::UnixStream::connect(p).await.map(Braid::from),
                }
            });
            let inner = h
                .await
                .map_err(|e| io::Error::new(io::ErrorKind::Other, format!("connect task: {e}")))??;
            Ok(TaggedIo { inner, st })
        })
    }
}

// ------------------------------------------------------------------------------------------------
// observation wrappers around the real protocol and connection

/// Held by the `send_request` future: the exchange is in flight until that future resolves (response
/// head received, error) or is dropped. The pooled handle lives in the same future
/// (`execute_request`), so on the unchanged crate nobody else can obtain the connection before the
/// guard is released; a Send that observes `inflight > 0` on HTTP/1 is a genuine overlap.
struct InflightGuard(Arc<ConnState>);

impl Drop for InflightGuard {
    fn drop(&mut self) {
        let mut g = self.0.mu.lock().unwrap();
        g.inflight = g.inflight.saturating_sub(1);
    }
}

/// Travels in the response extensions until the caller has consumed or dropped the response.
/// Informative only (`bodyPending` in Send): hyper reports an HTTP/1 connection ready as soon as the
/// response is complete ON THE WIRE, which can be before the caller has taken the last buffered
/// chunk -- so a caller-side count must not decide anything.
struct BodyGuard(Arc<ConnState>);

impl Drop for BodyGuard {
    fn drop(&mut self) {
        let mut g = self.0.mu.lock().unwrap();
        g.body_pending = g.body_pending.saturating_sub(1);
    }
}

#[derive(Clone)]
#[allow(dead_code)]
struct ConnTag {
    guard: Arc<BodyGuard>,
    conn: u32,
}

#[derive(Clone)]
struct ObservedProtocol<P> {
    inner: P,
    rec: Arc<Recorder>,
}

impl<P, IO, B, C> Service<ProtocolRequest<IO, B>> for ObservedProtocol<P>
where
    P: Service<ProtocolRequest<IO, B>, Response = C, Error = ConnectionError>,
    P::Future: Send + 'static,
    IO: HasConnectionInfo<Addr = TagAddr>,
    C: Send + 'static,
{
    type Response = ObservedConn<C>;
    type Error = ConnectionError;
    type Future = BoxFut<Result<ObservedConn<C>, ConnectionError>>;

    fn poll_ready(&mut self, cx: &mut Context<'_>) -> Poll<Result<(), ConnectionError>> {
        self.inner.poll_ready(cx)
    }

    fn call(&mut self, req: ProtocolRequest<IO, B>) -> Self::Future {
        let st = req.transport.info().remote_addr.0.clone();
        let rec = self.rec.clone();
        let fut = self.inner.call(req);
        Box::pin(async move {
            let inner = fut.await?;
            Ok(ObservedConn { inner, st, rec })
        })
    }
}

struct ObservedConn<C> {
    inner: C,
    st: Arc<ConnState>,
    rec: Arc<Recorder>,
}

impl<C: std::fmt::Debug> std::fmt::Debug for ObservedConn<C> {
    fn fmt(&self, f: &mut std::fmt::Formatter<'_>) -> std::fmt::Result {
        write!(f, "ObservedConn({}, {:?})", self.st.id, self.inner)
    }
}

fn ver_str(v: Version) -> &'static str {
    if v == Version::HTTP_2 {
        "h2"
    } else {
        "h1"
    }
}

impl<C, B> Connection<B> for ObservedConn<C>
where
    C: Connection<B>,
    B: 'static,
{
    type ResBody = C::ResBody;
    type Error = C::Error;
    type Future = BoxFut<Result<Response<C::ResBody>, C::Error>>;

    fn send_request(&mut self, request: Request<B>) -> Self::Future {
        let r: i64 = request
            .headers()
            .get("x-rid")
            .and_then(|v| v.to_str().ok())
            .and_then(|s| s.parse().ok())
            .unwrap_or(-1);
        let ver = ver_str(self.inner.version());
        let st = self.st.clone();
        {
            // atomically per connection: read the in-flight count and join it
            let mut g = st.mu.lock().unwrap();
            let inflight = g.inflight;
            g.inflight += 1;
            g.sends += 1;
            let ev = json!({"e": "Send", "r": r, "c": st.id, "corigin": st.origin, "ver": ver,
                            "inflight": inflight, "afterUpgrade": g.upgraded, "broken": g.broken, "cq": g.sends,
                            "bodyPending": g.body_pending});
            if r >= 0 {
                self.rec.req(r as u32, ev);
            }
        }
        let guard = InflightGuard(st.clone());
        let fut = self.inner.send_request(request);
        Box::pin(async move {
            let res = fut.await;
            match res {
                Ok(mut resp) => {
                    {
                        let mut g = st.mu.lock().unwrap();
                        if resp.status() == StatusCode::SWITCHING_PROTOCOLS {
                            g.upgraded = true;
                        }
                        g.body_pending += 1;
                    }
                    resp.extensions_mut().insert(ConnTag {
                        guard: Arc::new(BodyGuard(st.clone())),
                        conn: st.id,
                    });
                    drop(guard);
                    Ok(resp)
                }
                Err(e) => {
                    drop(guard);
                    Err(e)
                }
            }
        })
    }

    fn poll_ready(&mut self, cx: &mut Context<'_>) -> Poll<Result<(), Self::Error>> {
        self.inner.poll_ready(cx)
    }

    fn version(&self) -> Version {
        self.inner.version()
    }
}

impl<C, B> PoolableConnection<B> for ObservedConn<C>
where
    C: PoolableConnection<B>,
    B: Send + 'static,
{
    fn is_open(&self) -> bool {
        self.inner.is_open()
    }
    fn can_share(&self) -> bool {
        self.inner.can_share()
    }
    fn reuse(&mut self) -> Option<Self> {
        self.inner.reuse().map(|inner| ObservedConn {
            inner,
            st: self.st.clone(),
            rec: self.rec.clone(),
        })
    }
}

// ------------------------------------------------------------------------------------------------
// server side

struct SrvCtx {
    cfg: Arc<RunCfg>,
    opos: usize,
    rec: Arc<Recorder>,
    sconn: AtomicU32,
    hseq: AtomicU32,
    aborts: Arc<Mutex<Vec<tokio::task::AbortHandle>>>,
    /// Scenario device: the handler of this request id answers only once the gate is open.
    hold: Option<(i64, tokio::sync::watch::Receiver<bool>)>,
}

#[derive(Clone)]
struct TrackExec(Arc<Mutex<Vec<tokio::task::AbortHandle>>>);

impl<F> hyper::rt::Executor<F> for TrackExec
where
    F: Future + Send + 'static,
    F::Output: Send + 'static,
{
    fn execute(&self, fut: F) {
        let h = tokio::spawn(fut);
        let mut g = self.0.lock().unwrap();
        g.retain(|h| !h.is_finished());
        g.push(h.abort_handle());
    }
}

fn hdr<'a>(h: &'a http::HeaderMap, name: &str) -> Option<&'a str> {
    h.get(name).and_then(|v| v.to_str().ok())
}

async fn handle(ctx: Arc<SrvCtx>, sconn: u32, mut req: Request<hyperdriver::Body>) -> Result<Response<ScriptBody>, Infallible> {
    let cfg = ctx.cfg.clone();
    let o = &cfg.origins[ctx.opos];
    let path = req.uri().path().to_string();
    let id_header: i64 = hdr(req.headers(), "x-rid").and_then(|s| s.parse().ok()).unwrap_or(-1);
    // the id in the request target: `/r/<id>/..`, or `rid=<id>` in the query of a root request; the few root
    // requests without a non-empty query carry it only in the header (and body prefix)
    let mut id_path: i64 = path
        .strip_prefix("/r/")
        .map(|s| s.split('/').next().unwrap_or(""))
        .and_then(|s| s.parse().ok())
        .unwrap_or(-1);
    if id_path < 0 && path == "/" {
        id_path = match req.uri().query() {
            Some(q) if !q.is_empty() => q
                .split('&')
                .next()
                .and_then(|kv| kv.strip_prefix("rid="))
                .and_then(|s| s.parse().ok())
                .unwrap_or(-1),
            _ => id_header,
        };
    }
    let on_upgrade = if req.headers().contains_key(http::header::UPGRADE) && req.version() != Version::HTTP_2 {
        Some(hyper::upgrade::on(&mut req))
    } else {
        None
    };
    let (parts, mut body) = req.into_parts();
    let plan = if id_path >= 1 && id_path < 1_000_000 {
        Some(Plan::derive(&cfg, id_path as u32))
    } else {
        None
    };
    let yield_pct = plan.as_ref().map(|p| p.srv_read_yield).unwrap_or(0);
    let mut yrng = Rng::new(mix(cfg.seed, 0x5E5E_0000 + id_path as u64));
    let mut got = Vec::new();
    loop {
        match body.frame().await {
            Some(Ok(f)) => {
                if let Ok(d) = f.into_data() {
                    got.extend_from_slice(&d);
                    ctx.rec.progress.fetch_add(1, Ordering::Relaxed);
                }
                if yrng.pct(yield_pct) {
                    tokio::task::yield_now().await;
                }
            }
            Some(Err(_)) => {
                // the caller went away (cancel): this request was never completely received
                ctx.rec.handle_aborted.fetch_add(1, Ordering::Relaxed);
                return Ok(Response::builder().status(400).body(ScriptBody::default()).unwrap());
            }
            None => break,
        }
    }
    // ---- compare what arrived with what the caller of `id_path` sent
    let mut why: Vec<String> = Vec::new();
    let mut id_body = body_id(&got);
    if let Some(p) = &plan {
        if got.is_empty() && p.req_len == 0 {
            id_body = id_path;
        }
        if parts.method != p.method {
            why.push(format!("method {} != {}", parts.method, p.method));
        }
        if path != p.path {
            why.push(format!("path {path:?} != {:?}", p.path));
        }
        if parts.uri.query() != p.query.as_deref() {
            why.push(format!("query {:?} != {:?}", parts.uri.query(), p.query));
        }
        for (k, v) in &p.headers {
            match parts.headers.get(k) {
                Some(x) if x.as_bytes() == v.as_bytes() => {}
                other => why.push(format!("header {k}: {:?} != {v:?}", other)),
            }
        }
        let expect = gen_body(cfg.seed, p.id, 1, p.req_len);
        if got != expect {
            why.push(format!("body len {} != {} (or content differs)", got.len(), expect.len()));
        }
        let dig = format!("{:016x}", fnv1a(&got));
        if hdr(&parts.headers, "x-digest") != Some(dig.as_str()) {
            why.push(format!("digest header {:?} != {dig}", hdr(&parts.headers, "x-digest")));
        }
        if p.opos != ctx.opos {
            why.push(format!("request for origin {} handled by origin {}", cfg.origins[p.opos].idx, o.idx));
        }
        // authority the caller addressed (letter case is not significant)
        let auth = if parts.version == Version::HTTP_2 {
            parts.uri.authority().map(|a| a.as_str().to_ascii_lowercase())
        } else {
            hdr(&parts.headers, "host").map(|h| h.to_ascii_lowercase())
        };
        if auth.as_deref() != Some(cfg.origins[p.opos].authority_lc().as_str()) {
            why.push(format!("authority {:?} != {:?}", auth, cfg.origins[p.opos].authority_lc()));
        }
        if parts.version == Version::HTTP_2 && parts.uri.scheme_str() != Some(cfg.origins[p.opos].scheme()) {
            why.push(format!("scheme {:?}", parts.uri.scheme_str()));
        }
    } else {
        why.push(format!("no request id in path {path:?}"));
    }
    let seq = ctx.hseq.fetch_add(1, Ordering::SeqCst) + 1;
    let mut ev = json!({"e": "Handle", "sconn": sconn, "origin": o.idx, "idPath": id_path, "idHeader": id_header,
                        "idBody": id_body, "intact": why.is_empty(), "sver": ver_str(parts.version)});
    if !why.is_empty() {
        ev["why"] = json!(why.join("; "));
    }
    ctx.rec.handle(o.idx, sconn, seq, ev);

    let Some(p) = plan else {
        return Ok(Response::builder().status(400).body(ScriptBody::default()).unwrap());
    };
    delay(p.handler_delay).await;
    if let Some((id, rx)) = &ctx.hold {
        if *id == id_path {
            let mut rx = rx.clone();
            while !*rx.borrow() {
                if rx.changed().await.is_err() {
                    break;
                }
            }
        }
    }

    let mut rb = Response::builder()
        .header("x-rid", id_path.to_string())
        .header("x-origin", o.idx.to_string())
        .header("x-sconn", sconn.to_string());
    if p.upgrade && on_upgrade.is_some() {
        let on = on_upgrade.unwrap();
        let id = p.id;
        let prog = ctx.rec.progress.clone();
        tokio::spawn(async move {
            if let Ok(up) = on.await {
                let mut io = TokioIo::new(up);
                let ping = format!("ping:{id}");
                let mut buf = vec![0u8; ping.len()];
                if io.read_exact(&mut buf).await.is_ok() {
                    prog.fetch_add(1, Ordering::Relaxed);
                    let pong = if buf == ping.as_bytes() { format!("pong:{id}") } else { "bad!".to_string() };
                    let _ = io.write_all(pong.as_bytes()).await;
                    let _ = io.flush().await;
                    let _ = io.shutdown().await;
                }
            }
        });
        return Ok(rb
            .status(StatusCode::SWITCHING_PROTOCOLS)
            .header(http::header::UPGRADE, "verif-echo")
            .header(http::header::CONNECTION, "upgrade")
            .body(ScriptBody::default())
            .unwrap());
    }
    for (k, v) in &p.resp_headers {
        rb = rb.header(k.as_str(), HeaderValue::from_str(v).unwrap());
    }
    if p.conn_close && parts.version != Version::HTTP_2 {
        rb = rb.header(http::header::CONNECTION, "close");
    }
    let data = gen_body(cfg.seed, p.id, 2, p.resp_len);
    let body = ScriptBody::new(data, &p.resp_chunks, p.resp_exact, ctx.rec.progress.clone());
    Ok(rb.status(p.status).body(body).unwrap())
}

struct ServerHandle {
    task: tokio::task::JoinHandle<()>,
    aborts: Arc<Mutex<Vec<tokio::task::AbortHandle>>>,
}

fn spawn_server(ctx: Arc<SrvCtx>, acceptor: Acceptor, proto: Proto) -> tokio::task::JoinHandle<()> {
    let mctx = ctx.clone();
    let make = make_service_fn(move |_stream: &hyperdriver::server::conn::Stream| {
        let ctx = mctx.clone();
        let sconn = ctx.sconn.fetch_add(1, Ordering::SeqCst) + 1;
        async move {
            Ok::<_, Infallible>(tower::service_fn(move |req: Request<hyperdriver::Body>| {
                handle(ctx.clone(), sconn, req)
            }))
        }
    });
    let exec = TrackExec(ctx.aborts.clone());
    let rec = ctx.rec.clone();
    let oidx = ctx.cfg.origins[ctx.opos].idx;
    macro_rules! serve {
        ($server:expr) => {{
            let server = $server;
            tokio::spawn(async move {
                if let Err(e) = server.await {
                    rec.srv_errors.lock().unwrap().push(format!("origin {oidx}: server ended: {e}"));
                }
            })
        }};
    }
    match proto {
        Proto::Auto => {
            let mut b = hyperdriver::server::conn::auto::Builder::default();
            b.http2().max_pending_accept_reset_streams(Some(100_000));
            b.http2().max_local_error_reset_streams(Some(100_000));
            serve!(hyperdriver::Server::builder::<hyperdriver::Body>()
                .with_acceptor(acceptor)
                .with_protocol(b)
                .with_make_service(make)
                .with_executor(exec))
        }
        Proto::H1 => serve!(hyperdriver::Server::builder::<hyperdriver::Body>()
            .with_acceptor(acceptor)
            .with_http1()
            .with_make_service(make)
            .with_executor(exec)),
        Proto::H2 => {
            let mut b = hyper::server::conn::http2::Builder::new(TokioExecutor::new());
            b.max_pending_accept_reset_streams(Some(100_000));
            b.max_local_error_reset_streams(Some(100_000));
            serve!(hyperdriver::Server::builder::<hyperdriver::Body>()
                .with_acceptor(acceptor)
                .with_protocol(b)
                .with_make_service(make)
                .with_executor(exec))
        }
    }
}

// ------------------------------------------------------------------------------------------------
// the caller

enum Outcome {
    Response {
        status: u16,
        echo: i64,
        stamp: i64,
        status_ok: bool,
        headers_ok: bool,
        body_ok: bool,
        upgraded: bool,
        why: String,
    },
    Error(String),
    Cancel(&'static str),
}

fn err_chain(e: &(dyn std::error::Error + 'static)) -> String {
    let mut s = e.to_string();
    let mut cur = e.source();
    while let Some(c) = cur {
        s.push_str(": ");
        s.push_str(&c.to_string());
        cur = c.source();
    }
    s
}

struct Env {
    cfg: Arc<RunCfg>,
    rec: Arc<Recorder>,
}

async fn do_request<F, RB, E>(env: Arc<Env>, fut: F, plan: Arc<Plan>) -> Outcome
where
    F: Future<Output = Result<Response<RB>, E>>,
    RB: HttpBody<Data = Bytes> + Unpin,
    RB::Error: Into<BoxError> + Send,
    E: std::error::Error + 'static,
{
    let resp = match fut.await {
        Ok(r) => r,
        Err(e) => return Outcome::Error(format!("send: {}", err_chain(&e))),
    };
    let prog = env.rec.progress.clone();
    prog.fetch_add(1, Ordering::Relaxed);
    if plan.cancel == CancelPlan::AfterHead {
        return Outcome::Cancel("head");
    }
    let status = resp.status();
    let echo: i64 = hdr(resp.headers(), "x-rid").and_then(|s| s.parse().ok()).unwrap_or(-1);
    let stamp: i64 = hdr(resp.headers(), "x-origin").and_then(|s| s.parse().ok()).unwrap_or(-1);
    let mut why = Vec::new();
    if status == StatusCode::SWITCHING_PROTOCOLS {
        let mut resp = resp;
        let up = match hyper::upgrade::on(&mut resp).await {
            Ok(u) => u,
            Err(e) => return Outcome::Error(format!("upgrade: {}", err_chain(&e))),
        };
        let mut io = TokioIo::new(up);
        let ping = format!("ping:{}", plan.id);
        let pong = format!("pong:{}", plan.id);
        let mut buf = vec![0u8; pong.len()];
        let r: io::Result<()> = async {
            io.write_all(ping.as_bytes()).await?;
            io.flush().await?;
            io.read_exact(&mut buf).await?;
            Ok(())
        }
        .await;
        drop(resp); // releases the ConnTag: the exchange is over
        if let Err(e) = r {
            return Outcome::Error(format!("upgraded io: {e}"));
        }
        let body_ok = buf == pong.as_bytes();
        if !body_ok {
            why.push(format!("echo over upgraded io {:?}", String::from_utf8_lossy(&buf)));
        }
        let status_ok = plan.upgrade;
        if !status_ok {
            why.push("101 for a request that did not ask for an upgrade".to_string());
        }
        return Outcome::Response {
            status: 101,
            echo,
            stamp,
            status_ok,
            headers_ok: true,
            body_ok,
            upgraded: true,
            why: why.join("; "),
        };
    }
    let (parts, mut body) = resp.into_parts(); // `parts` keeps the ConnTag alive until the body is done
    let mut got = Vec::new();
    let mut chunks = 0usize;
    let mut yrng = Rng::new(mix(env.cfg.seed, 0xC1C1_0000 + plan.id as u64));
    loop {
        let fr = body.frame().await;
        match fr {
            Some(Ok(f)) => {
                if let Ok(d) = f.into_data() {
                    got.extend_from_slice(&d);
                    chunks += 1;
                    prog.fetch_add(1, Ordering::Relaxed);
                    if let CancelPlan::AfterRespChunks(k) = plan.cancel {
                        if chunks >= k {
                            return Outcome::Cancel("resp-chunks");
                        }
                    }
                }
            }
            Some(Err(e)) => {
                let e: BoxError = e.into();
                return Outcome::Error(format!("body: {}", err_chain(&*e)));
            }
            None => break,
        }
        if yrng.pct(plan.read_yield) {
            tokio::task::yield_now().await;
        }
    }
    drop(body);
    let status_ok = parts.status.as_u16() == plan.status;
    if !status_ok {
        why.push(format!("status {} != {}", parts.status, plan.status));
    }
    let mut headers_ok = true;
    for (k, v) in &plan.resp_headers {
        match parts.headers.get(k) {
            Some(x) if x.as_bytes() == v.as_bytes() => {}
            other => {
                headers_ok = false;
                why.push(format!("header {k}: {other:?} != {v:?}"));
            }
        }
    }
    let expect = gen_body(env.cfg.seed, plan.id, 2, plan.resp_len);
    let body_ok = got == expect;
    if !body_ok {
        why.push(format!("body len {} != {} (or content differs; id in body {})", got.len(), expect.len(), body_id(&got)));
    }
    drop(parts);
    Outcome::Response {
        status: status.as_u16(),
        echo,
        stamp,
        status_ok,
        headers_ok,
        body_ok,
        upgraded: false,
        why: why.join("; "),
    }
}

fn build_request(env: &Arc<Env>, plan: &Arc<Plan>, cancel: &Arc<Notify>) -> Request<ScriptBody> {
    let cfg = env.cfg.clone();
    let data = gen_body(cfg.seed, plan.id, 1, plan.req_len);
    let digest = format!("{:016x}", fnv1a(&data));
    let mut body = ScriptBody::new(data, &plan.req_chunks, plan.req_exact, env.rec.progress.clone());
    if let CancelPlan::AfterReqChunks(k) = plan.cancel {
        body.notify_after = Some((k, cancel.clone()));
    }
    let mut rb = Request::builder()
        .method(plan.method.clone())
        .uri(plan.uri(&cfg))
        .version(if plan.h2 { Version::HTTP_2 } else { Version::HTTP_11 })
        .header("x-rid", plan.id.to_string())
        .header("x-digest", digest);
    for (k, v) in &plan.headers {
        rb = rb.header(k.as_str(), HeaderValue::from_str(v).unwrap());
    }
    if plan.upgrade {
        rb = rb.header(http::header::UPGRADE, "verif-echo").header(http::header::CONNECTION, "upgrade");
    }
    rb.body(body).expect("request")
}

async fn run_request<S, RB, E>(env: Arc<Env>, svc: S, plan: Arc<Plan>)
where
    S: Service<Request<ScriptBody>, Response = Response<RB>, Error = E> + Send + 'static,
    S::Future: Send,
    RB: HttpBody<Data = Bytes> + Unpin + Send + 'static,
    RB::Error: Into<BoxError> + Send,
    E: std::error::Error + Send + 'static,
{
    delay(plan.start_delay).await;
    let cfg = env.cfg.clone();
    let o = &cfg.origins[plan.opos];
    env.rec.req(
        plan.id,
        json!({"e": "Issue", "r": plan.id, "origin": o.idx, "ver": if plan.h2 {"h2"} else {"h1"}, "upg": plan.upgrade}),
    );
    let cancel = Arc::new(Notify::new());
    let req = build_request(&env, &plan, &cancel);
    // (request built)
    let mut op: Option<BoxFut<Outcome>> = Some(Box::pin(do_request(env.clone(), svc.oneshot(req), plan.clone())));
    let out = match plan.cancel {
        CancelPlan::AfterDelayUs(us) => {
            tokio::select! {
                biased;
                o = op.as_mut().unwrap() => o,
                _ = tokio::time::sleep(Duration::from_micros(us)) => Outcome::Cancel("delay"),
            }
        }
        CancelPlan::AfterReqChunks(_) => {
            tokio::select! {
                biased;
                o = op.as_mut().unwrap() => o,
                _ = cancel.notified() => Outcome::Cancel("req-chunks"),
            }
        }
        _ => op.as_mut().unwrap().await,
    };
    drop(op.take()); // the request future (and everything it owns) is gone before the terminal event
    let ev = match out {
        Outcome::Response {
            status,
            echo,
            stamp,
            status_ok,
            headers_ok,
            body_ok,
            upgraded,
            why,
        } => {
            let mut ev = json!({"e": "Response", "r": plan.id, "echo": echo, "stamp": stamp, "status": status,
                                "statusOk": status_ok, "headersOk": headers_ok, "bodyOk": body_ok, "upgraded": upgraded});
            if !why.is_empty() {
                ev["why"] = json!(why);
            }
            ev
        }
        Outcome::Error(kind) => json!({"e": "Error", "r": plan.id, "kind": kind}),
        Outcome::Cancel(stage) => json!({"e": "Cancel", "r": plan.id, "stage": stage}),
    };
    env.rec.req(plan.id, ev);
}

/// Runs a batch of requests concurrently (one task each, spread over the worker threads) and
/// waits for them. A request that neither completes nor fails while NOTHING in the whole process
/// makes progress for `STALL` is recorded as `Stuck` (one-sided: used only to end the run).
const STALL: Duration = Duration::from_secs(8);

async fn run_batch<S, RB, E>(env: &Arc<Env>, svc: &S, ids: std::ops::RangeInclusive<u32>) -> usize
where
    S: Service<Request<ScriptBody>, Response = Response<RB>, Error = E> + Clone + Send + 'static,
    S::Future: Send,
    RB: HttpBody<Data = Bytes> + Unpin + Send + 'static,
    RB::Error: Into<BoxError> + Send,
    E: std::error::Error + Send + 'static,
{
    let mut handles = Vec::new();
    for id in ids {
        let plan = Arc::new(Plan::derive(&env.cfg, id));
        let h = tokio::spawn(run_request(env.clone(), svc.clone(), plan));
        handles.push((id, h));
    }
    let mut last = env.rec.progress.load(Ordering::Relaxed);
    let mut last_change = std::time::Instant::now();
    loop {
        if handles.iter().all(|(_, h)| h.is_finished()) {
            break;
        }
        tokio::time::sleep(Duration::from_millis(2)).await;
        let now = env.rec.progress.load(Ordering::Relaxed);
        if now != last {
            last = now;
            last_change = std::time::Instant::now();
        } else if last_change.elapsed() > STALL {
            break;
        }
    }
    let mut stuck = 0;
    for (id, h) in handles {
        if !h.is_finished() {
            h.abort();
            let _ = h.await;
            env.rec.req(id, json!({"e": "Stuck", "r": id}));
            stuck += 1;
        } else if let Err(e) = h.await {
            // a panic inside the code under test is data
            env.rec.req(id, json!({"e": "Error", "r": id, "kind": format!("panic: {e}")}));
        }
    }
    stuck
}

/// The test environment (the peer) breaks every connection of one origin. Every client connection
/// that could be affected is flagged `broken` (requests sent on it are excused by the monitor).
/// flag -> abort -> flag: a connection registered before the second pass is flagged; one
/// registered after it was accepted by the server after the abort and is not affected.
fn kill_origin(reg: &Registry, opos: usize, aborts: &Arc<Mutex<Vec<tokio::task::AbortHandle>>>) -> usize {
    let flag = || {
        for c in reg.conns.lock().unwrap().iter() {
            if c.opos == opos {
                c.mu.lock().unwrap().broken = true;
            }
        }
    };
    flag();
    let hs: Vec<_> = std::mem::take(&mut *aborts.lock().unwrap());
    let n = hs.len();
    for h in hs {
        h.abort();
    }
    flag();
    n
}

async fn drive<S, RB, E>(env: Arc<Env>, reg: Arc<Registry>, servers: &[ServerHandle], svc: S) -> (usize, usize)
where
    S: Service<Request<ScriptBody>, Response = Response<RB>, Error = E> + Clone + Send + 'static,
    S::Future: Send,
    RB: HttpBody<Data = Bytes> + Unpin + Send + 'static,
    RB::Error: Into<BoxError> + Send,
    E: std::error::Error + Send + 'static,
{
    let cfg = env.cfg.clone();
    let mut next: u32 = 1;
    let mut stuck = 0;
    let mut killed = 0;
    for w in &cfg.waves {
        let last = next + w.n as u32 - 1;
        stuck += run_batch(&env, &svc, next..=last).await;
        next = last + 1;
        // let released connections find their way back into the pool
        tokio::time::sleep(Duration::from_millis(3)).await;
        for p in &w.kill {
            killed += kill_origin(&reg, *p, &servers[*p].aborts);
        }
        if !w.kill.is_empty() {
            tokio::time::sleep(Duration::from_millis(10)).await;
        }
    }
    let last = next + cfg.n_main as u32 - 1;
    stuck += run_batch(&env, &svc, next..=last).await;
    drop(svc);
    (stuck, killed)
}

struct RunStats {
    events: Vec<Value>,
    dials: u32,
    conns_killed: usize,
    stuck: usize,
    handle_aborted: u32,
    srv_errors: Vec<String>,
}

struct World {
    rec: Arc<Recorder>,
    reg: Arc<Registry>,
    env: Arc<Env>,
    servers: Vec<ServerHandle>,
    socks: Vec<String>,
}

/// Servers (one instance per origin), the connection registry and the recorder of one run.
async fn start_world(
    cfg: &Arc<RunCfg>,
    sockdir: &str,
    gate: Option<Gate>,
    hold: Option<(i64, tokio::sync::watch::Receiver<bool>)>,
) -> World {
    let rec = Arc::new(Recorder::default());
    let mut targets = Vec::new();
    let mut servers = Vec::new();
    let mut socks = Vec::new();
    for (opos, o) in cfg.origins.iter().enumerate() {
        let aborts = Arc::new(Mutex::new(Vec::new()));
        let ctx = Arc::new(SrvCtx {
            cfg: cfg.clone(),
            opos,
            rec: rec.clone(),
            sconn: AtomicU32::new(0),
            hseq: AtomicU32::new(0),
            aborts: aborts.clone(),
            hold: hold.clone(),
        });
        let (target, acceptor) = match o.tr {
            Tr::Duplex => {
                let (client, incoming) = hyperdriver::stream::duplex::pair();
                (Target::Duplex(client), Acceptor::from(incoming))
            }
            Tr::Tcp => {
                let l = tokio::net::TcpListener::bind("127.0.0.1:0").await.expect("bind tcp");
                let a = l.local_addr().unwrap();
                (Target::Tcp(a), Acceptor::from(l))
            }
            Tr::Unix => {
                let p = format!("{sockdir}/{}-{}-{}.sock", std::process::id(), cfg.run, opos);
                let _ = std::fs::remove_file(&p);
                let l = tokio::net::UnixListener::bind(&p).expect("bind unix");
                socks.push(p.clone());
                (Target::Unix(p), Acceptor::from(l))
            }
        };
        targets.push(target);
        let task = spawn_server(ctx, acceptor, o.proto);
        servers.push(ServerHandle { task, aborts });
    }
    let reg = Arc::new(Registry {
        gate,
        cfg: cfg.clone(),
        rec: rec.clone(),
        targets,
        conns: Mutex::new(Vec::new()),
        next_conn: AtomicU32::new(0),
        dials: AtomicU32::new(0),
    });
    let env = Arc::new(Env {
        cfg: cfg.clone(),
        rec: rec.clone(),
    });
    World {
        rec,
        reg,
        env,
        servers,
        socks,
    }
}

impl World {
    fn pool_cfg(&self) -> hyperdriver::client::pool::Config {
        let mut pool_cfg = hyperdriver::client::pool::Config::default();
        pool_cfg.continue_after_preemption = self.env.cfg.cap;
        pool_cfg.idle_timeout = if self.env.cfg.idle_timeout { Some(Duration::from_secs(90)) } else { None };
        pool_cfg
    }

    fn transport(&self) -> E2eTransport {
        E2eTransport { reg: self.reg.clone() }
    }

    fn protocol(&self) -> ObservedProtocol<HttpConnectionBuilder<ScriptBody>> {
        ObservedProtocol {
            inner: HttpConnectionBuilder::<ScriptBody>::default(),
            rec: self.rec.clone(),
        }
    }

    async fn finish(self, stuck: usize, conns_killed: usize) -> RunStats {
        for s in &self.servers {
            s.task.abort();
            for h in s.aborts.lock().unwrap().drain(..) {
                h.abort();
            }
        }
        for s in self.servers {
            let _ = s.task.await;
        }
        tokio::time::sleep(Duration::from_millis(2)).await;
        for p in self.socks {
            let _ = std::fs::remove_file(p);
        }
        let mut evs = std::mem::take(&mut *self.rec.events.lock().unwrap());
        evs.sort_by(|a, b| a.0.cmp(&b.0));
        let srv_errors = self.rec.srv_errors.lock().unwrap().clone();
        RunStats {
            events: evs.into_iter().map(|(_, v)| v).collect(),
            dials: self.reg.dials.load(Ordering::Relaxed),
            conns_killed,
            stuck,
            handle_aborted: self.rec.handle_aborted.load(Ordering::Relaxed),
            srv_errors,
        }
    }
}

macro_rules! pool_stack {
    ($w:expr) => {{
        let inner = tower::ServiceBuilder::new()
            .layer(SetHostHeaderLayer::new())
            .layer(Http2ChecksLayer::new())
            .layer(Http1ChecksLayer::new())
            .service(RequestExecutor::new());
        ConnectionPoolService::<_, _, _, ScriptBody, hyperdriver::client::pool::UriKey>::new(
            TlsTransport::new($w.transport()),
            $w.protocol(),
            inner,
            $w.pool_cfg(),
        )
    }};
}

async fn run_one(cfg: Arc<RunCfg>, sockdir: String) -> RunStats {
    let w = start_world(&cfg, &sockdir, None, None).await;
    let (stuck, conns_killed) = match cfg.stack {
        Stack::Client => {
            // the full `Client::builder()` stack (user agent, response adaptation, pool, host header,
            // HTTP/1 + HTTP/2 request checks, executor) with the custom transport and body types
            let svc = hyperdriver::Client::builder()
                .with_transport(w.transport())
                .with_protocol(w.protocol())
                .with_pool(w.pool_cfg())
                .with_body::<ScriptBody, hyperdriver::Body>()
                .build_service();
            drive(w.env.clone(), w.reg.clone(), &w.servers, svc).await
        }
        Stack::Pool => {
            let svc = pool_stack!(w);
            drive(w.env.clone(), w.reg.clone(), &w.servers, svc).await
        }
    };
    w.finish(stuck, conns_killed).await
}

fn outcome_event(r: u32, out: Result<Outcome, tokio::time::error::Elapsed>) -> (Value, usize) {
    match out {
        Ok(Outcome::Response {
            status,
            echo,
            stamp,
            status_ok,
            headers_ok,
            body_ok,
            upgraded,
            ..
        }) => (
            json!({"e": "Response", "r": r, "echo": echo, "stamp": stamp, "status": status,
                   "statusOk": status_ok, "headersOk": headers_ok, "bodyOk": body_ok, "upgraded": upgraded}),
            0,
        ),
        Ok(Outcome::Error(kind)) => (json!({"e": "Error", "r": r, "kind": kind}), 0),
        Ok(Outcome::Cancel(stage)) => (json!({"e": "Cancel", "r": r, "stage": stage}), 0),
        Err(_) => (json!({"e": "Stuck", "r": r}), 1),
    }
}

/// Deterministic scenarios (no clocks; causally ordered through gates in the transport / handler):
/// pool with continue_after_preemption = false, one origin.
///
/// `waiter-owner-cancelled` (HTTP/2-only server):
///   1. R1 (HTTP/2) is issued and polled: it announces the connection attempt; its dial is held.
///   2. R2 (same origin) is issued: the pool tells it to wait for R1's attempt (no connector).
///   3. R1 is dropped by its caller while its dial is still in progress.
///   4. the gate is opened; R2 is awaited.
/// `waiter-owner-preempted` (auto-detecting server):
///   1. R1 (HTTP/1.1) is issued, dials, is sent; its handler is held: the connection is busy.
///   2. R2 (HTTP/2) is issued and polled: it announces an attempt; its (HTTP/2) dial is held.
///   3. R3 is issued: told to wait for R2's attempt.
///   4. R1's handler is released: R1 completes, its connection returns to the pool and is handed to the
///      first waiter, R2, which therefore completes on it and abandons its own dial.
///   5. R2 is awaited, the dial gate is opened, R3 is awaited.
/// C01: the last request was not cancelled and no peer broke anything, so it must complete successfully.
async fn scenario_waiter(kind: &str, sockdir: String) -> (Arc<RunCfg>, RunStats) {
    let preempt = kind == "waiter-owner-preempted";
    let want: &[bool] = if preempt { &[false, true, true] } else { &[true, true] };
    let mk = |seed: u64| RunCfg {
        master: 0,
        run: 0,
        seed,
        thorough: false,
        stack: Stack::Pool,
        origins: vec![OriginCfg {
            idx: 0,
            proto: if preempt { Proto::Auto } else { Proto::H2 },
            tr: Tr::Duplex,
        }],
        cap: false,
        idle_timeout: false,
        waves: vec![],
        n_main: want.len(),
        zone_d7: false,
        p_cancel: 0,
        p_upgrade: 0,
    };
    // a seed for which the derived plans have the HTTP versions the scenario needs (and no `Connection: close`)
    let mut seed = mix(0xD2, 0xD2);
    loop {
        let c = mk(seed);
        let ok = want.iter().enumerate().all(|(i, h2)| {
            let p = Plan::derive(&c, i as u32 + 1);
            p.h2 == *h2 && !p.conn_close
        });
        if ok {
            break;
        }
        seed = mix(seed, 1);
    }
    let cfg = Arc::new(mk(seed));
    let (open_tx, open_rx) = tokio::sync::watch::channel(false);
    let (hold_tx, hold_rx) = tokio::sync::watch::channel(false);
    let dial_started = Arc::new(Notify::new());
    let w = start_world(
        &cfg,
        &sockdir,
        Some(Gate {
            open: open_rx,
            dial_started: dial_started.clone(),
            h2_only: preempt,
        }),
        if preempt { Some((1, hold_rx)) } else { None },
    )
    .await;
    let mut svc = pool_stack!(w);
    let never = Arc::new(Notify::new());
    let plan = |id: u32| {
        let mut p = Plan::derive(&cfg, id);
        p.cancel = CancelPlan::None;
        Arc::new(p)
    };
    let issue = |p: &Plan| json!({"e": "Issue", "r": p.id, "origin": 0, "ver": if p.h2 {"h2"} else {"h1"}, "upg": false});
    let mut stuck = 0;
    if !preempt {
        let (p1, p2) = (plan(1), plan(2));
        w.rec.req(1, issue(&p1));
        let f1 = svc.call(build_request(&w.env, &p1, &never));
        let h1 = tokio::spawn(async move {
            let _ = f1.await;
        });
        dial_started.notified().await;
        w.rec.req(2, issue(&p2)); // the checkout is created inside `Service::call`
        let f2 = svc.call(build_request(&w.env, &p2, &never));
        h1.abort();
        let _ = h1.await;
        w.rec.req(1, json!({"e": "Cancel", "r": 1, "stage": "dialling"}));
        let _ = open_tx.send(true);
        let (ev, st) = outcome_event(2, tokio::time::timeout(STALL, do_request(w.env.clone(), f2, p2.clone())).await);
        stuck += st;
        w.rec.req(2, ev);
    } else {
        let (p1, p2, p3) = (plan(1), plan(2), plan(3));
        // 1
        w.rec.req(1, issue(&p1));
        let f1 = svc.call(build_request(&w.env, &p1, &never));
        let (env1, pl1) = (w.env.clone(), p1.clone());
        let h1 = tokio::spawn(async move { do_request(env1, f1, pl1).await });
        // the handler of R1 has started (it is held): wait for its Handle record
        while !w.rec.events.lock().unwrap().iter().any(|(_, v)| v["e"] == "Handle") {
            tokio::task::yield_now().await;
        }
        // 2
        w.rec.req(2, issue(&p2));
        let f2 = svc.call(build_request(&w.env, &p2, &never));
        let (env2, pl2) = (w.env.clone(), p2.clone());
        let h2 = tokio::spawn(async move { do_request(env2, f2, pl2).await });
        dial_started.notified().await;
        // 3
        w.rec.req(3, issue(&p3));
        let f3 = svc.call(build_request(&w.env, &p3, &never));
        // 4
        let _ = hold_tx.send(true);
        for (r, h) in [(1u32, h1), (2u32, h2)] {
            let out = match tokio::time::timeout(STALL, h).await {
                Ok(Ok(o)) => Ok(o),
                Ok(Err(e)) => Ok(Outcome::Error(format!("panic: {e}"))),
                Err(e) => Err(e),
            };
            let (ev, st) = outcome_event(r, out);
            stuck += st;
            w.rec.req(r, ev);
        }
        // 5 (R2's abandoned dial is gone by now; a waiter that dials for itself must not be held)
        let _ = open_tx.send(true);
        let (ev, st) = outcome_event(3, tokio::time::timeout(STALL, do_request(w.env.clone(), f3, p3.clone())).await);
        stuck += st;
        w.rec.req(3, ev);
    }
    drop(svc);
    drop(open_tx);
    drop(hold_tx);
    (cfg, w.finish(stuck, 0).await)
}

// ------------------------------------------------------------------------------------------------

fn arg<T: std::str::FromStr>(args: &[String], name: &str, default: T) -> T {
    args.iter()
        .position(|a| a == name)
        .and_then(|i| args.get(i + 1))
        .and_then(|s| s.parse().ok())
        .unwrap_or(default)
}

fn main() {
    let args: Vec<String> = std::env::args().collect();
    let cmd = args.get(1).map(|s| s.as_str()).unwrap_or("");
    if cmd == "plan" {
        // print the configuration of one run and the plan of one request (diagnosis / notes)
        let cfg = RunCfg::derive(arg(&args, "--seed", 1u64), arg(&args, "--first", 0usize), arg(&args, "--tier", "quick".to_string()) == "thorough", arg(&args, "--max-req", 24usize));
        let id: u32 = arg(&args, "--id", 1u32);
        println!("{}", serde_json::to_string(&json!({"cfg": cfg.to_json(), "plan": Plan::derive(&cfg, id).summary(&cfg)})).unwrap());
        return;
    }
    if cmd == "scenario" {
        let name = args.get(2).map(|s| s.as_str()).unwrap_or("");
        if name != "waiter-owner-cancelled" && name != "waiter-owner-preempted" {
            eprintln!("unknown scenario {name}");
            std::process::exit(2);
        }
        let out: String = arg(&args, "--out", "/verif/out/C01/scenario.ndjson".to_string());
        let sockdir: String = arg(&args, "--sockdir", "/verif/out/C01/s".to_string());
        std::fs::create_dir_all(&sockdir).ok();
        let rt = tokio::runtime::Builder::new_multi_thread().worker_threads(4).enable_all().build().expect("runtime");
        let (cfg, stats) = rt.block_on(scenario_waiter(name, sockdir));
        let mut trace = vh::trace::TraceOut::create(&out);
        trace.emit(&json!({"e": "Reset", "run": 0, "rep": 0, "seed": 0, "tier": "scenario", "maxReq": 2,
                           "scenario": name, "cfg": cfg.to_json()}));
        let mut issued = 0;
        for ev in &stats.events {
            if ev["e"] == "Issue" {
                issued += 1;
            }
            trace.emit(ev);
        }
        trace.emit(&json!({"e": "EndRun", "issued": issued, "dials": stats.dials, "connsKilled": 0, "handleAborted": stats.handle_aborted}));
        let lines = trace.lines;
        trace.finish();
        println!("{}", serde_json::to_string(&json!({"scenario": name, "trace": out, "events": lines, "runs": 1, "repeat": 1,
            "outcome": stats.events.iter().filter(|e| e["e"] != "Issue" && e["e"] != "Handle" && e["e"] != "Dial").cloned().collect::<Vec<_>>()})).unwrap());
        return;
    }
    if cmd != "run" {
        eprintln!("usage: e2e run --seed S --runs N [--first K] [--repeat R] --max-req M --tier quick|thorough --out FILE --sockdir DIR");
        std::process::exit(2);
    }
    let master: u64 = arg(&args, "--seed", 1u64);
    let runs: usize = arg(&args, "--runs", 1usize);
    let first: usize = arg(&args, "--first", 0usize);
    let repeat: usize = arg(&args, "--repeat", 1usize);
    let max_req: usize = arg(&args, "--max-req", 24usize);
    let tier: String = arg(&args, "--tier", "quick".to_string());
    let out: String = arg(&args, "--out", "/verif/out/C01/trace.ndjson".to_string());
    let sockdir: String = arg(&args, "--sockdir", "/verif/out/C01/s".to_string());
    let thorough = tier == "thorough";
    std::fs::create_dir_all(&sockdir).ok();

    let rt = tokio::runtime::Builder::new_multi_thread()
        .worker_threads(4)
        .enable_all()
        .build()
        .expect("runtime");

    let mut trace = vh::trace::TraceOut::create(&out);
    let mut tot: BTreeMap<String, u64> = BTreeMap::new();
    let mut bump = |k: &str, n: u64| *tot.entry(k.to_string()).or_insert(0) += n;
    let mut samples: Vec<Value> = Vec::new();
    let mut shapes: HashSet<u64> = HashSet::new();
    let mut nontrivial: HashSet<(usize, usize, u32)> = HashSet::new();
    let mut suspects: Vec<Value> = Vec::new();
    let mut srv_errors: Vec<String> = Vec::new();
    let mut run_index: Vec<Value> = Vec::new();
    let t0 = std::time::Instant::now();

    for run in first..first + runs {
        for rep in 0..repeat {
            let cfg = Arc::new(RunCfg::derive(master, run, thorough, max_req));
            let stats = rt.block_on(run_one(cfg.clone(), sockdir.clone()));
            let start_line = trace.lines + 1;
            trace.emit(&json!({"e": "Reset", "run": run, "rep": rep, "seed": master, "tier": tier, "maxReq": max_req, "cfg": cfg.to_json()}));
            // ---- in-process mirror of the monitor: statistics and suspects only, never a verdict
            let mut origin_of: HashMap<i64, i64> = HashMap::new();
            let mut excused: HashSet<i64> = HashSet::new();
            let mut sends_of: HashMap<i64, Vec<&Value>> = HashMap::new();
            let mut issued = 0u64;
            for ev in &stats.events {
                let e = ev["e"].as_str().unwrap_or("");
                let r = ev["r"].as_i64().unwrap_or(-1);
                let mut suspect: Option<&str> = None;
                match e {
                    "Issue" => {
                        issued += 1;
                        origin_of.insert(r, ev["origin"].as_i64().unwrap());
                        bump("requests", 1);
                        bump(&format!("issued_{}", ev["ver"].as_str().unwrap()), 1);
                    }
                    "Send" => {
                        bump("sends", 1);
                        sends_of.entry(r).or_default().push(ev);
                        let h1 = ev["ver"] == "h1";
                        if ev["cq"].as_u64().unwrap_or(0) > 1 {
                            bump(if h1 { "sends_on_reused_h1" } else { "sends_on_reused_h2" }, 1);
                            nontrivial.insert((run, rep, r as u32));
                        }
                        if !h1 && ev["inflight"].as_u64().unwrap_or(0) > 0 {
                            bump("h2_sends_sharing", 1);
                            nontrivial.insert((run, rep, r as u32));
                        }
                        if ev["broken"] == true {
                            excused.insert(r);
                            bump("sends_on_broken", 1);
                        }
                        if h1 && ev["inflight"].as_u64().unwrap_or(0) > 0 {
                            suspect = Some("H1Exclusive");
                        }
                        if ev["afterUpgrade"] == true {
                            suspect = Some("NoSendAfterUpgrade");
                        }
                        if Some(&ev["corigin"].as_i64().unwrap_or(-2)) != origin_of.get(&r) {
                            suspect = Some("NoCrossOrigin");
                        }
                    }
                    "Response" => {
                        bump("responses", 1);
                        if ev["upgraded"] == true {
                            bump("upgrades_completed", 1);
                            nontrivial.insert((run, rep, r as u32));
                        }
                        if ev["echo"].as_i64() != Some(r) || ev["stamp"].as_i64() != origin_of.get(&r).copied() {
                            suspect = Some("Matched");
                        } else if !(ev["statusOk"] == true && ev["headersOk"] == true && ev["bodyOk"] == true) {
                            suspect = Some("ResponseIntact");
                        }
                    }
                    "Error" => {
                        bump("errors", 1);
                        if excused.contains(&r) {
                            bump("errors_excused", 1);
                        } else {
                            suspect = Some("NoSpuriousFailure");
                        }
                    }
                    "Stuck" => {
                        bump("stuck", 1);
                        suspect = Some("NoSpuriousFailure");
                    }
                    "Dial" => {
                        if ev["buf"].as_i64().map(|b| (0..24).contains(&b)).unwrap_or(false) {
                            bump("dials_duplex_buf_lt_24", 1);
                        }
                    }
                    "Cancel" => {
                        bump("cancels", 1);
                        bump(&format!("cancel_{}", ev["stage"].as_str().unwrap_or("?")), 1);
                        nontrivial.insert((run, rep, r as u32));
                    }
                    "Handle" => {
                        bump("handles", 1);
                        let idp = ev["idPath"].as_i64().unwrap_or(-1);
                        if !(ev["intact"] == true
                            && ev["idHeader"].as_i64() == Some(idp)
                            && ev["idBody"].as_i64() == Some(idp)
                            && origin_of.get(&idp).map(|o| Some(*o) == ev["origin"].as_i64()).unwrap_or(true))
                        {
                            suspect = Some("RequestIntact");
                        }
                    }
                    _ => {}
                }
                if let Some(inv) = suspect {
                    bump("suspects", 1);
                    if suspects.len() < 50 {
                        suspects.push(json!({"inv": inv, "run": run, "rep": rep, "line": trace.lines + 1, "ev": ev}));
                    }
                }
                trace.emit(ev);
            }
            trace.emit(&json!({"e": "EndRun", "issued": issued, "dials": stats.dials, "connsKilled": stats.conns_killed,
                               "handleAborted": stats.handle_aborted}));
            run_index.push(json!({"run": run, "rep": rep, "first": start_line, "last": trace.lines}));
            bump("runs", 1);
            bump("dials", stats.dials as u64);
            bump("server_conns_killed", stats.conns_killed as u64);
            bump("handle_aborted", stats.handle_aborted as u64);
            bump(&format!("stack_{:?}", cfg.stack), 1);
            for o in &cfg.origins {
                bump(&format!("server_{:?}_{:?}", o.proto, o.tr), 1);
            }
            if !cfg.cap {
                bump("runs_cap_false", 1);
            }
            if cfg.zone_d7 {
                bump("runs_zone_d7", 1);
            }
            for s in stats.srv_errors {
                if srv_errors.len() < 20 {
                    srv_errors.push(format!("run {run}: {s}"));
                }
            }
            // distinct request shapes and a few written-out samples
            let total_ids = (cfg.n_warm() + cfg.n_main) as u32;
            for id in 1..=total_ids {
                let p = Plan::derive(&cfg, id);
                let o = &cfg.origins[p.opos];
                let sig = format!(
                    "{:?}|{:?}|{:?}|{}|{}|{}|{}|{:?}|{}|{}|{}",
                    cfg.stack,
                    o.proto,
                    o.tr,
                    p.h2,
                    p.method,
                    p.upgrade,
                    p.req_len.min(1) + (p.req_len > 2048) as usize + (p.req_len > 16384) as usize,
                    std::mem::discriminant(&p.cancel),
                    p.resp_len.min(1) + (p.resp_len > 2048) as usize + (p.resp_len > 16384) as usize,
                    p.conn_close,
                    if p.path == "/" { p.uri_path.len() as i32 } else { -1 }
                );
                shapes.insert(fnv1a(sig.as_bytes()));
                if p.path == "/" {
                    bump("root_requests", 1);
                    if p.uri_path.is_empty() {
                        bump("root_requests_empty_path", 1);
                    }
                    match p.query.as_deref() {
                        None => bump("root_requests_no_query", 1),
                        Some("") => bump("root_requests_empty_query", 1),
                        _ => {}
                    }
                }
                if samples.len() < 6 && (id == 1 || id == total_ids) {
                    samples.push(json!({"run": run, "cfg": cfg.to_json(), "request": p.summary(&cfg)}));
                }
            }
        }
    }
    let lines = trace.lines;
    trace.finish();
    let tot = tot;
    let summary = json!({
        "seed": master, "tier": tier, "first": first, "runs": runs, "repeat": repeat, "maxReq": max_req,
        "trace": out, "events": lines, "counts": tot, "distinct_shapes": shapes.len(),
        "nontrivial_requests": nontrivial.len(),
        "suspects": suspects, "samples": samples, "server_errors": srv_errors, "run_index": run_index,
        "harness_wall_s": t0.elapsed().as_secs_f64(),
    });
    println!("{}", serde_json::to_string(&summary).unwrap());
}
