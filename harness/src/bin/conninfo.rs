//! Connection-info / make-service driver (spec/ConnInfo.tla): runs schedules (TLC-generated behaviours, or a
//! seeded random walk over the really enabled actions) against the REAL `hyperdriver::Server`, built through the
//! public builder with `with_connection_info()` / `with_tls_connection_info()` (either order), a hand-written
//! make-service double or `with_shared_service`, optionally `ValidateSNI` in front of the application, and
//! records one ndjson observation per settled step.  `spec/ConnInfoObs.tla` evaluates the clauses I1-I5; this
//! program never decides anything.
//!
//! Observation points (public trait boundaries only, nothing in /repo is touched):
//!   * `IdIncoming`   a core acceptor over one REAL `stream::duplex` pair per client: the accepted stream reports
//!                    `IdAddr::Peer(k)` as its remote address, so every connection has its own identity and the
//!                    ground truth does not depend on the order of accepts.  Wrapped by the crate's `Acceptor`
//!                    (`Acceptor::new(..)`, `.with_tls(..)`), so the streams are the crate's `Stream<_>`.
//!                    Other modes: the stock `Acceptor::from(DuplexIncoming | TcpListener | UnixListener)`.
//!   * `LogAccept<A>` logs `stream.info()` of every accepted stream (event order)
//!   * `MakeDouble`   the make-service: poll_ready gate (Pending / Ok / Err), counts calls, logs `target.info()`
//!                    of the stream it is called with, returns a gated future (Pending / Ok(App) / Err)
//!   * `App`          per-connection application (tag = number of the make call; 0 = the one shared service):
//!                    echoes what it found in the extensions (ConnectionInfo<A>, TlsConnectionInfo), its tag and the
//!                    client / request ids of the headers; optionally behind the crate's `ValidateSNIService`
//!   * `BoxProto`     the crate's `auto::Builder` behind a boxing `Protocol` (one hyper instantiation)
//!   * `CountExec`, `Sig` as in server.rs
//!   * raw clients: HTTP/1 (pipelined text requests) or hyper's HTTP/2 client (concurrent requests), over
//!     tokio-rustls with a per-client SNI name and ALPN offer when the listener has TLS
//! Modes: `replay --in f --out t` / `walk --seed s --runs n ...` / `vectors --in f --out t` (I5 vector spec).
use std::collections::{BTreeMap, HashMap, VecDeque};
use std::fmt;
use std::future::Future;
use std::io;
use std::marker::PhantomData;
use std::pin::Pin;
use std::sync::{Arc, Mutex};
use std::task::{Context, Poll, Waker};
use std::time::Duration;

use bytes::Bytes;
use http_body_util::{BodyExt, Full};
use hyper::rt::Executor;
use hyperdriver::bridge::io::TokioIo;
use hyperdriver::bridge::rt::TokioExecutor;
use hyperdriver::info::{BraidAddr, ConnectionInfo, HasConnectionInfo, TlsConnectionInfo};
use hyperdriver::server::conn::tls::sni::{SNIMiddlewareError, ValidateSNIService};
use hyperdriver::server::conn::{Accept, Acceptor};
use hyperdriver::server::{Protocol, Server};
use hyperdriver::stream::duplex::{DuplexClient, DuplexIncoming, DuplexStream};
use hyperdriver::Body;
use rand::rngs::StdRng;
use rand::{Rng, SeedableRng};
use serde::{Deserialize, Serialize};
use serde_json::{json, Value};
use tokio::io::{AsyncRead, AsyncReadExt, AsyncWrite, AsyncWriteExt};
use tokio::sync::mpsc;
use tower::Service;
use vh::trace::TraceOut;

type BoxError = Box<dyn std::error::Error + Send + Sync + 'static>;
trait Io: AsyncRead + AsyncWrite + Send + Unpin + 'static {}
impl<T: AsyncRead + AsyncWrite + Send + Unpin + 'static> Io for T {}
type BoxIo = Box<dyn Io>;
type ConnFut = Pin<Box<dyn Future<Output = io::Result<BoxIo>> + Send>>;
type RespBody = Full<Bytes>;
type BoxFut<T> = Pin<Box<dyn Future<Output = T> + Send>>;

// ------------------------------------------------------------------------------------------------
// shared recording state
#[derive(Clone, Default)]
struct AccRec {
    seq: u64,
    local: String,
    remote: String,
}
#[derive(Clone, Default)]
struct MakeRec {
    seq: u64,
    local: String,
    remote: String,
    dec: Option<bool>,
    done: String,
    done_seq: u64,
    after_sig: bool,
}
#[derive(Clone, Default)]
struct AppRec {
    seq: u64,
    tag: usize,
    count: u32,
    ci: Option<(String, String)>,
    tls: Option<(Option<String>, String, bool)>, // (server name, alpn label, validated)
    rejected: bool,
    done: bool,
}
#[derive(Default)]
struct GateSt {
    open: bool,
    wakers: Vec<Waker>,
}

#[derive(Default)]
struct Shared {
    seq: u64,
    events: Vec<String>,
    sig_fired: bool,
    sig_fire_seq: u64,
    sig_seq: u64,
    sig_waker: Option<Waker>,
    ready_gated: bool,
    ready_dec: Option<bool>,
    ready_waker: Option<Waker>,
    ready_waiting: bool,
    ready_polls: u32,
    ready_oks: u32,
    ready_errs: u32,
    make_gated: bool,
    makes: Vec<MakeRec>,
    make_wakers: HashMap<usize, Waker>,
    accepts: Vec<AccRec>,
    accept_errs: u32,
    serves: u32,
    app_gated: bool,
    gates: HashMap<(usize, usize), GateSt>,
    apps: BTreeMap<(usize, usize), AppRec>,
    odd: Vec<String>,
    spawned: u32,
    finished: u32,
}
type Sh = Arc<Mutex<Shared>>;

fn ev(sh: &mut Shared, s: String) -> u64 {
    sh.seq += 1;
    sh.events.push(s);
    sh.seq
}

static PANICS: Mutex<Vec<String>> = Mutex::new(Vec::new());

// ------------------------------------------------------------------------------------------------
// the shutdown signal
struct Sig {
    sh: Sh,
    done: bool,
}
impl Future for Sig {
    type Output = ();
    fn poll(mut self: Pin<&mut Self>, cx: &mut Context<'_>) -> Poll<()> {
        let sh = self.sh.clone();
        let mut g = sh.lock().unwrap();
        if g.sig_fired {
            if !self.done {
                self.done = true;
                let s = ev(&mut g, "sig".into());
                g.sig_seq = s;
            }
            Poll::Ready(())
        } else {
            g.sig_waker = Some(cx.waker().clone());
            Poll::Pending
        }
    }
}

// ------------------------------------------------------------------------------------------------
// a core acceptor with identities: one real duplex pair per client
#[derive(Clone, Debug, PartialEq, Eq, Hash)]
enum IdAddr {
    Listener,
    Peer(usize),
}
impl fmt::Display for IdAddr {
    fn fmt(&self, f: &mut fmt::Formatter<'_>) -> fmt::Result {
        match self {
            IdAddr::Listener => write!(f, "id:listener"),
            IdAddr::Peer(k) => write!(f, "id:peer:{k}"),
        }
    }
}
#[pin_project::pin_project]
#[derive(Debug)]
struct IdStream {
    #[pin]
    inner: DuplexStream,
    peer: usize,
}
impl HasConnectionInfo for IdStream {
    type Addr = IdAddr;
    fn info(&self) -> ConnectionInfo<IdAddr> {
        ConnectionInfo { local_addr: IdAddr::Listener, remote_addr: IdAddr::Peer(self.peer) }
    }
}
impl AsyncRead for IdStream {
    fn poll_read(self: Pin<&mut Self>, cx: &mut Context<'_>, buf: &mut tokio::io::ReadBuf<'_>) -> Poll<io::Result<()>> {
        self.project().inner.poll_read(cx, buf)
    }
}
impl AsyncWrite for IdStream {
    fn poll_write(self: Pin<&mut Self>, cx: &mut Context<'_>, buf: &[u8]) -> Poll<io::Result<usize>> {
        self.project().inner.poll_write(cx, buf)
    }
    fn poll_flush(self: Pin<&mut Self>, cx: &mut Context<'_>) -> Poll<io::Result<()>> {
        self.project().inner.poll_flush(cx)
    }
    fn poll_shutdown(self: Pin<&mut Self>, cx: &mut Context<'_>) -> Poll<io::Result<()>> {
        self.project().inner.poll_shutdown(cx)
    }
}
struct IdIncoming {
    pairs: Vec<(usize, DuplexIncoming)>,
    order: Arc<Mutex<VecDeque<usize>>>, // clients whose connect request is queued, oldest first
}
impl Accept for IdIncoming {
    type Conn = IdStream;
    type Error = io::Error;
    fn poll_accept(mut self: Pin<&mut Self>, cx: &mut Context<'_>) -> Poll<io::Result<IdStream>> {
        let this = &mut *self;
        let order: Vec<usize> = this.order.lock().unwrap().iter().copied().collect();
        // oldest queued connect first; every listener is polled so that its waker is registered
        let mut rest: Vec<usize> = this.pairs.iter().map(|p| p.0).filter(|k| !order.contains(k)).collect();
        let mut seq = order.clone();
        seq.append(&mut rest);
        for k in seq {
            if let Some((_, inc)) = this.pairs.iter_mut().find(|p| p.0 == k) {
                match Pin::new(inc).poll_accept(cx) {
                    Poll::Ready(Ok(s)) => {
                        this.order.lock().unwrap().retain(|x| *x != k);
                        return Poll::Ready(Ok(IdStream { inner: s, peer: k }));
                    }
                    Poll::Ready(Err(e)) => return Poll::Ready(Err(e)),
                    Poll::Pending => {}
                }
            }
        }
        Poll::Pending
    }
}

// ------------------------------------------------------------------------------------------------
// acceptor wrapper: logs what every accepted stream says about itself
#[pin_project::pin_project]
struct LogAccept<A> {
    #[pin]
    inner: A,
    sh: Sh,
}
impl<A: Accept> Accept for LogAccept<A> {
    type Conn = A::Conn;
    type Error = A::Error;
    fn poll_accept(self: Pin<&mut Self>, cx: &mut Context<'_>) -> Poll<Result<Self::Conn, Self::Error>> {
        let this = self.project();
        match this.inner.poll_accept(cx) {
            Poll::Ready(Ok(c)) => {
                let info = c.info();
                let mut g = this.sh.lock().unwrap();
                let n = g.accepts.len() + 1;
                let s = ev(&mut g, format!("accept:{n}"));
                g.accepts.push(AccRec { seq: s, local: info.local_addr().to_string(), remote: info.remote_addr().to_string() });
                Poll::Ready(Ok(c))
            }
            Poll::Ready(Err(e)) => {
                let mut g = this.sh.lock().unwrap();
                ev(&mut g, "accepterr".into());
                g.accept_errs += 1;
                Poll::Ready(Err(e))
            }
            Poll::Pending => Poll::Pending,
        }
    }
}

// ------------------------------------------------------------------------------------------------
// the make-service double
struct MakeDouble<A> {
    sh: Sh,
    sni: bool,
    _a: PhantomData<fn() -> A>,
}
impl<A> Clone for MakeDouble<A> {
    fn clone(&self) -> Self {
        MakeDouble { sh: self.sh.clone(), sni: self.sni, _a: PhantomData }
    }
}
struct MakeFut<A> {
    sh: Sh,
    n: usize,
    sni: bool,
    _a: PhantomData<fn() -> A>,
}
impl<A> Future for MakeFut<A> {
    type Output = Result<App<A>, BoxError>;
    fn poll(self: Pin<&mut Self>, cx: &mut Context<'_>) -> Poll<Self::Output> {
        let mut g = self.sh.lock().unwrap();
        let n = self.n;
        let dec = if g.make_gated { g.makes[n - 1].dec } else { Some(true) };
        match dec {
            None => {
                g.make_wakers.insert(n, cx.waker().clone());
                Poll::Pending
            }
            Some(ok) => {
                let s = ev(&mut g, format!("makedone:{n}:{ok}"));
                g.makes[n - 1].done = if ok { "ok".into() } else { "err".into() };
                g.makes[n - 1].done_seq = s;
                if ok {
                    Poll::Ready(Ok(App { echo: Echo { sh: self.sh.clone(), tag: n, _a: PhantomData }, sni: self.sni }))
                } else {
                    Poll::Ready(Err("make-service failure (injected)".into()))
                }
            }
        }
    }
}
impl<'a, IO, A> Service<&'a IO> for MakeDouble<A>
where
    IO: HasConnectionInfo<Addr = A>,
    A: fmt::Display,
{
    type Response = App<A>;
    type Error = BoxError;
    type Future = MakeFut<A>;
    fn poll_ready(&mut self, cx: &mut Context<'_>) -> Poll<Result<(), BoxError>> {
        let mut g = self.sh.lock().unwrap();
        g.ready_polls += 1;
        if !g.ready_gated {
            g.ready_oks += 1;
            return Poll::Ready(Ok(()));
        }
        match g.ready_dec.take() {
            Some(true) => {
                g.ready_waiting = false;
                g.ready_oks += 1;
                ev(&mut g, "ready:ok".into());
                Poll::Ready(Ok(()))
            }
            Some(false) => {
                g.ready_waiting = false;
                g.ready_errs += 1;
                ev(&mut g, "ready:err".into());
                Poll::Ready(Err("make-service not ready (injected)".into()))
            }
            None => {
                if !g.ready_waiting {
                    g.ready_waiting = true;
                    ev(&mut g, "ready:pending".into());
                }
                g.ready_waker = Some(cx.waker().clone());
                Poll::Pending
            }
        }
    }
    fn call(&mut self, target: &'a IO) -> MakeFut<A> {
        let info = target.info();
        let mut g = self.sh.lock().unwrap();
        let n = g.makes.len() + 1;
        let s = ev(&mut g, format!("make:{n}"));
        let after_sig = g.sig_fired;
        g.makes.push(MakeRec { seq: s, local: info.local_addr().to_string(), remote: info.remote_addr().to_string(), after_sig, ..Default::default() });
        MakeFut { sh: self.sh.clone(), n, sni: self.sni, _a: PhantomData }
    }
}

// ------------------------------------------------------------------------------------------------
// the application
#[derive(Debug, thiserror::Error)]
#[error("application error: {0}")]
struct AppErr(String);

struct Echo<A> {
    sh: Sh,
    tag: usize,
    _a: PhantomData<fn() -> A>,
}
impl<A> Clone for Echo<A> {
    fn clone(&self) -> Self {
        Echo { sh: self.sh.clone(), tag: self.tag, _a: PhantomData }
    }
}
fn ids<B>(req: &http::Request<B>) -> (usize, usize) {
    let h = |n: &str| req.headers().get(n).and_then(|v| v.to_str().ok()).and_then(|s| s.parse::<usize>().ok()).unwrap_or(0);
    (h("x-client"), h("x-req"))
}
fn alpn_label(p: &Option<hyperdriver::info::Protocol>) -> String {
    match p {
        None => "none".into(),
        Some(hyperdriver::info::Protocol::Http(v)) if *v == http::Version::HTTP_11 => "h1".into(),
        Some(hyperdriver::info::Protocol::Http(v)) if *v == http::Version::HTTP_2 => "h2".into(),
        Some(o) => format!("other:{o}"),
    }
}
impl<A> Service<http::Request<Body>> for Echo<A>
where
    A: fmt::Display + Clone + Send + Sync + 'static,
{
    type Response = http::Response<RespBody>;
    type Error = AppErr;
    type Future = BoxFut<Result<Self::Response, AppErr>>;
    fn poll_ready(&mut self, _: &mut Context<'_>) -> Poll<Result<(), AppErr>> {
        Poll::Ready(Ok(()))
    }
    fn call(&mut self, req: http::Request<Body>) -> Self::Future {
        let (c, k) = ids(&req);
        let ci = req.extensions().get::<ConnectionInfo<A>>().map(|i| (i.local_addr().to_string(), i.remote_addr().to_string()));
        let tls = req.extensions().get::<TlsConnectionInfo>().map(|t| (t.server_name.clone(), alpn_label(&t.alpn), t.validated_server_name));
        let tag = self.tag;
        let sh = self.sh.clone();
        {
            let mut g = sh.lock().unwrap();
            let s = ev(&mut g, format!("app:{tag}:{c}:{k}"));
            if c == 0 || k == 0 {
                g.odd.push(format!("request without ids reached service {tag}"));
            }
            let e = g.apps.entry((c, k)).or_default();
            e.count += 1;
            if e.count == 1 {
                e.seq = s;
                e.tag = tag;
                e.ci = ci.clone();
                e.tls = tls.clone();
            }
        }
        Box::pin(async move {
            let (sh2, key) = (sh.clone(), (c, k));
            std::future::poll_fn(move |cx| {
                let mut g = sh2.lock().unwrap();
                if !g.app_gated {
                    return Poll::Ready(());
                }
                let gate = g.gates.entry(key).or_default();
                if gate.open {
                    Poll::Ready(())
                } else {
                    gate.wakers.push(cx.waker().clone());
                    Poll::Pending
                }
            })
            .await;
            {
                let mut g = sh.lock().unwrap();
                ev(&mut g, format!("appret:{tag}:{c}:{k}"));
                if let Some(e) = g.apps.get_mut(&(c, k)) {
                    e.done = true;
                }
            }
            let body = json!({
                "tag": tag, "c": c, "k": k,
                "ci": ci.as_ref().map(|(l, r)| json!({"local": l, "remote": r})),
                "tls": tls.as_ref().map(|(s, a, v)| json!({"sni": s, "alpn": a, "validated": v})),
            })
            .to_string();
            Ok(http::Response::builder()
                .status(200)
                .header("content-length", body.len().to_string())
                .header("x-client", c.to_string())
                .header("x-req", k.to_string())
                .body(Full::new(Bytes::from(body)))
                .unwrap())
        })
    }
}

/// The per-connection application service: `Echo`, optionally behind the crate's `ValidateSNIService`.
struct App<A> {
    echo: Echo<A>,
    sni: bool,
}
impl<A> Clone for App<A> {
    fn clone(&self) -> Self {
        App { echo: self.echo.clone(), sni: self.sni }
    }
}
impl<A> Service<http::Request<Body>> for App<A>
where
    A: fmt::Display + Clone + Send + Sync + 'static,
{
    type Response = http::Response<RespBody>;
    type Error = BoxError;
    type Future = BoxFut<Result<Self::Response, BoxError>>;
    fn poll_ready(&mut self, _: &mut Context<'_>) -> Poll<Result<(), BoxError>> {
        Poll::Ready(Ok(()))
    }
    fn call(&mut self, req: http::Request<Body>) -> Self::Future {
        if self.sni {
            let (c, k) = ids(&req);
            let sh = self.echo.sh.clone();
            let tag = self.echo.tag;
            let mut v = ValidateSNIService::new(self.echo.clone());
            let fut = v.call(req);
            Box::pin(async move {
                match fut.await {
                    Ok(r) => Ok(r),
                    Err(e) => {
                        if matches!(e, SNIMiddlewareError::SNI(_)) {
                            let mut g = sh.lock().unwrap();
                            ev(&mut g, format!("reject:{tag}:{c}:{k}"));
                            let a = g.apps.entry((c, k)).or_default();
                            a.rejected = true;
                            if a.tag == 0 {
                                a.tag = tag;
                            }
                        }
                        Err(Box::new(e) as BoxError)
                    }
                }
            })
        } else {
            let fut = self.echo.call(req);
            Box::pin(async move { fut.await.map_err(|e| Box::new(e) as BoxError) })
        }
    }
}

// ------------------------------------------------------------------------------------------------
// the crate's auto protocol behind a boxing wrapper (one instantiation of hyper's connection for every stack)
type BoxSvc = tower::util::BoxCloneService<http::Request<Body>, http::Response<RespBody>, BoxError>;
type AutoB = hyperdriver::server::conn::auto::Builder;
#[derive(Clone)]
struct BoxProto {
    inner: AutoB,
    sh: Sh,
}
impl<S, IO> Protocol<S, IO, Body> for BoxProto
where
    S: Service<http::Request<Body>, Response = http::Response<RespBody>> + Clone + Send + 'static,
    S::Future: Send + 'static,
    S::Error: Into<BoxError> + 'static,
    IO: AsyncRead + AsyncWrite + Send + Unpin + 'static,
{
    type ResponseBody = RespBody;
    type Error = <AutoB as Protocol<BoxSvc, BoxIo, Body>>::Error;
    type Connection = <AutoB as Protocol<BoxSvc, BoxIo, Body>>::Connection;
    fn serve_connection_with_upgrades(&self, stream: IO, service: S) -> Self::Connection {
        {
            let mut g = self.sh.lock().unwrap();
            g.serves += 1;
            let n = g.serves;
            ev(&mut g, format!("serve:{n}"));
        }
        let svc: BoxSvc = tower::util::BoxCloneService::new(tower::ServiceExt::map_err(service, |e: S::Error| e.into()));
        <AutoB as Protocol<BoxSvc, BoxIo, Body>>::serve_connection_with_upgrades(&self.inner, Box::new(stream) as BoxIo, svc)
    }
}

// ------------------------------------------------------------------------------------------------
// executor wrapper
#[derive(Clone)]
struct CountExec {
    sh: Sh,
}
struct FinGuard(Sh);
impl Drop for FinGuard {
    fn drop(&mut self) {
        let mut g = self.0.lock().unwrap();
        g.finished += 1;
        ev(&mut g, "fin".into());
    }
}
impl<F> Executor<F> for CountExec
where
    F: Future<Output = ()> + Send + 'static,
{
    fn execute(&self, fut: F) {
        {
            let mut g = self.sh.lock().unwrap();
            g.spawned += 1;
            ev(&mut g, "spawn".into());
        }
        let guard = FinGuard(self.sh.clone());
        tokio::spawn(async move {
            let _g = guard;
            fut.await;
        });
    }
}

// ------------------------------------------------------------------------------------------------
// schedule / configuration
#[derive(Clone, Debug, Default, Serialize, Deserialize)]
struct Step {
    a: String,
    #[serde(default)]
    c: usize,
    #[serde(default)]
    k: usize,
    #[serde(default)]
    x: String,
}
#[derive(Clone, Debug, Default, Serialize, Deserialize)]
struct ClientCfg {
    #[serde(default = "d_none")]
    sni: String, // label: "none" = no server name is sent; else the name is "<label><k>.test"
    #[serde(default = "d_none")]
    alpn: String, // none | h1 | h2
    #[serde(default = "d_h1")]
    proto: String, // h1 | h2
    #[serde(default = "d_true")]
    named: bool, // unix: the client binds its own end to a path
}
fn d_none() -> String {
    "none".into()
}
fn d_h1() -> String {
    "h1".into()
}
fn d_true() -> bool {
    true
}
#[derive(Clone, Debug, Serialize, Deserialize)]
struct Cfg {
    id: String,
    #[serde(default)]
    src: String,
    #[serde(default = "d_id")]
    acc: String, // id | duplex | tcp | tcp6 | unix
    #[serde(default)]
    tls: bool,
    #[serde(default)]
    ci: bool,
    #[serde(default)]
    ti: bool,
    #[serde(default = "d_order")]
    order: String, // "ci-tls": with_connection_info().with_tls_connection_info(); "tls-ci": the other way round
    #[serde(default)]
    shared: bool,
    #[serde(default)]
    sni: bool,
    #[serde(default = "d_true")]
    graceful: bool,
    #[serde(default)]
    ready_gated: bool,
    #[serde(default)]
    make_gated: bool,
    #[serde(default)]
    app_gated: bool,
    clients: Vec<ClientCfg>,
    #[serde(default = "d_nreq")]
    nreq: usize,
    #[serde(default)]
    steps: Vec<Step>,
}
fn d_id() -> String {
    "id".into()
}
fn d_order() -> String {
    "ci-tls".into()
}
fn d_nreq() -> usize {
    2
}

// ------------------------------------------------------------------------------------------------
// clients
enum Cmd {
    Hs(bool),
    Write(Vec<u8>),
    H2Req(usize, String),
}
#[derive(Default, Clone)]
struct H2Resp {
    status: u16,
    body: Vec<u8>,
    done: bool,
    err: bool,
}
#[derive(Default)]
struct CState {
    rx: Vec<u8>,
    eof: bool,
    rerr: bool,
    tls: String, // "" | ok | err | garbage
    alpn: String,
    h2ready: bool,
    h2resps: BTreeMap<usize, H2Resp>,
    aborts: Vec<tokio::task::AbortHandle>,
}
struct Cli {
    c: usize,
    cfg: ClientCfg,
    state: String, // none | pending | open | closed | refused
    hs: String,    // "" | go | garbage
    fut: Option<ConnFut>,
    cmd: Option<mpsc::UnboundedSender<Cmd>>,
    st: Arc<Mutex<CState>>,
    task: Option<tokio::task::JoinHandle<()>>,
    sent: Vec<(usize, bool)>, // (k, host names the connection's own server name)
    exp_local: String,
    exp_remote: String,
    exp_remote_mapped: String,
}
impl Cli {
    fn drop_conn(&mut self) {
        self.fut = None;
        self.cmd = None;
        if let Some(t) = self.task.take() {
            t.abort();
        }
        for a in self.st.lock().unwrap().aborts.drain(..) {
            a.abort();
        }
    }
    fn sni_name(&self) -> Option<String> {
        if self.cfg.sni == "none" {
            None
        } else {
            Some(format!("{}{}.test", self.cfg.sni, self.c))
        }
    }
}

#[derive(Debug)]
struct NoVerify(Arc<rustls::crypto::CryptoProvider>);
impl rustls::client::danger::ServerCertVerifier for NoVerify {
    fn verify_server_cert(
        &self,
        _: &rustls::pki_types::CertificateDer<'_>,
        _: &[rustls::pki_types::CertificateDer<'_>],
        _: &rustls::pki_types::ServerName<'_>,
        _: &[u8],
        _: rustls::pki_types::UnixTime,
    ) -> Result<rustls::client::danger::ServerCertVerified, rustls::Error> {
        Ok(rustls::client::danger::ServerCertVerified::assertion())
    }
    fn verify_tls12_signature(&self, m: &[u8], c: &rustls::pki_types::CertificateDer<'_>, d: &rustls::DigitallySignedStruct) -> Result<rustls::client::danger::HandshakeSignatureValid, rustls::Error> {
        rustls::crypto::verify_tls12_signature(m, c, d, &self.0.signature_verification_algorithms)
    }
    fn verify_tls13_signature(&self, m: &[u8], c: &rustls::pki_types::CertificateDer<'_>, d: &rustls::DigitallySignedStruct) -> Result<rustls::client::danger::HandshakeSignatureValid, rustls::Error> {
        rustls::crypto::verify_tls13_signature(m, c, d, &self.0.signature_verification_algorithms)
    }
    fn supported_verify_schemes(&self) -> Vec<rustls::SignatureScheme> {
        self.0.signature_verification_algorithms.supported_schemes()
    }
}

fn client_tls(alpn: &str) -> tokio_rustls::TlsConnector {
    let prov = Arc::new(rustls::crypto::ring::default_provider());
    let mut cfg = rustls::ClientConfig::builder().dangerous().with_custom_certificate_verifier(Arc::new(NoVerify(prov))).with_no_client_auth();
    cfg.alpn_protocols = match alpn {
        "h1" => vec![b"http/1.1".to_vec()],
        "h2" => vec![b"h2".to_vec()],
        _ => vec![],
    };
    tokio_rustls::TlsConnector::from(Arc::new(cfg))
}

fn server_tls(dir: &str) -> Arc<rustls::ServerConfig> {
    let rd = |n: &str| std::fs::read(format!("{dir}/{n}")).unwrap_or_else(|e| panic!("read {dir}/{n}: {e}"));
    let (_, cert) = pem_rfc7468::decode_vec(&rd("cert.pem")).unwrap();
    let keypem = rd("key.pem");
    let (label, key) = pem_rfc7468::decode_vec(&keypem).unwrap();
    let key = match label {
        "PRIVATE KEY" => rustls::pki_types::PrivateKeyDer::Pkcs8(key.into()),
        "RSA PRIVATE KEY" => rustls::pki_types::PrivateKeyDer::Pkcs1(key.into()),
        "EC PRIVATE KEY" => rustls::pki_types::PrivateKeyDer::Sec1(key.into()),
        l => panic!("unknown key type {l}"),
    };
    let mut server = rustls::ServerConfig::builder().with_no_client_auth().with_single_cert(vec![rustls::pki_types::CertificateDer::from(cert)], key).unwrap();
    server.alpn_protocols = vec![b"h2".to_vec(), b"http/1.1".to_vec()];
    Arc::new(server)
}

struct ChanBody;
impl http_body::Body for ChanBody {
    type Data = Bytes;
    type Error = BoxError;
    fn poll_frame(self: Pin<&mut Self>, _: &mut Context<'_>) -> Poll<Option<Result<http_body::Frame<Bytes>, BoxError>>> {
        Poll::Ready(None)
    }
    fn is_end_stream(&self) -> bool {
        true
    }
}

async fn client_task(io: BoxIo, tls: bool, cfg: ClientCfg, c: usize, sni: Option<String>, mut rx: mpsc::UnboundedReceiver<Cmd>, st: Arc<Mutex<CState>>) {
    let mut io: BoxIo = io;
    if tls {
        // the handshake starts when the schedule says so
        let go = loop {
            match rx.recv().await {
                Some(Cmd::Hs(b)) => break b,
                Some(_) => {}
                None => return,
            }
        };
        if !go {
            st.lock().unwrap().tls = "garbage".into();
            let _ = io.write_all(b"\x16\x03\x00garbage\x00\xff\r\n\r\nthis is no ClientHello at all\r\n\r\n").await;
            let _ = io.flush().await;
            let mut buf = vec![0u8; 4096];
            loop {
                match io.read(&mut buf).await {
                    Ok(0) | Err(_) => break,
                    Ok(_) => {}
                }
            }
            st.lock().unwrap().eof = true;
            // keep the command channel alive until the harness drops the client
            while rx.recv().await.is_some() {}
            return;
        }
        let name = match &sni {
            Some(n) => rustls::pki_types::ServerName::try_from(n.clone()).unwrap(),
            None => rustls::pki_types::ServerName::IpAddress(std::net::IpAddr::V4(std::net::Ipv4Addr::new(127, 0, 0, 1)).into()),
        };
        match client_tls(&cfg.alpn).connect(name, io).await {
            Ok(s) => {
                {
                    let mut g = st.lock().unwrap();
                    g.tls = "ok".into();
                    g.alpn = match s.get_ref().1.alpn_protocol() {
                        Some(b"h2") => "h2".into(),
                        Some(b"http/1.1") => "h1".into(),
                        Some(_) => "other".into(),
                        None => "none".into(),
                    };
                }
                io = Box::new(s);
            }
            Err(_) => {
                let mut g = st.lock().unwrap();
                g.tls = "err".into();
                g.eof = true;
                return;
            }
        }
    }
    if cfg.proto == "h2" {
        let (mut sender, conn) = match hyper::client::conn::http2::handshake::<_, _, ChanBody>(TokioExecutor::new(), TokioIo::new(io)).await {
            Ok(x) => x,
            Err(_) => {
                let mut g = st.lock().unwrap();
                g.eof = true;
                g.rerr = true;
                return;
            }
        };
        st.lock().unwrap().h2ready = true;
        let st2 = st.clone();
        let h = tokio::spawn(async move {
            let r = conn.await;
            let mut g = st2.lock().unwrap();
            g.eof = true;
            g.rerr = r.is_err();
        });
        st.lock().unwrap().aborts.push(h.abort_handle());
        while let Some(cmd) = rx.recv().await {
            if let Cmd::H2Req(k, host) = cmd {
                let scheme = if tls { "https" } else { "http" };
                let req = http::Request::builder()
                    .method("GET")
                    .uri(format!("{scheme}://{host}/c{c}/r{k}"))
                    .header("x-client", c.to_string())
                    .header("x-req", k.to_string())
                    .body(ChanBody)
                    .unwrap();
                st.lock().unwrap().h2resps.insert(k, H2Resp::default());
                let fut = sender.send_request(req);
                let st3 = st.clone();
                let h = tokio::spawn(async move {
                    match fut.await {
                        Ok(resp) => {
                            let status = resp.status().as_u16();
                            match resp.into_body().collect().await {
                                Ok(b) => {
                                    let mut g = st3.lock().unwrap();
                                    let r = g.h2resps.get_mut(&k).unwrap();
                                    r.status = status;
                                    r.body = b.to_bytes().to_vec();
                                    r.done = true;
                                }
                                Err(_) => {
                                    let mut g = st3.lock().unwrap();
                                    let r = g.h2resps.get_mut(&k).unwrap();
                                    r.status = status;
                                    r.err = true;
                                }
                            }
                        }
                        Err(_) => {
                            st3.lock().unwrap().h2resps.get_mut(&k).unwrap().err = true;
                        }
                    }
                });
                st.lock().unwrap().aborts.push(h.abort_handle());
            }
        }
        return;
    }
    let mut buf = vec![0u8; 16384];
    let mut eof = false;
    loop {
        tokio::select! {
            biased;
            cmd = rx.recv() => match cmd {
                Some(Cmd::Write(b)) => {
                    let r = async { io.write_all(&b).await?; io.flush().await }.await;
                    if r.is_err() { st.lock().unwrap().rerr = true; }
                }
                Some(_) => {}
                None => break,
            },
            r = io.read(&mut buf), if !eof => match r {
                Ok(0) => { eof = true; st.lock().unwrap().eof = true; }
                Ok(n) => { st.lock().unwrap().rx.extend_from_slice(&buf[..n]); }
                Err(_) => { eof = true; let mut g = st.lock().unwrap(); g.eof = true; g.rerr = true; }
            },
        }
    }
}

/// Consecutive HTTP/1 responses in what a raw client has received: (status, body, complete)
fn parse_resps(rx: &[u8]) -> Vec<(u16, Vec<u8>, bool)> {
    let mut out = vec![];
    let mut pos = 0;
    while pos < rx.len() {
        let rest = &rx[pos..];
        let status = if rest.len() >= 12 && rest.starts_with(b"HTTP/1.") { std::str::from_utf8(&rest[9..12]).ok().and_then(|s| s.parse().ok()).unwrap_or(0) } else { 0 };
        match rest.windows(4).position(|w| w == b"\r\n\r\n") {
            None => {
                out.push((status, vec![], false));
                break;
            }
            Some(i) => {
                let head = String::from_utf8_lossy(&rest[..i]).to_ascii_lowercase();
                let mut len = 0usize;
                for line in head.split("\r\n") {
                    if let Some(v) = line.strip_prefix("content-length:") {
                        len = v.trim().parse().unwrap_or(0);
                    }
                }
                let avail = rest.len() - (i + 4);
                let complete = avail >= len;
                out.push((status, rest[i + 4..i + 4 + avail.min(len)].to_vec(), complete));
                if !complete {
                    break;
                }
                pos += i + 4 + len;
            }
        }
    }
    out
}

// ------------------------------------------------------------------------------------------------
enum Dial {
    Id(Vec<DuplexClient>), // index = client - 1
    Duplex(DuplexClient),
    Tcp(std::net::SocketAddr, (u8, u8)),
    Unix(std::path::PathBuf),
}

struct Runner {
    cfg: Cfg,
    sh: Sh,
    dial: Dial,
    id_order: Arc<Mutex<VecDeque<usize>>>,
    paused: bool,
    srv: Option<tokio::task::JoinHandle<Result<(), String>>>,
    srv_state: String,
    srv_err: String,
    clis: Vec<Cli>, // index 0 unused
    ev_cursor: usize,
    recs: Vec<Value>,
    done_steps: Vec<Step>,
    listen_local: String,
    paths: Vec<std::path::PathBuf>,
    nobs: usize,
    decided_err: bool,
}

fn mapped(a: std::net::SocketAddr) -> String {
    match a.ip() {
        std::net::IpAddr::V4(ip) => std::net::SocketAddr::new(std::net::IpAddr::V6(ip.to_ipv6_mapped()), a.port()).to_string(),
        _ => String::new(),
    }
}

fn noop_cx_poll<F: Future + ?Sized>(f: Pin<&mut F>) -> Poll<F::Output> {
    let w = futures_util::task::noop_waker();
    let mut cx = Context::from_waker(&w);
    f.poll(&mut cx)
}

/// Builds the server through the public builder and spawns its (graceful or plain) serving future.
macro_rules! launch {
    ($acc:expr, $addr:ty, $cfg:expr, $sh:expr) => {{
        let cfg: &Cfg = $cfg;
        let sh: Sh = $sh.clone();
        let b = Server::builder::<Body>()
            .with_acceptor(LogAccept { inner: $acc, sh: sh.clone() })
            .with_protocol(BoxProto { inner: AutoB::default(), sh: sh.clone() })
            .with_executor(CountExec { sh: sh.clone() });
        let mk: MakeDouble<$addr> = MakeDouble { sh: sh.clone(), sni: cfg.sni, _a: PhantomData };
        let app: App<$addr> = App { echo: Echo { sh: sh.clone(), tag: 0, _a: PhantomData }, sni: cfg.sni };
        macro_rules! go {
            ($s:expr) => {{
                let s = $s;
                if cfg.graceful {
                    let fut = s.with_graceful_shutdown(Sig { sh: sh.clone(), done: false });
                    tokio::spawn(async move { fut.await.map_err(|e| format!("{e}")) })
                } else {
                    let fut = std::future::IntoFuture::into_future(s);
                    tokio::spawn(async move { fut.await.map_err(|e| format!("{e}")) })
                }
            }};
        }
        let tls_first = cfg.order == "tls-ci";
        match (cfg.shared, cfg.ci, cfg.ti) {
            (false, false, false) => go!(b.with_make_service(mk)),
            (false, true, false) => go!(b.with_make_service(mk).with_connection_info()),
            (false, false, true) => go!(b.with_make_service(mk).with_tls_connection_info()),
            (false, true, true) if !tls_first => go!(b.with_make_service(mk).with_connection_info().with_tls_connection_info()),
            (false, true, true) => go!(b.with_make_service(mk).with_tls_connection_info().with_connection_info()),
            (true, false, false) => go!(b.with_shared_service(app)),
            (true, true, false) => go!(b.with_shared_service(app).with_connection_info()),
            (true, false, true) => go!(b.with_shared_service(app).with_tls_connection_info()),
            (true, true, true) if !tls_first => go!(b.with_shared_service(app).with_connection_info().with_tls_connection_info()),
            (true, true, true) => go!(b.with_shared_service(app).with_tls_connection_info().with_connection_info()),
        }
    }};
}

impl Runner {
    async fn new(cfg: Cfg, tls: Option<&Arc<rustls::ServerConfig>>, paused: bool, scratch: &str, run_no: usize) -> Runner {
        let sh: Sh = Default::default();
        {
            let mut g = sh.lock().unwrap();
            g.ready_gated = cfg.ready_gated && !cfg.shared;
            g.make_gated = cfg.make_gated && !cfg.shared;
            g.app_gated = cfg.app_gated;
        }
        let id_order: Arc<Mutex<VecDeque<usize>>> = Default::default();
        let n = cfg.clients.len();
        let mut paths = vec![];
        let listen_local: String;
        let pid = std::process::id();
        let (dial, srv) = match cfg.acc.as_str() {
            "id" => {
                let mut clients = vec![];
                let mut pairs = vec![];
                for k in 1..=n {
                    let (c, inc) = hyperdriver::stream::duplex::pair();
                    clients.push(c);
                    pairs.push((k, inc));
                }
                let core = IdIncoming { pairs, order: id_order.clone() };
                let acc = Acceptor::new(core);
                let acc = if cfg.tls { acc.with_tls(tls.expect("tls material").clone()) } else { acc };
                listen_local = "id:listener".into();
                (Dial::Id(clients), launch!(acc, IdAddr, &cfg, sh))
            }
            "duplex" => {
                let (c, inc) = hyperdriver::stream::duplex::pair();
                let acc = Acceptor::from(inc);
                let acc = if cfg.tls { acc.with_tls(tls.expect("tls material").clone()) } else { acc };
                listen_local = "<duplex>".into();
                (Dial::Duplex(c), launch!(acc, BraidAddr, &cfg, sh))
            }
            "tcp" | "tcp6" => {
                // 127.a.b.* is this process's private range; a wildcard bind with port 0 owns its port everywhere
                let base = (64 + (pid % 128) as u8, ((pid / 128) % 250) as u8);
                let bind = if cfg.acc == "tcp6" { "[::]:0".to_string() } else { format!("127.{}.{}.1:0", base.0, base.1) };
                let l = tokio::net::TcpListener::bind(&bind).await.unwrap_or_else(|e| panic!("bind {bind}: {e}"));
                let la = l.local_addr().unwrap();
                let target: std::net::SocketAddr = format!("127.{}.{}.1:{}", base.0, base.1, la.port()).parse().unwrap();
                listen_local = target.to_string();
                let acc = Acceptor::from(l);
                let acc = if cfg.tls { acc.with_tls(tls.expect("tls material").clone()) } else { acc };
                (Dial::Tcp(target, base), launch!(acc, BraidAddr, &cfg, sh))
            }
            "unix" => {
                let p = std::path::PathBuf::from(format!("{scratch}/ci-{pid}-{run_no}.sock"));
                let _ = std::fs::remove_file(&p);
                let l = tokio::net::UnixListener::bind(&p).unwrap_or_else(|e| panic!("bind {}: {e}", p.display()));
                listen_local = format!("unix://{}", p.display());
                paths.push(p.clone());
                let acc = Acceptor::from(l);
                let acc = if cfg.tls { acc.with_tls(tls.expect("tls material").clone()) } else { acc };
                (Dial::Unix(p), launch!(acc, BraidAddr, &cfg, sh))
            }
            o => panic!("unknown acceptor {o}"),
        };
        let mut clis = vec![];
        for i in 0..=n {
            let ccfg = if i == 0 { ClientCfg::default() } else { cfg.clients[i - 1].clone() };
            clis.push(Cli {
                c: i,
                cfg: ccfg,
                state: "none".into(),
                hs: String::new(),
                fut: None,
                cmd: None,
                st: Default::default(),
                task: None,
                sent: vec![],
                exp_local: listen_local.clone(),
                exp_remote: String::new(),
                exp_remote_mapped: String::new(),
            });
        }
        Runner {
            cfg,
            sh,
            dial,
            id_order,
            paused,
            srv: Some(srv),
            srv_state: "running".into(),
            srv_err: String::new(),
            clis,
            ev_cursor: 0,
            recs: vec![],
            done_steps: vec![],
            listen_local,
            paths,
            nobs: 0,
            decided_err: false,
        }
    }

    /// The connect future of client i and the address the server must report as its remote address.
    fn connect_fut(&mut self, i: usize) -> (ConnFut, String) {
        match &self.dial {
            Dial::Id(cs) => {
                let c = cs[i - 1].clone();
                self.id_order.lock().unwrap().push_back(i);
                (Box::pin(async move { c.connect(65536).await.map(|s| Box::new(s) as BoxIo) }), format!("id:peer:{i}"))
            }
            Dial::Duplex(c) => {
                let c = c.clone();
                (Box::pin(async move { c.connect(65536).await.map(|s| Box::new(s) as BoxIo) }), "<duplex>".into())
            }
            Dial::Tcp(target, base) => {
                // own source address per client; the port is chosen by the kernel and read back before connecting
                let target = *target;
                let src: std::net::SocketAddr = format!("127.{}.{}.{}:0", base.0, base.1, 10 + i).parse().unwrap();
                let sock = tokio::net::TcpSocket::new_v4().expect("socket");
                sock.bind(src).expect("bind client address");
                let local = sock.local_addr().expect("local addr");
                (Box::pin(async move { sock.connect(target).await.map(|s| Box::new(s) as BoxIo) }), local.to_string())
            }
            Dial::Unix(p) => {
                let server = p.clone();
                if self.clis[i].cfg.named {
                    let mine = std::path::PathBuf::from(format!("{}-c{}", p.display(), i));
                    let _ = std::fs::remove_file(&mine);
                    self.paths.push(mine.clone());
                    let exp = format!("unix://{}", mine.display());
                    (
                        Box::pin(async move {
                            let sock = tokio::net::UnixSocket::new_stream()?;
                            sock.bind(&mine)?;
                            sock.connect(server).await.map(|s| Box::new(s) as BoxIo)
                        }),
                        exp,
                    )
                } else {
                    (Box::pin(async move { tokio::net::UnixStream::connect(server).await.map(|s| Box::new(s) as BoxIo) }), "unix://".into())
                }
            }
        }
    }

    fn start_client(&mut self, i: usize, io: BoxIo) {
        let tls = self.cfg.tls;
        let c = &mut self.clis[i];
        let (tx, rx) = mpsc::unbounded_channel();
        c.cmd = Some(tx);
        c.task = Some(tokio::spawn(client_task(io, tls, c.cfg.clone(), i, c.sni_name(), rx, c.st.clone())));
    }

    fn repoll_connects(&mut self) -> bool {
        let mut changed = false;
        let mut todo = vec![];
        for i in 1..self.clis.len() {
            let c = &mut self.clis[i];
            if c.state == "pending" {
                if let Some(f) = c.fut.as_mut() {
                    match noop_cx_poll(f.as_mut()) {
                        Poll::Ready(Ok(io)) => {
                            c.fut = None;
                            c.state = "open".into();
                            todo.push((i, io));
                            changed = true;
                        }
                        Poll::Ready(Err(_)) => {
                            c.fut = None;
                            c.state = "refused".into();
                            changed = true;
                        }
                        Poll::Pending => {}
                    }
                }
            }
        }
        for (i, io) in todo {
            self.start_client(i, io);
            // commands issued while the connect was still queued
            let hs = self.clis[i].hs.clone();
            if !hs.is_empty() {
                let _ = self.clis[i].cmd.as_ref().unwrap().send(Cmd::Hs(hs == "go"));
            }
            let sent = self.clis[i].sent.clone();
            for (k, own) in sent {
                self.write_req(i, k, own);
            }
        }
        changed
    }

    fn snapshot_key(&self) -> String {
        let g = self.sh.lock().unwrap();
        let mut s = format!("{}|{}|{}|", g.seq, g.spawned, g.finished);
        drop(g);
        for c in self.clis.iter() {
            let st = c.st.lock().unwrap();
            s.push_str(&format!("{}:{}:{}:{}:{}:{};", c.state, st.rx.len(), st.eof, st.tls, st.h2ready, st.h2resps.values().map(|r| r.body.len() + 100 * (r.done as usize) + 1000 * (r.err as usize) + 1).sum::<usize>()));
        }
        s.push_str(&format!("{}", self.srv.as_ref().map(|h| h.is_finished()).unwrap_or(true)));
        s
    }

    async fn settle(&mut self) {
        if self.paused {
            for _ in 0..8 {
                tokio::time::sleep(Duration::from_millis(1)).await;
                if !self.repoll_connects() {
                    break;
                }
            }
        } else {
            // real sockets: wait until nothing observable changes for a while (eventual outcomes only)
            let mut last = self.snapshot_key();
            let mut stable = 0;
            let mut rounds = 0;
            while stable < 8 && rounds < 800 {
                tokio::time::sleep(Duration::from_millis(4)).await;
                self.repoll_connects();
                let k = self.snapshot_key();
                if k == last {
                    stable += 1;
                } else {
                    stable = 0;
                    last = k;
                }
                rounds += 1;
            }
        }
        if self.srv.as_ref().map(|h| h.is_finished()).unwrap_or(false) {
            let h = self.srv.take().unwrap();
            self.srv_state = match h.await {
                Ok(Ok(())) => "ok".into(),
                Ok(Err(e)) => {
                    self.srv_err = e.clone();
                    if e.contains("make service") {
                        "errmake".into()
                    } else if e.contains("accept") {
                        "erraccept".into()
                    } else {
                        "err".into()
                    }
                }
                Err(_) => "panic".into(),
            };
        }
    }

    fn host_for(&self, i: usize, own: bool) -> String {
        if own {
            self.clis[i].sni_name().unwrap_or_else(|| format!("nosni{i}.test"))
        } else {
            "zz.test".into()
        }
    }

    fn write_req(&mut self, i: usize, k: usize, own: bool) {
        let host = self.host_for(i, own);
        let c = &self.clis[i];
        if let Some(cmd) = c.cmd.as_ref() {
            if c.cfg.proto == "h2" {
                let _ = cmd.send(Cmd::H2Req(k, host));
            } else {
                let b = format!("GET /c{i}/r{k} HTTP/1.1\r\nhost: {host}\r\nx-client: {i}\r\nx-req: {k}\r\n\r\n").into_bytes();
                let _ = cmd.send(Cmd::Write(b));
            }
        }
    }

    fn pending_make(&self) -> Option<usize> {
        let g = self.sh.lock().unwrap();
        if !g.make_gated {
            return None;
        }
        (1..=g.makes.len()).find(|n| g.makes[n - 1].dec.is_none())
    }

    /// Applies one step; false if it is not applicable in the real state.
    fn apply(&mut self, s: &Step) -> bool {
        let i = s.c;
        let n = self.clis.len() - 1;
        match s.a.as_str() {
            "Connect" => {
                if i == 0 || i > n || self.clis[i].state != "none" {
                    return false;
                }
                let (mut f, exp) = self.connect_fut(i);
                if self.cfg.acc == "tcp6" {
                    // what the address would look like if the IPv4-mapped form were not canonicalised
                    if let Ok(a) = exp.parse::<std::net::SocketAddr>() {
                        self.clis[i].exp_remote_mapped = mapped(a);
                    }
                }
                self.clis[i].exp_remote = exp;
                match noop_cx_poll(f.as_mut()) {
                    Poll::Ready(Ok(io)) => {
                        self.clis[i].state = "open".into();
                        self.start_client(i, io);
                    }
                    Poll::Ready(Err(_)) => self.clis[i].state = "refused".into(),
                    Poll::Pending => {
                        self.clis[i].state = "pending".into();
                        self.clis[i].fut = Some(f);
                    }
                }
                true
            }
            "Hs" | "HsFail" => {
                if i == 0 || i > n || !self.cfg.tls || !self.clis[i].hs.is_empty() || !matches!(self.clis[i].state.as_str(), "pending" | "open" | "refused") {
                    return false;
                }
                let go = s.a == "Hs";
                self.clis[i].hs = if go { "go".into() } else { "garbage".into() };
                if let Some(cmd) = self.clis[i].cmd.as_ref() {
                    let _ = cmd.send(Cmd::Hs(go));
                }
                true
            }
            "Send" => {
                // (a client whose queued connect was refused because the listener is gone talks to nobody)
                if i == 0 || i > n || !matches!(self.clis[i].state.as_str(), "pending" | "open" | "refused") {
                    return false;
                }
                if self.cfg.tls && self.clis[i].hs != "go" {
                    return false;
                }
                let k = s.k;
                if k == 0 || k > self.cfg.nreq || k != self.clis[i].sent.len() + 1 {
                    return false;
                }
                let own = s.x != "other";
                self.clis[i].sent.push((k, own));
                if self.clis[i].cmd.is_some() {
                    self.write_req(i, k, own);
                }
                true
            }
            "Gate" => {
                let mut g = self.sh.lock().unwrap();
                if !g.app_gated {
                    return false;
                }
                let started = g.apps.get(&(i, s.k)).map(|a| a.count > 0 && !a.done).unwrap_or(false);
                let gate = g.gates.entry((i, s.k)).or_default();
                if !started || gate.open {
                    return false;
                }
                gate.open = true;
                for w in gate.wakers.drain(..) {
                    w.wake();
                }
                true
            }
            "Close" => {
                if i == 0 || i > n || self.clis[i].state != "open" {
                    return false;
                }
                self.clis[i].drop_conn();
                self.clis[i].state = "closed".into();
                true
            }
            "Ready" => {
                let mut g = self.sh.lock().unwrap();
                if !g.ready_gated || g.ready_dec.is_some() || !g.ready_waiting || self.srv_state != "running" {
                    return false;
                }
                let ok = s.x != "err";
                g.ready_dec = Some(ok);
                if !ok {
                    self.decided_err = true;
                }
                if let Some(w) = g.ready_waker.take() {
                    w.wake();
                }
                true
            }
            "Make" => {
                let Some(nm) = self.pending_make() else { return false };
                if self.srv_state != "running" {
                    return false;
                }
                let ok = s.x != "err";
                let mut g = self.sh.lock().unwrap();
                g.makes[nm - 1].dec = Some(ok);
                if !ok {
                    self.decided_err = true;
                }
                if let Some(w) = g.make_wakers.remove(&nm) {
                    w.wake();
                }
                true
            }
            "Signal" => {
                let mut g = self.sh.lock().unwrap();
                if g.sig_fired || !self.cfg.graceful {
                    return false;
                }
                g.sig_fired = true;
                let s = ev(&mut g, "sigfire".into());
                g.sig_fire_seq = s;
                if let Some(w) = g.sig_waker.take() {
                    w.wake();
                }
                true
            }
            _ => false,
        }
    }

    fn observe(&mut self, kind: &str, step: &Step, applied: bool) -> Value {
        let g = self.sh.lock().unwrap();
        let mut conns = vec![];
        for i in 1..self.clis.len() {
            let c = &self.clis[i];
            let st = c.st.lock().unwrap();
            let resps: Vec<(u16, Vec<u8>, bool, bool)> = if c.cfg.proto == "h2" {
                let n = st.h2resps.keys().max().copied().unwrap_or(0);
                (1..=n).map(|k| st.h2resps.get(&k).map(|r| (r.status, r.body.clone(), r.done, r.err)).unwrap_or((0, vec![], false, false))).collect()
            } else {
                parse_resps(&st.rx).into_iter().map(|(s, b, d)| (s, b, d, false)).collect()
            };
            let mut reqs = vec![];
            for (pos, (k, own)) in c.sent.iter().enumerate() {
                let a = g.apps.get(&(i, *k)).cloned().unwrap_or_default();
                // HTTP/1: the j-th response on the wire answers the j-th request that was not rejected before it
                let r = if c.cfg.proto == "h2" { resps.get(k - 1).cloned() } else { resps.get(pos).cloned() }.unwrap_or((0, vec![], false, false));
                let body: Value = if r.2 { serde_json::from_slice(&r.1).unwrap_or(Value::Null) } else { Value::Null };
                let bs = |v: &Value, f: &str, sub: &str| v.get(f).and_then(|x| x.get(sub)).and_then(|x| x.as_str()).unwrap_or("").to_string();
                reqs.push(json!({
                    "k": k, "own": own,
                    "app": a.count, "appSeq": a.seq, "tag": a.tag, "appDone": a.done, "rej": a.rejected,
                    "hasCi": a.ci.is_some(), "ciLocal": a.ci.as_ref().map(|x| x.0.clone()).unwrap_or_default(), "ciRemote": a.ci.as_ref().map(|x| x.1.clone()).unwrap_or_default(),
                    "hasTls": a.tls.is_some(),
                    "tlsHasSni": a.tls.as_ref().map(|t| t.0.is_some()).unwrap_or(false),
                    "tlsSni": a.tls.as_ref().and_then(|t| t.0.clone()).unwrap_or_default(),
                    "tlsAlpn": a.tls.as_ref().map(|t| t.1.clone()).unwrap_or_default(),
                    "tlsValid": a.tls.as_ref().map(|t| t.2).unwrap_or(false),
                    "resp": r.2 && r.0 == 200, "status": r.0, "respErr": r.3,
                    "respC": body.get("c").and_then(|x| x.as_u64()).unwrap_or(0), "respK": body.get("k").and_then(|x| x.as_u64()).unwrap_or(0),
                    "respTag": body.get("tag").and_then(|x| x.as_u64()).unwrap_or(0),
                    "respHasCi": body.get("ci").map(|x| !x.is_null()).unwrap_or(false),
                    "respCiRemote": bs(&body, "ci", "remote"), "respCiLocal": bs(&body, "ci", "local"),
                    "respHasTls": body.get("tls").map(|x| !x.is_null()).unwrap_or(false),
                    "respTlsSni": bs(&body, "tls", "sni"),
                }));
            }
            conns.push(json!({
                "c": i, "st": c.state, "hs": c.hs, "tlsc": st.tls, "alpnc": st.alpn, "eof": st.eof, "h2ready": st.h2ready,
                "extra": resps.len().saturating_sub(c.sent.len()),
                "reqs": reqs,
            }));
        }
        let new_events: Vec<String> = g.events[self.ev_cursor..].to_vec();
        self.ev_cursor = g.events.len();
        self.nobs += 1;
        let rec = json!({
            "e": "Obs", "i": self.nobs, "kind": kind, "det": self.paused,
            "step": {"a": step.a, "c": step.c, "k": step.k, "x": step.x, "applied": applied},
            "srv": self.srv_state, "srvErr": self.srv_err,
            "sigFired": g.sig_fired, "sigFireSeq": g.sig_fire_seq, "sigSeq": g.sig_seq,
            "decidedErr": self.decided_err,
            "readyPolls": g.ready_polls, "readyOks": g.ready_oks, "readyErrs": g.ready_errs, "readyWaiting": g.ready_waiting && g.ready_dec.is_none(),
            "accepts": g.accepts.iter().map(|a| json!({"seq": a.seq, "local": a.local, "remote": a.remote})).collect::<Vec<_>>(),
            "acceptErrs": g.accept_errs,
            "makes": g.makes.iter().map(|m| json!({"seq": m.seq, "local": m.local, "remote": m.remote, "decided": m.dec.is_some() || !g.make_gated, "done": m.done, "doneSeq": m.done_seq, "afterSig": m.after_sig})).collect::<Vec<_>>(),
            "serves": g.serves, "spawned": g.spawned, "finished": g.finished,
            "odd": g.odd.len(), "panics": PANICS.lock().unwrap().len(),
            "events": new_events,
            "conns": conns,
        });
        rec
    }

    async fn step(&mut self, s: &Step) {
        let applied = self.apply(s);
        self.done_steps.push(s.clone());
        self.settle().await;
        let r = self.observe("step", s, applied);
        self.recs.push(r);
    }

    /// Every gate opens, every pending decision is answered Ok, every connected TLS client handshakes. Nothing
    /// new is started.  Then every client goes away.
    async fn finish(&mut self) {
        for _round in 0..96 {
            let mut acted = false;
            {
                let mut g = self.sh.lock().unwrap();
                if g.app_gated {
                    let keys: Vec<(usize, usize)> = g.apps.iter().filter(|(_, a)| a.count > 0 && !a.done).map(|(k, _)| *k).collect();
                    for k in keys {
                        let gate = g.gates.entry(k).or_default();
                        if !gate.open {
                            gate.open = true;
                            for w in gate.wakers.drain(..) {
                                w.wake();
                            }
                            acted = true;
                        }
                    }
                }
                if g.ready_gated && g.ready_waiting && g.ready_dec.is_none() && self.srv_state == "running" {
                    g.ready_dec = Some(true);
                    if let Some(w) = g.ready_waker.take() {
                        w.wake();
                    }
                    acted = true;
                }
                if g.make_gated && self.srv_state == "running" {
                    for n in 1..=g.makes.len() {
                        if g.makes[n - 1].dec.is_none() {
                            g.makes[n - 1].dec = Some(true);
                            if let Some(w) = g.make_wakers.remove(&n) {
                                w.wake();
                            }
                            acted = true;
                        }
                    }
                }
            }
            for i in 1..self.clis.len() {
                if self.cfg.tls && self.clis[i].hs.is_empty() && matches!(self.clis[i].state.as_str(), "pending" | "open") {
                    self.clis[i].hs = "go".into();
                    if let Some(cmd) = self.clis[i].cmd.as_ref() {
                        let _ = cmd.send(Cmd::Hs(true));
                    }
                    acted = true;
                }
            }
            let before = self.snapshot_key();
            self.settle().await;
            if !acted && before == self.snapshot_key() {
                break;
            }
        }
        let st = Step { a: "Quiesce".into(), ..Default::default() };
        let r = self.observe("quiesce", &st, true);
        self.recs.push(r);
        for i in 1..self.clis.len() {
            if self.clis[i].state == "open" || self.clis[i].state == "pending" {
                self.clis[i].drop_conn();
                self.clis[i].state = "closed".into();
            }
        }
        self.settle().await;
        self.settle().await;
        let st = Step { a: "End".into(), ..Default::default() };
        let r = self.observe("final", &st, true);
        self.recs.push(r);
    }

    // ---------------------------------------------------------------------------------------------
    /// Actions enabled in the REAL state (random walk).
    fn enabled(&self, rng: &mut StdRng, allow_sig: bool, allow_err: bool) -> Vec<(Step, u32)> {
        let mut v: Vec<(Step, u32)> = vec![];
        let mk = |a: &str, c: usize, k: usize, x: &str| Step { a: a.into(), c, k, x: x.into() };
        let g = self.sh.lock().unwrap();
        let running = self.srv_state == "running";
        if running {
            if let Some(i) = (1..self.clis.len()).find(|i| self.clis[*i].state == "none") {
                v.push((mk("Connect", i, 0, ""), 10));
            }
        }
        for i in 1..self.clis.len() {
            let c = &self.clis[i];
            if !matches!(c.state.as_str(), "pending" | "open") {
                continue;
            }
            if self.cfg.tls && c.hs.is_empty() {
                v.push((mk("Hs", i, 0, ""), 12));
                v.push((mk("HsFail", i, 0, ""), 1));
                continue;
            }
            if c.hs == "garbage" {
                continue;
            }
            let k = c.sent.len() + 1;
            // an HTTP/1 connection is closed by hyper after a rejected request: nothing more is sent there
            let rejected_before = c.sent.iter().any(|(_, own)| self.cfg.sni && self.cfg.ti && self.cfg.tls && (!own || c.cfg.sni == "none"));
            if k <= self.cfg.nreq && !(rejected_before && c.cfg.proto == "h1") {
                let other = self.cfg.sni && k == self.cfg.nreq && rng.gen_bool(0.3);
                v.push((mk("Send", i, k, if other { "other" } else { "own" }), 14));
            }
            if c.state == "open" {
                v.push((mk("Close", i, 0, ""), 1));
            }
            for (k, _) in c.sent.iter() {
                if g.app_gated {
                    if let Some(a) = g.apps.get(&(i, *k)) {
                        if a.count > 0 && !a.done && !g.gates.get(&(i, *k)).map(|x| x.open).unwrap_or(false) {
                            v.push((mk("Gate", i, *k, ""), 12));
                        }
                    }
                }
            }
        }
        if running && g.ready_gated && g.ready_waiting && g.ready_dec.is_none() {
            v.push((mk("Ready", 0, 0, "ok"), 16));
            if allow_err {
                v.push((mk("Ready", 0, 0, "err"), 1));
            }
        }
        if running && g.make_gated && (1..=g.makes.len()).any(|n| g.makes[n - 1].dec.is_none()) {
            v.push((mk("Make", 0, 0, "ok"), 14));
            if allow_err {
                v.push((mk("Make", 0, 0, "err"), 1));
            }
        }
        if allow_sig && self.cfg.graceful && !g.sig_fired {
            v.push((mk("Signal", 0, 0, ""), 1));
        }
        v
    }
}

fn client_json(r: &Runner) -> Vec<Value> {
    (1..r.clis.len())
        .map(|i| {
            let c = &r.clis[i];
            json!({"c": i, "sni": c.sni_name().unwrap_or_default(), "hasSni": c.cfg.sni != "none", "sniLabel": c.cfg.sni, "alpn": c.cfg.alpn, "proto": c.cfg.proto,
                   "named": c.cfg.named, "expLocal": c.exp_local, "expRemote": c.exp_remote, "expRemoteMapped": c.exp_remote_mapped})
        })
        .collect()
}

async fn run_schedule(cfg: Cfg, tls: Option<&Arc<rustls::ServerConfig>>, paused: bool, scratch: &str, run_no: usize, walk: Option<(u64, usize)>) -> Vec<Value> {
    let mut r = Runner::new(cfg.clone(), tls, paused, scratch, run_no).await;
    r.settle().await;
    match walk {
        None => {
            for s in cfg.steps.iter() {
                r.step(s).await;
            }
        }
        Some((seed, len)) => {
            let mut rng = StdRng::seed_from_u64(seed);
            let allow_err = rng.gen_bool(0.3);
            let sig_from = if rng.gen_bool(0.3) { rng.gen_range(len / 2..len.max(2)) } else { usize::MAX };
            for n in 0..len {
                let en = r.enabled(&mut rng, n >= sig_from, allow_err && n >= len / 3);
                if en.is_empty() {
                    break;
                }
                let tot: u32 = en.iter().map(|x| x.1).sum();
                let mut pick = rng.gen_range(0..tot);
                let mut chosen = en[0].0.clone();
                for (s, w) in en {
                    if pick < w {
                        chosen = s;
                        break;
                    }
                    pick -= w;
                }
                r.step(&chosen).await;
            }
        }
    }
    r.finish().await;
    for p in r.paths.iter() {
        let _ = std::fs::remove_file(p);
    }
    let mut cfg2 = cfg;
    cfg2.steps = r.done_steps.clone();
    let g = r.sh.lock().unwrap();
    let mut out = vec![json!({"e": "Reset", "run": run_no, "id": cfg2.id, "src": cfg2.src, "det": paused,
        "cfg": {"acc": cfg2.acc, "tls": cfg2.tls, "ci": cfg2.ci, "ti": cfg2.ti, "order": cfg2.order, "shared": cfg2.shared, "sni": cfg2.sni, "graceful": cfg2.graceful,
                "readyGated": g.ready_gated, "makeGated": g.make_gated, "appGated": g.app_gated, "nreq": cfg2.nreq},
        "listen": r.listen_local,
        "listenMapped": if cfg2.acc == "tcp6" { r.listen_local.parse::<std::net::SocketAddr>().map(mapped).unwrap_or_default() } else { String::new() },
        "clients": client_json(&r),
        "sched": serde_json::to_value(&cfg2).unwrap()})];
    drop(g);
    out.append(&mut r.recs);
    out
}

fn run_one(cfg: Cfg, tls: Option<&Arc<rustls::ServerConfig>>, scratch: &str, run_no: usize, walk: Option<(u64, usize)>) -> Vec<Value> {
    let paused = cfg.acc == "id" || cfg.acc == "duplex";
    let mut b = tokio::runtime::Builder::new_current_thread();
    b.enable_all();
    if paused {
        b.start_paused(true);
    }
    let rt = b.build().expect("runtime");
    let id = cfg.id.clone();
    let res = std::panic::catch_unwind(std::panic::AssertUnwindSafe(|| {
        rt.block_on(async {
            let lim = if paused { Duration::from_secs(3600) } else { Duration::from_secs(120) };
            match tokio::time::timeout(lim, run_schedule(cfg, tls, paused, scratch, run_no, walk)).await {
                Ok(v) => v,
                Err(_) => vec![json!({"e": "Reset", "run": run_no, "id": id, "hang": true})],
            }
        })
    }));
    drop(rt);
    match res {
        Ok(v) => v,
        Err(_) => vec![json!({"e": "Reset", "run": run_no, "id": id, "harnessPanic": true})],
    }
}

fn arg(args: &[String], name: &str) -> Option<String> {
    args.iter().position(|a| a == name).and_then(|i| args.get(i + 1).cloned())
}

fn walk_cfg(rng: &mut StdRng, acc: &str, n: usize, seed: u64, maxconn: usize) -> Cfg {
    let det = acc == "id" || acc == "duplex";
    let tls = rng.gen_bool(0.6);
    let nconn = rng.gen_range(2..=maxconn.max(2));
    let shared = rng.gen_bool(0.2);
    let (ci, ti) = match rng.gen_range(0..10) {
        0 => (false, false),
        1 | 2 => (true, false),
        3 | 4 => (false, true),
        _ => (true, true),
    };
    let labels = ["a", "b", "c", "none"];
    let clients = (0..nconn)
        .map(|_| {
            let proto = if rng.gen_bool(0.4) { "h2" } else { "h1" };
            ClientCfg {
                sni: if tls { labels[rng.gen_range(0..labels.len())].to_string() } else { "none".into() },
                alpn: if tls { (if rng.gen_bool(0.25) { "none" } else { proto }).to_string() } else { "none".into() },
                proto: proto.into(),
                named: rng.gen_bool(0.7),
            }
        })
        .collect();
    Cfg {
        id: format!("w-{acc}-{seed}-{n}"),
        src: "walk".into(),
        acc: acc.into(),
        tls,
        ci,
        ti,
        order: if rng.gen_bool(0.5) { "ci-tls".into() } else { "tls-ci".into() },
        shared,
        sni: tls && ti && rng.gen_bool(0.5),
        graceful: rng.gen_bool(0.8),
        ready_gated: det && rng.gen_bool(0.2),
        make_gated: det && rng.gen_bool(0.5),
        app_gated: rng.gen_bool(0.5),
        clients,
        nreq: 3,
        steps: vec![],
    }
}

// ------------------------------------------------------------------------------------------------
// I5: the address / protocol vector spec on the real conversions
fn braid_json(b: &BraidAddr) -> Value {
    let kind = match b {
        BraidAddr::Tcp(_) => "tcp",
        BraidAddr::Duplex => "duplex",
        BraidAddr::Unix(_) => "unix",
    };
    json!({"kind": kind, "display": b.to_string(), "tcp": b.tcp().map(|a| a.to_string()).unwrap_or_default(), "path": b.path().map(|p| p.to_string()).unwrap_or_default(),
           "hasPath": b.path().is_some()})
}
/// The info layers used directly (no Server): the make-service layer is called with an accepted duplex stream and the
/// resulting per-connection service handles two requests, either on the one service value or on a clone per request
/// (what bridge/service.rs does).  Reports whether each request found `ConnectionInfo` in its extensions.
fn direct_calls(clone_per_call: bool) -> Value {
    use hyperdriver::server::conn::{AcceptExt, MakeServiceConnectionInfoLayer};
    use tower::Layer;
    let rt = tokio::runtime::Builder::new_current_thread().enable_all().build().unwrap();
    rt.block_on(async move {
        let seen: Arc<Mutex<Vec<bool>>> = Default::default();
        let seen2 = seen.clone();
        let svc = tower::service_fn(move |req: http::Request<Body>| {
            let has = req.extensions().get::<ConnectionInfo<hyperdriver::info::DuplexAddr>>().is_some();
            seen2.lock().unwrap().push(has);
            async move { Ok::<_, std::convert::Infallible>(http::Response::new(Full::new(Bytes::new()))) }
        });
        let mut make = MakeServiceConnectionInfoLayer::new().layer(tower::make::Shared::new(svc));
        let (client, incoming) = hyperdriver::stream::duplex::pair();
        let (_c, conn) = tokio::try_join!(client.connect(1024), incoming.accept()).unwrap();
        let mut per_conn = Service::call(&mut make, &conn).await.unwrap();
        for _ in 0..2 {
            if clone_per_call {
                let _ = Service::call(&mut per_conn.clone(), http::Request::new(Body::empty())).await;
            } else {
                let _ = Service::call(&mut per_conn, http::Request::new(Body::empty())).await;
            }
        }
        let v = seen.lock().unwrap().clone();
        json!({"first": v.first().copied().unwrap_or(false), "second": v.get(1).copied().unwrap_or(false)})
    })
}

fn run_vectors(inp: &str, out: &str) -> usize {
    use std::str::FromStr;
    let text = std::fs::read_to_string(inp).expect("read --in");
    let mut tr = TraceOut::create(out);
    let mut n = 0;
    for line in text.lines().filter(|l| !l.trim().is_empty()) {
        let v: Value = serde_json::from_str(line).expect("vector");
        let op = v["op"].as_str().unwrap_or("");
        let s = |f: &str| v[f].as_str().unwrap_or("").to_string();
        let res = std::panic::catch_unwind(|| -> Value {
            match op {
                "from_sockaddr" => braid_json(&BraidAddr::from(s("addr").parse::<std::net::SocketAddr>().unwrap())),
                "from_ip_port" => {
                    let a: std::net::SocketAddr = s("addr").parse().unwrap();
                    braid_json(&BraidAddr::from((a.ip(), a.port())))
                }
                "from_v4_port" | "from_v6_port" => {
                    let a: std::net::SocketAddr = s("addr").parse().unwrap();
                    match a.ip() {
                        std::net::IpAddr::V4(ip) => braid_json(&BraidAddr::from((ip, a.port()))),
                        std::net::IpAddr::V6(ip) => braid_json(&BraidAddr::from((ip, a.port()))),
                    }
                }
                "canonical" => braid_json(&BraidAddr::Tcp(s("addr").parse().unwrap()).canonical()),
                "from_pathbuf" => {
                    // (camino is not a dependency of the harness: the path buffer is obtained through the crate's own types)
                    let ua = hyperdriver::info::UnixAddr::from_pathbuf(s("path").into());
                    braid_json(&BraidAddr::from(ua.path().unwrap().to_owned()))
                }
                "from_unixaddr" => braid_json(&BraidAddr::from(hyperdriver::info::UnixAddr::from_pathbuf(s("path").into()))),
                "unnamed" => braid_json(&BraidAddr::from(hyperdriver::info::UnixAddr::unnamed())),
                "from_duplex" => braid_json(&BraidAddr::from(hyperdriver::info::DuplexAddr::new())),
                "info_map" => {
                    let info = ConnectionInfo { local_addr: s("local").parse::<std::net::SocketAddr>().unwrap(), remote_addr: s("remote").parse::<std::net::SocketAddr>().unwrap() };
                    let m = info.map(BraidAddr::from);
                    json!({"local": braid_json(m.local_addr()), "remote": braid_json(m.remote_addr())})
                }
                "protocol_parse" => {
                    let p = hyperdriver::info::Protocol::from_str(&s("s")).unwrap();
                    let again = hyperdriver::info::Protocol::from_str(&p.to_string()).unwrap();
                    json!({"display": p.to_string(), "label": alpn_label(&Some(p.clone())), "roundtrip": again == p})
                }
                "direct_calls" => direct_calls(v["clone_per_call"].as_bool().unwrap_or(false)),
                _ => json!({"unknown": true}),
            }
        });
        let rec = match res {
            Ok(o) => json!({"e": "Vec", "v": v, "o": o, "panic": false}),
            Err(_) => json!({"e": "Vec", "v": v, "o": Value::Null, "panic": true}),
        };
        tr.emit(&rec);
        n += 1;
    }
    tr.finish();
    n
}

fn main() {
    let args: Vec<String> = std::env::args().collect();
    let mode = args.get(1).cloned().unwrap_or_default();
    let out = arg(&args, "--out").expect("--out <trace.ndjson>");
    let _ = rustls::crypto::ring::default_provider().install_default();
    if mode == "vectors" {
        std::panic::set_hook(Box::new(|_| {}));
        let n = run_vectors(&arg(&args, "--in").expect("--in"), &out);
        println!("{}", json!({"vectors": n}));
        return;
    }
    let scratch = arg(&args, "--scratch").unwrap_or_else(|| "/verif/out".into());
    let tls = arg(&args, "--certdir").map(|d| server_tls(&d));
    std::panic::set_hook(Box::new(|info| {
        let msg = if let Some(s) = info.payload().downcast_ref::<&str>() { (*s).to_string() } else if let Some(s) = info.payload().downcast_ref::<String>() { s.clone() } else { "<panic>".into() };
        let loc = info.location().map(|l| format!("{}:{}", l.file(), l.line())).unwrap_or_default();
        if let Ok(mut g) = PANICS.lock() {
            g.push(format!("{msg} @ {loc}"));
        }
    }));
    let mut jobs: Vec<(Cfg, Option<(u64, usize)>)> = vec![];
    match mode.as_str() {
        "replay" => {
            let text = std::fs::read_to_string(arg(&args, "--in").expect("--in")).expect("read --in");
            for line in text.lines().filter(|l| !l.trim().is_empty()) {
                let cfg: Cfg = serde_json::from_str(line).unwrap_or_else(|e| panic!("bad schedule {line}: {e}"));
                jobs.push((cfg, None));
            }
        }
        "walk" => {
            let seed: u64 = arg(&args, "--seed").and_then(|s| s.parse().ok()).unwrap_or(1);
            let runs: usize = arg(&args, "--runs").and_then(|s| s.parse().ok()).unwrap_or(20);
            let len: usize = arg(&args, "--steps").and_then(|s| s.parse().ok()).unwrap_or(40);
            let maxconn: usize = arg(&args, "--maxconn").and_then(|s| s.parse().ok()).unwrap_or(6);
            let accs: Vec<String> = arg(&args, "--acc").unwrap_or_else(|| "id".into()).split(',').map(|s| s.to_string()).collect();
            let mut rng = StdRng::seed_from_u64(seed);
            for n in 0..runs {
                let acc = accs[n % accs.len()].clone();
                let cfg = walk_cfg(&mut rng, &acc, n, seed, maxconn);
                let s: u64 = rng.gen();
                jobs.push((cfg, Some((s, len))));
            }
        }
        m => panic!("unknown mode {m}"),
    }
    // the schedules run on a worker thread; this thread supervises with REAL time
    let limits: Vec<Duration> = jobs.iter().map(|(c, _)| if c.acc == "id" || c.acc == "duplex" { Duration::from_secs(60) } else { Duration::from_secs(240) }).collect();
    let (tx, rx) = std::sync::mpsc::channel::<Option<Vec<Value>>>();
    std::thread::spawn(move || {
        for (n, (cfg, walk)) in jobs.into_iter().enumerate() {
            let recs = run_one(cfg, tls.as_ref(), &scratch, n + 1, walk);
            if tx.send(Some(recs)).is_err() {
                return;
            }
        }
        let _ = tx.send(None);
    });
    let mut tr = TraceOut::create(&out);
    let mut nrun = 0usize;
    let mut wedged = false;
    loop {
        let lim = limits.get(nrun).copied().unwrap_or(Duration::from_secs(60));
        match rx.recv_timeout(lim) {
            Ok(Some(recs)) => {
                for r in recs {
                    tr.emit(&r);
                }
                nrun += 1;
            }
            Ok(None) => break,
            Err(std::sync::mpsc::RecvTimeoutError::Disconnected) => break,
            Err(std::sync::mpsc::RecvTimeoutError::Timeout) => {
                tr.emit(&json!({"e": "Reset", "run": nrun + 1, "id": "wedged", "wedged": true}));
                wedged = true;
                break;
            }
        }
    }
    let lines = tr.lines;
    tr.finish();
    let panics = PANICS.lock().map(|g| g.clone()).unwrap_or_default();
    println!("{}", json!({"runs": nrun, "records": lines, "wedged": wedged, "panics": panics.len(), "panic_samples": panics.iter().take(5).collect::<Vec<_>>()}));
    std::process::exit(0);
}
