//! C07 / C09 driver: runs schedules (TLC-generated, or a seeded random walk over the really enabled
//! actions) against the REAL `hyperdriver::Server` and records one ndjson observation per settled step.
//!
//! Observation points (no hooks in /repo needed, everything is a public trait boundary):
//!   * `LogAccept<A>`   wraps the crate's `Acceptor` (public `Accept` trait): accept results in event order
//!   * `MakeSvc`        the make-service: called once per accepted stream (optionally gated / failing)
//!   * `CountProto<P>`  wraps the crate's protocol (public `Protocol` / `Connection` traits): counts
//!                      `graceful_shutdown` calls per connection and the end of each connection future
//!   * `CountExec`      the executor given to `with_executor`: spawned / finished driver tasks
//!   * `Sig`            the shutdown signal future: records the instant it returned Ready to the server
//!   * gated handler + gated response body; raw scripted HTTP/1 client, hyper's HTTP/2 client
//!
//! The harness never decides a verdict: it records. `spec/ServerObs.tla` evaluates the formulas.
use std::collections::{BTreeMap, HashMap, VecDeque};
use std::future::Future;
use std::io;
use std::pin::Pin;
use std::sync::{Arc, Mutex};
use std::task::{Context, Poll, Waker};
use std::time::Duration;

use bytes::Bytes;
use http_body_util::BodyExt;
use hyper::rt::Executor;
use hyperdriver::bridge::io::TokioIo;
use hyperdriver::bridge::rt::TokioExecutor;
use hyperdriver::server::conn::{Accept, Acceptor, Connection as HdConnection};
use hyperdriver::server::{Protocol, Server};
use hyperdriver::Body;
use rand::rngs::StdRng;
use rand::{Rng, SeedableRng};
use serde::{Deserialize, Serialize};
use serde_json::{json, Value};
use tokio::io::{AsyncRead, AsyncReadExt, AsyncWrite, AsyncWriteExt};
use tokio::sync::mpsc;
use vh::trace::TraceOut;

type BoxError = Box<dyn std::error::Error + Send + Sync + 'static>;
trait Io: AsyncRead + AsyncWrite + Send + Unpin + 'static {}
impl<T: AsyncRead + AsyncWrite + Send + Unpin + 'static> Io for T {}
type BoxIo = Box<dyn Io>;
type ConnFut = Pin<Box<dyn Future<Output = io::Result<BoxIo>> + Send>>;

const PARTS: [&str; 4] = ["H1", "H2", "B1", "B2"];

// ------------------------------------------------------------------------------------------------
// shared recording state
#[derive(Default)]
struct Gate {
    handler: Option<bool>,
    chunks: usize,
    wakers: Vec<Waker>,
}

#[derive(Default, Clone)]
struct HState {
    aidx: usize,
    start_seq: u64,
    body_done: bool,
    body_err: bool,
    ret: String,
    dropped: bool,
}

#[derive(Default, Clone)]
struct SConn {
    spawn_seq: u64,
    told: u32,
    fin: String,
    fin_seq: u64,
}

#[derive(Default)]
struct Shared {
    seq: u64,
    events: Vec<String>,
    accept_ok: Vec<u64>,
    accept_err: u32,
    sig_fired: bool,
    sig_fire_seq: u64,
    sig_seq: u64,
    sig_waker: Option<Waker>,
    sig_on_make: usize,
    srv_at_signal: String,
    make_gated: bool,
    makes: usize,
    make_dec: HashMap<usize, bool>,
    make_wakers: HashMap<usize, Waker>,
    make_done: HashMap<usize, bool>,
    gates: HashMap<String, Gate>,
    handlers: BTreeMap<String, HState>,
    sconn: BTreeMap<usize, SConn>,
    spawned: u32,
    finished: u32,
}

type Sh = Arc<Mutex<Shared>>;

fn ev(sh: &mut Shared, s: String) -> u64 {
    sh.seq += 1;
    sh.events.push(s);
    sh.seq
}

// ------------------------------------------------------------------------------------------------
// signal future
struct Sig {
    sh: Sh,
    done: bool,
}
impl Future for Sig {
    type Output = ();
    fn poll(mut self: Pin<&mut Self>, cx: &mut Context<'_>) -> Poll<()> {
        let sh = self.sh.clone();
        let mut g = sh.lock().unwrap();
        if g.sig_fired {
            if !self.done {
                self.done = true;
                let s = ev(&mut g, "sig".into());
                g.sig_seq = s;
            }
            Poll::Ready(())
        } else {
            g.sig_waker = Some(cx.waker().clone());
            Poll::Pending
        }
    }
}

// ------------------------------------------------------------------------------------------------
// acceptor wrapper
#[pin_project::pin_project]
struct LogAccept<A> {
    #[pin]
    inner: A,
    sh: Sh,
}
impl<A: Accept> Accept for LogAccept<A> {
    type Conn = A::Conn;
    type Error = A::Error;
    fn poll_accept(self: Pin<&mut Self>, cx: &mut Context<'_>) -> Poll<Result<Self::Conn, Self::Error>> {
        let this = self.project();
        match this.inner.poll_accept(cx) {
            Poll::Ready(Ok(c)) => {
                let mut g = this.sh.lock().unwrap();
                let s = ev(&mut g, "accept".into());
                g.accept_ok.push(s);
                Poll::Ready(Ok(c))
            }
            Poll::Ready(Err(e)) => {
                let mut g = this.sh.lock().unwrap();
                ev(&mut g, "accepterr".into());
                g.accept_err += 1;
                Poll::Ready(Err(e))
            }
            Poll::Pending => Poll::Pending,
        }
    }
}

// ------------------------------------------------------------------------------------------------
// make service + handler
#[derive(Clone)]
struct MakeSvc {
    sh: Sh,
}
struct MakeFut {
    sh: Sh,
    aidx: usize,
}
impl Future for MakeFut {
    type Output = Result<HSvc, BoxError>;
    fn poll(self: Pin<&mut Self>, cx: &mut Context<'_>) -> Poll<Self::Output> {
        let mut g = self.sh.lock().unwrap();
        let dec = if g.make_gated { g.make_dec.get(&self.aidx).copied() } else { Some(true) };
        match dec {
            None => {
                g.make_wakers.insert(self.aidx, cx.waker().clone());
                Poll::Pending
            }
            Some(ok) => {
                g.make_done.insert(self.aidx, ok);
                ev(&mut g, format!("makedone:{}:{}", self.aidx, ok));
                if ok {
                    Poll::Ready(Ok(HSvc { sh: self.sh.clone(), aidx: self.aidx }))
                } else {
                    Poll::Ready(Err("make-service failure (injected)".into()))
                }
            }
        }
    }
}
impl<'a, T> tower::Service<&'a T> for MakeSvc {
    type Response = HSvc;
    type Error = BoxError;
    type Future = MakeFut;
    fn poll_ready(&mut self, _: &mut Context<'_>) -> Poll<Result<(), BoxError>> {
        Poll::Ready(Ok(()))
    }
    fn call(&mut self, _t: &'a T) -> MakeFut {
        let mut g = self.sh.lock().unwrap();
        g.makes += 1;
        let aidx = g.makes;
        ev(&mut g, format!("make:{aidx}"));
        if g.sig_on_make != 0 && g.sig_on_make == aidx && !g.sig_fired {
            // the shutdown signal becomes ready INSIDE the accept loop's poll (between two accepts of a burst)
            g.sig_fired = true;
            g.srv_at_signal = "running".into();
            let s = ev(&mut g, "sigfire".into());
            g.sig_fire_seq = s;
            if let Some(w) = g.sig_waker.take() {
                w.wake();
            }
        }
        MakeFut { sh: self.sh.clone(), aidx }
    }
}

#[derive(Clone)]
struct HSvc {
    sh: Sh,
    aidx: usize,
}

fn key_of_path(p: &str) -> String {
    p.trim_start_matches('/').replace('/', "")
}

struct HGuard {
    sh: Sh,
    key: String,
    armed: bool,
}
impl Drop for HGuard {
    fn drop(&mut self) {
        if self.armed {
            let mut g = self.sh.lock().unwrap();
            if let Some(h) = g.handlers.get_mut(&self.key) {
                h.dropped = true;
            }
            let k = self.key.clone();
            ev(&mut g, format!("hdrop:{k}"));
        }
    }
}

impl tower::Service<http::Request<Body>> for HSvc {
    type Response = http::Response<GBody>;
    type Error = BoxError;
    type Future = Pin<Box<dyn Future<Output = Result<Self::Response, BoxError>> + Send>>;
    fn poll_ready(&mut self, _: &mut Context<'_>) -> Poll<Result<(), BoxError>> {
        Poll::Ready(Ok(()))
    }
    fn call(&mut self, req: http::Request<Body>) -> Self::Future {
        let sh = self.sh.clone();
        let aidx = self.aidx;
        let key = key_of_path(req.uri().path());
        {
            let mut g = sh.lock().unwrap();
            let s = ev(&mut g, format!("hstart:{key}"));
            g.handlers.insert(key.clone(), HState { aidx, start_seq: s, ..Default::default() });
        }
        Box::pin(async move {
            let mut guard = HGuard { sh: sh.clone(), key: key.clone(), armed: true };
            let body = req.into_body();
            match body.collect().await {
                Ok(_) => {
                    let mut g = sh.lock().unwrap();
                    g.handlers.get_mut(&key).unwrap().body_done = true;
                    ev(&mut g, format!("hbody:{key}"));
                }
                Err(e) => {
                    let mut g = sh.lock().unwrap();
                    let h = g.handlers.get_mut(&key).unwrap();
                    h.body_err = true;
                    h.ret = "bodyerr".into();
                    ev(&mut g, format!("hbodyerr:{key}"));
                    guard.armed = false;
                    return Err(e.into());
                }
            }
            let (sh2, key2) = (sh.clone(), key.clone());
            let ok = std::future::poll_fn(move |cx| {
                let mut g = sh2.lock().unwrap();
                let gate = g.gates.entry(key2.clone()).or_default();
                match gate.handler {
                    Some(b) => Poll::Ready(b),
                    None => {
                        gate.wakers.push(cx.waker().clone());
                        Poll::Pending
                    }
                }
            })
            .await;
            guard.armed = false;
            {
                let mut g = sh.lock().unwrap();
                g.handlers.get_mut(&key).unwrap().ret = if ok { "ok".into() } else { "err".into() };
                ev(&mut g, format!("hret:{key}:{ok}"));
            }
            if !ok {
                return Err("handler error (injected)".into());
            }
            Ok(http::Response::builder()
                .status(200)
                .header("content-length", "10")
                .header("x-key", key.clone())
                .body(GBody { sh, key, emitted: 0 })
                .unwrap())
        })
    }
}

/// Response body: two 5-byte chunks, each released by the schedule.
struct GBody {
    sh: Sh,
    key: String,
    emitted: usize,
}
impl http_body::Body for GBody {
    type Data = Bytes;
    type Error = BoxError;
    fn poll_frame(mut self: Pin<&mut Self>, cx: &mut Context<'_>) -> Poll<Option<Result<http_body::Frame<Bytes>, BoxError>>> {
        if self.emitted >= 2 {
            return Poll::Ready(None);
        }
        let sh = self.sh.clone();
        let mut g = sh.lock().unwrap();
        let key = self.key.clone();
        let gate = g.gates.entry(key).or_default();
        if self.emitted < gate.chunks {
            self.emitted += 1;
            let data = if self.emitted == 1 { "HELLO" } else { "WORLD" };
            Poll::Ready(Some(Ok(http_body::Frame::data(Bytes::from_static(data.as_bytes())))))
        } else {
            gate.wakers.push(cx.waker().clone());
            Poll::Pending
        }
    }
    fn is_end_stream(&self) -> bool {
        self.emitted >= 2
    }
    fn size_hint(&self) -> http_body::SizeHint {
        http_body::SizeHint::with_exact(10 - 5 * self.emitted as u64)
    }
}

// ------------------------------------------------------------------------------------------------
// protocol wrapper: counts graceful_shutdown calls and connection ends
#[derive(Clone)]
struct CountProto<P> {
    inner: P,
    sh: Sh,
}
#[pin_project::pin_project]
struct Counted<C> {
    #[pin]
    inner: C,
    aidx: usize,
    sh: Sh,
    done: bool,
}
impl<P, IO> Protocol<HSvc, IO, Body> for CountProto<P>
where
    P: Protocol<HSvc, IO, Body>,
{
    type ResponseBody = P::ResponseBody;
    type Error = P::Error;
    type Connection = Counted<P::Connection>;
    fn serve_connection_with_upgrades(&self, stream: IO, service: HSvc) -> Self::Connection {
        let aidx = service.aidx;
        {
            let mut g = self.sh.lock().unwrap();
            let s = ev(&mut g, format!("serve:{aidx}"));
            g.sconn.insert(aidx, SConn { spawn_seq: s, ..Default::default() });
        }
        Counted { inner: self.inner.serve_connection_with_upgrades(stream, service), aidx, sh: self.sh.clone(), done: false }
    }
}
impl<C: HdConnection> HdConnection for Counted<C> {
    fn graceful_shutdown(self: Pin<&mut Self>) {
        let this = self.project();
        {
            let mut g = this.sh.lock().unwrap();
            let a = *this.aidx;
            ev(&mut g, format!("told:{a}"));
            g.sconn.get_mut(&a).unwrap().told += 1;
        }
        this.inner.graceful_shutdown()
    }
}
impl<C, E> Future for Counted<C>
where
    C: Future<Output = Result<(), E>>,
{
    type Output = Result<(), E>;
    fn poll(self: Pin<&mut Self>, cx: &mut Context<'_>) -> Poll<Self::Output> {
        let this = self.project();
        match this.inner.poll(cx) {
            Poll::Ready(r) => {
                if !*this.done {
                    *this.done = true;
                    let mut g = this.sh.lock().unwrap();
                    let a = *this.aidx;
                    let res = if r.is_ok() { "ok" } else { "err" };
                    let s = ev(&mut g, format!("connfin:{a}:{res}"));
                    let c = g.sconn.get_mut(&a).unwrap();
                    c.fin = res.into();
                    c.fin_seq = s;
                }
                Poll::Ready(r)
            }
            Poll::Pending => Poll::Pending,
        }
    }
}

// ------------------------------------------------------------------------------------------------
// executor wrapper
#[derive(Clone)]
struct CountExec {
    sh: Sh,
}
struct FinGuard(Sh);
impl Drop for FinGuard {
    fn drop(&mut self) {
        let mut g = self.0.lock().unwrap();
        g.finished += 1;
        ev(&mut g, "fin".into());
    }
}
impl<F> Executor<F> for CountExec
where
    F: Future<Output = ()> + Send + 'static,
{
    fn execute(&self, fut: F) {
        {
            let mut g = self.sh.lock().unwrap();
            g.spawned += 1;
            ev(&mut g, "spawn".into());
        }
        let guard = FinGuard(self.sh.clone());
        tokio::spawn(async move {
            let _g = guard;
            fut.await;
        });
    }
}

// ------------------------------------------------------------------------------------------------
// schedule / config
#[derive(Clone, Debug, Default, Serialize, Deserialize)]
struct Step {
    a: String,
    #[serde(default, skip_serializing_if = "is_zero")]
    c: usize,
    #[serde(default, skip_serializing_if = "is_zero")]
    k: usize,
    #[serde(default, skip_serializing_if = "String::is_empty")]
    p: String,
    #[serde(default, skip_serializing_if = "Option::is_none")]
    ok: Option<bool>,
    #[serde(default, skip_serializing_if = "String::is_empty")]
    mode: String,
    #[serde(default, skip_serializing_if = "is_false")]
    ns: bool,
}
fn is_zero(x: &usize) -> bool {
    *x == 0
}
fn is_false(x: &bool) -> bool {
    !*x
}

#[derive(Clone, Debug, Serialize, Deserialize)]
struct Cfg {
    id: String,
    proto: String, // h1 | h2 | auto
    #[serde(default)]
    tls: bool,
    #[serde(default = "dflt_acc")]
    acc: String, // duplex | tcp | unix
    #[serde(default)]
    make_gated: bool,
    #[serde(default)]
    sig_on_make: usize,
    #[serde(default = "dflt_nconn")]
    nconn: usize,
    #[serde(default = "dflt_nreq")]
    nreq: usize,
    #[serde(default)]
    steps: Vec<Step>,
    #[serde(default)]
    src: String,
    #[serde(default, skip_serializing_if = "Value::is_null")]
    exp: Value,
}
fn dflt_acc() -> String {
    "duplex".into()
}
fn dflt_nconn() -> usize {
    3
}
fn dflt_nreq() -> usize {
    2
}

// ------------------------------------------------------------------------------------------------
// clients
enum Cmd {
    Write(Vec<u8>),
    Shutdown,
    H2Req(usize, mpsc::UnboundedReceiver<Bytes>),
}

#[derive(Default, Clone)]
struct RespSt {
    status: u16,
    head: bool,
    body: usize,
    len: usize,
    complete: bool,
    err: bool,
}

#[derive(Default)]
struct CState {
    rx: Vec<u8>,
    eof: bool,
    rerr: bool,
    werr: bool,
    tls: String,
    h2ready: bool,
    h2resps: BTreeMap<usize, RespSt>,
    aborts: Vec<tokio::task::AbortHandle>,
}

struct ChanBody(mpsc::UnboundedReceiver<Bytes>);
impl http_body::Body for ChanBody {
    type Data = Bytes;
    type Error = BoxError;
    fn poll_frame(mut self: Pin<&mut Self>, cx: &mut Context<'_>) -> Poll<Option<Result<http_body::Frame<Bytes>, BoxError>>> {
        match self.0.poll_recv(cx) {
            Poll::Ready(Some(b)) => Poll::Ready(Some(Ok(http_body::Frame::data(b)))),
            Poll::Ready(None) => Poll::Ready(None),
            Poll::Pending => Poll::Pending,
        }
    }
}

struct Cli {
    mode: String, // raw | tls | h2 | tlsh2
    state: String, // none | pending | open | cancelled | refused | dropped
    fut: Option<ConnFut>,
    cmd: Option<mpsc::UnboundedSender<Cmd>>,
    st: Arc<Mutex<CState>>,
    task: Option<tokio::task::JoinHandle<()>>,
    coop: bool,
    faulted: bool,
    half: bool,
    junk: bool,
    plain: bool,    // plain bytes (or silence) towards a TLS listener
    prefixed: bool, // sent a strict prefix of the HTTP/2 preface and nothing else
    sent: Vec<usize>,
    aidx: usize,
    h2body: HashMap<usize, mpsc::UnboundedSender<Bytes>>,
    name: String,
}
impl Cli {
    fn new(name: String) -> Self {
        Cli {
            mode: String::new(),
            state: "none".into(),
            fut: None,
            cmd: None,
            st: Default::default(),
            task: None,
            coop: true,
            faulted: false,
            half: false,
            junk: false,
            plain: false,
            prefixed: false,
            sent: vec![],
            aidx: 0,
            h2body: HashMap::new(),
            name,
        }
    }
    fn is_h2(&self) -> bool {
        self.mode == "h2" || self.mode == "tlsh2"
    }
    fn drop_conn(&mut self) {
        self.fut = None;
        self.cmd = None;
        self.h2body.clear();
        if let Some(t) = self.task.take() {
            t.abort();
        }
        for a in self.st.lock().unwrap().aborts.drain(..) {
            a.abort();
        }
    }
}

fn part_bytes(name: &str, k: usize, p: &str) -> Vec<u8> {
    match p {
        "H1" => format!("POST /{name}/r{k} HTTP/1.1\r\nhost: x\r\ncontent-le").into_bytes(),
        "H2" => b"ngth: 10\r\n\r\n".to_vec(),
        "B1" => b"hello".to_vec(),
        "B2" => b"world".to_vec(),
        _ => vec![],
    }
}

/// Parse the byte stream a raw client has received into consecutive HTTP/1 responses.
fn parse_resps(rx: &[u8]) -> Vec<RespSt> {
    let mut out = vec![];
    let mut pos = 0;
    while pos < rx.len() {
        let rest = &rx[pos..];
        let mut r = RespSt::default();
        if rest.len() >= 12 && rest.starts_with(b"HTTP/1.") {
            r.status = std::str::from_utf8(&rest[9..12]).ok().and_then(|s| s.parse().ok()).unwrap_or(0);
        } else if !rest.starts_with(b"HTTP/1.") && rest.len() >= 7 {
            r.err = true; // not an HTTP/1 response (e.g. h2 frames)
            out.push(r);
            break;
        }
        match rest.windows(4).position(|w| w == b"\r\n\r\n") {
            None => {
                out.push(r);
                break;
            }
            Some(i) => {
                r.head = true;
                let head = String::from_utf8_lossy(&rest[..i]).to_ascii_lowercase();
                let mut len = 0usize;
                for line in head.split("\r\n") {
                    if let Some(v) = line.strip_prefix("content-length:") {
                        len = v.trim().parse().unwrap_or(0);
                    }
                }
                r.len = len;
                let avail = rest.len() - (i + 4);
                r.body = avail.min(len);
                r.complete = avail >= len;
                out.push(r.clone());
                if !r.complete {
                    break;
                }
                pos += i + 4 + len;
            }
        }
    }
    out
}

async fn client_task(io: BoxIo, tls: Option<tokio_rustls::TlsConnector>, h2: bool, mut rx: mpsc::UnboundedReceiver<Cmd>, st: Arc<Mutex<CState>>, name: String) {
    let mut io: BoxIo = match tls {
        Some(conn) => {
            let sn = rustls::pki_types::ServerName::try_from("example.com").unwrap();
            match conn.connect(sn, io).await {
                Ok(s) => {
                    st.lock().unwrap().tls = "ok".into();
                    Box::new(s)
                }
                Err(_) => {
                    let mut g = st.lock().unwrap();
                    g.tls = "err".into();
                    g.eof = true;
                    return;
                }
            }
        }
        None => io,
    };
    if h2 {
        let (mut sender, conn) = match hyper::client::conn::http2::handshake::<_, _, ChanBody>(TokioExecutor::new(), TokioIo::new(io)).await {
            Ok(x) => x,
            Err(_) => {
                let mut g = st.lock().unwrap();
                g.eof = true;
                g.rerr = true;
                return;
            }
        };
        st.lock().unwrap().h2ready = true;
        let st2 = st.clone();
        let h = tokio::spawn(async move {
            let r = conn.await;
            let mut g = st2.lock().unwrap();
            g.eof = true;
            g.rerr = r.is_err();
        });
        st.lock().unwrap().aborts.push(h.abort_handle());
        while let Some(cmd) = rx.recv().await {
            if let Cmd::H2Req(k, brx) = cmd {
                let req = http::Request::builder().method("POST").uri(format!("http://x/{name}/r{k}")).body(ChanBody(brx)).unwrap();
                st.lock().unwrap().h2resps.insert(k, RespSt::default());
                let fut = sender.send_request(req);
                let st3 = st.clone();
                let h = tokio::spawn(async move {
                    match fut.await {
                        Ok(resp) => {
                            {
                                let mut g = st3.lock().unwrap();
                                let r = g.h2resps.get_mut(&k).unwrap();
                                r.status = resp.status().as_u16();
                                r.head = true;
                                r.len = 10;
                            }
                            let mut body = resp.into_body();
                            loop {
                                match body.frame().await {
                                    Some(Ok(f)) => {
                                        if let Some(d) = f.data_ref() {
                                            st3.lock().unwrap().h2resps.get_mut(&k).unwrap().body += d.len();
                                        }
                                    }
                                    Some(Err(_)) => {
                                        st3.lock().unwrap().h2resps.get_mut(&k).unwrap().err = true;
                                        break;
                                    }
                                    None => {
                                        let mut g = st3.lock().unwrap();
                                        let r = g.h2resps.get_mut(&k).unwrap();
                                        r.complete = r.body >= r.len;
                                        break;
                                    }
                                }
                            }
                        }
                        Err(_) => {
                            st3.lock().unwrap().h2resps.get_mut(&k).unwrap().err = true;
                        }
                    }
                });
                st.lock().unwrap().aborts.push(h.abort_handle());
            }
        }
        return;
    }
    let mut buf = vec![0u8; 16384];
    let mut eof = false;
    loop {
        tokio::select! {
            biased;
            cmd = rx.recv() => match cmd {
                Some(Cmd::Write(b)) => {
                    let r = async { io.write_all(&b).await?; io.flush().await }.await;
                    if r.is_err() { st.lock().unwrap().werr = true; }
                }
                Some(Cmd::Shutdown) => { let _ = io.shutdown().await; }
                Some(Cmd::H2Req(..)) => {}
                None => break,
            },
            r = io.read(&mut buf), if !eof => match r {
                Ok(0) => { eof = true; st.lock().unwrap().eof = true; }
                Ok(n) => { st.lock().unwrap().rx.extend_from_slice(&buf[..n]); }
                Err(_) => { eof = true; let mut g = st.lock().unwrap(); g.eof = true; g.rerr = true; }
            },
        }
    }
}

// ------------------------------------------------------------------------------------------------
enum Dial {
    Duplex(Option<hyperdriver::stream::duplex::DuplexClient>),
    Tcp(std::net::SocketAddr),
    Unix(std::path::PathBuf),
}

struct Runner {
    cfg: Cfg,
    sh: Sh,
    dial: Dial,
    paused: bool,
    srv: Option<tokio::task::JoinHandle<Result<(), String>>>,
    srv_state: String,
    stalled: bool,
    resets: usize,
    odd_peers: usize,
    odd_paths: Vec<std::path::PathBuf>,
    clis: Vec<Cli>, // index 0 unused
    probes: Vec<Cli>,
    pending_q: VecDeque<(bool, usize)>, // (is_probe, index)
    mapped: usize,
    listener_lost: bool,
    make_failed: bool,
    cancelled: usize,
    tls_client: Option<tokio_rustls::TlsConnector>,
    ev_cursor: usize,
    batch: Vec<Step>,
    done_steps: Vec<Step>,
    recs: Vec<Value>,
    last_probe: Value,
}

// ------------------------------------------------------------------------------------------------
// progress of the schedule being run, shared with the supervising (main) thread
#[derive(Default)]
struct Progress {
    cfg: Option<Cfg>,
    steps: Vec<Step>,
    pending: Vec<String>,
    last: Option<Value>,
    recs: Vec<Value>,
}
static PROGRESS: Mutex<Progress> = Mutex::new(Progress { cfg: None, steps: Vec::new(), pending: Vec::new(), last: None, recs: Vec::new() });

// ------------------------------------------------------------------------------------------------
// real-time watchdog for the paused-clock settle
struct Watch {
    deadline: Option<std::time::Instant>,
    waker: Option<Waker>,
    fired: bool,
}
static WATCH: Mutex<Watch> = Mutex::new(Watch { deadline: None, waker: None, fired: false });
static WATCH_LIMIT_MS: std::sync::atomic::AtomicU64 = std::sync::atomic::AtomicU64::new(8000);
static STALLS: std::sync::atomic::AtomicUsize = std::sync::atomic::AtomicUsize::new(0);

fn watchdog_thread() {
    std::thread::spawn(|| loop {
        std::thread::sleep(Duration::from_millis(25));
        let mut g = WATCH.lock().unwrap();
        if let Some(d) = g.deadline {
            if std::time::Instant::now() > d && !g.fired {
                g.fired = true;
                if let Some(w) = g.waker.take() {
                    w.wake();
                }
            }
        }
    });
}

/// `tokio::time::sleep` on the paused clock, which returns only once every other task is idle; returns
/// true if that did not happen within the real-time limit (some task never goes idle).
async fn guarded_sleep(d: Duration) -> bool {
    use std::sync::atomic::Ordering;
    {
        let mut g = WATCH.lock().unwrap();
        g.fired = false;
        g.waker = None;
        g.deadline = Some(std::time::Instant::now() + Duration::from_millis(WATCH_LIMIT_MS.load(Ordering::SeqCst)));
    }
    let sleep = tokio::time::sleep(d);
    tokio::pin!(sleep);
    let stalled = std::future::poll_fn(|cx| {
        if sleep.as_mut().poll(cx).is_ready() {
            return Poll::Ready(false);
        }
        let mut g = WATCH.lock().unwrap();
        if g.fired {
            return Poll::Ready(true);
        }
        g.waker = Some(cx.waker().clone());
        Poll::Pending
    })
    .await;
    {
        let mut g = WATCH.lock().unwrap();
        g.deadline = None;
        g.waker = None;
    }
    if stalled {
        STALLS.fetch_add(1, Ordering::SeqCst);
        WATCH_LIMIT_MS.store(1500, Ordering::SeqCst); // the first stall is given a long time, later ones less
    }
    stalled
}

fn noop_cx_poll<F: Future + ?Sized>(f: Pin<&mut F>) -> Poll<F::Output> {
    let w = futures_util::task::noop_waker();
    let mut cx = Context::from_waker(&w);
    f.poll(&mut cx)
}

struct TlsMat {
    server: Arc<rustls::ServerConfig>,
    client: tokio_rustls::TlsConnector,
}

fn load_tls(dir: &str) -> TlsMat {
    let _ = rustls::crypto::ring::default_provider().install_default();
    let rd = |n: &str| std::fs::read(format!("{dir}/{n}")).unwrap_or_else(|e| panic!("read {dir}/{n}: {e}"));
    let (_, cert) = pem_rfc7468::decode_vec(&rd("cert.pem")).unwrap();
    let keypem = rd("key.pem");
    let (label, key) = pem_rfc7468::decode_vec(&keypem).unwrap();
    let (_, ca) = pem_rfc7468::decode_vec(&rd("ca.pem")).unwrap();
    let key = match label {
        "PRIVATE KEY" => rustls::pki_types::PrivateKeyDer::Pkcs8(key.into()),
        "RSA PRIVATE KEY" => rustls::pki_types::PrivateKeyDer::Pkcs1(key.into()),
        "EC PRIVATE KEY" => rustls::pki_types::PrivateKeyDer::Sec1(key.into()),
        l => panic!("unknown key type {l}"),
    };
    let server = rustls::ServerConfig::builder()
        .with_no_client_auth()
        .with_single_cert(vec![rustls::pki_types::CertificateDer::from(cert)], key)
        .unwrap();
    let mut roots = rustls::RootCertStore::empty();
    roots.add(rustls::pki_types::CertificateDer::from(ca)).unwrap();
    let client = rustls::ClientConfig::builder().with_root_certificates(roots).with_no_client_auth();
    TlsMat { server: Arc::new(server), client: tokio_rustls::TlsConnector::from(Arc::new(client)) }
}

fn spawn_server<P>(acceptor: Acceptor, proto: P, sh: Sh) -> tokio::task::JoinHandle<Result<(), String>>
where
    P: Protocol<HSvc, hyperdriver::server::conn::Stream, Body> + Send + 'static,
    P::Connection: Send,
    P::Error: std::fmt::Debug + Send,
{
    let server = Server::builder::<Body>()
        .with_acceptor(LogAccept { inner: acceptor, sh: sh.clone() })
        .with_make_service(MakeSvc { sh: sh.clone() })
        .with_protocol(CountProto { inner: proto, sh: sh.clone() })
        .with_executor(CountExec { sh: sh.clone() });
    let fut = server.with_graceful_shutdown(Sig { sh, done: false });
    tokio::spawn(async move { fut.await.map_err(|e| format!("{e}")) })
}

impl Runner {
    async fn new(cfg: Cfg, tls: Option<&TlsMat>, paused: bool, scratch: &str) -> Runner {
        let sh: Sh = Default::default();
        sh.lock().unwrap().make_gated = cfg.make_gated;
        sh.lock().unwrap().sig_on_make = cfg.sig_on_make;
        let (dial, acceptor): (Dial, Acceptor) = match cfg.acc.as_str() {
            "duplex" => {
                let (c, inc) = hyperdriver::stream::duplex::pair();
                (Dial::Duplex(Some(c)), Acceptor::from(inc))
            }
            "tcp" => {
                let l = tokio::net::TcpListener::bind("127.0.0.1:0").await.expect("bind tcp");
                let a = l.local_addr().unwrap();
                (Dial::Tcp(a), Acceptor::from(l))
            }
            "unix" => {
                let p = std::path::PathBuf::from(format!("{scratch}/sock-{}-{}", std::process::id(), cfg.id.replace('/', "_")));
                let _ = std::fs::remove_file(&p);
                let l = tokio::net::UnixListener::bind(&p).expect("bind unix");
                (Dial::Unix(p), Acceptor::from(l))
            }
            o => panic!("unknown acceptor {o}"),
        };
        let acceptor = if cfg.tls { acceptor.with_tls(tls.expect("tls material").server.clone()) } else { acceptor };
        let srv = match cfg.proto.as_str() {
            "h1" => spawn_server(acceptor, hyperdriver::server::conn::http1::Builder::new(), sh.clone()),
            "h2" => spawn_server(acceptor, hyperdriver::server::conn::http2::Builder::new(TokioExecutor::new()), sh.clone()),
            "auto" => spawn_server(acceptor, hyperdriver::server::conn::auto::Builder::default(), sh.clone()),
            o => panic!("unknown proto {o}"),
        };
        let mut clis = vec![];
        for i in 0..=cfg.nconn {
            clis.push(Cli::new(format!("c{i}")));
        }
        Runner {
            tls_client: if cfg.tls { Some(tls.unwrap().client.clone()) } else { None },
            cfg,
            sh,
            dial,
            paused,
            srv: Some(srv),
            srv_state: "running".into(),
            stalled: false,
            resets: 0,
            odd_peers: 0,
            odd_paths: vec![],
            clis,
            probes: vec![],
            pending_q: VecDeque::new(),
            mapped: 0,
            listener_lost: false,
            make_failed: false,
            cancelled: 0,
            ev_cursor: 0,
            batch: vec![],
            done_steps: vec![],
            recs: vec![],
            last_probe: Value::Null,
        }
    }

    fn connect_fut(&self) -> Option<ConnFut> {
        match &self.dial {
            Dial::Duplex(Some(c)) => {
                let c = c.clone();
                Some(Box::pin(async move { c.connect(65536).await.map(|s| Box::new(s) as BoxIo) }))
            }
            Dial::Duplex(None) => None,
            Dial::Tcp(a) => {
                let a = *a;
                Some(Box::pin(async move { tokio::net::TcpStream::connect(a).await.map(|s| Box::new(s) as BoxIo) }))
            }
            Dial::Unix(p) => {
                let p = p.clone();
                Some(Box::pin(async move { tokio::net::UnixStream::connect(p).await.map(|s| Box::new(s) as BoxIo) }))
            }
        }
    }

    fn default_mode(&self) -> &'static str {
        match (self.cfg.proto.as_str(), self.cfg.tls) {
            ("h2", false) => "h2",
            ("h2", true) => "tlsh2",
            (_, true) => "tls",
            _ => "raw",
        }
    }

    fn cli(&mut self, probe: bool, i: usize) -> &mut Cli {
        if probe {
            &mut self.probes[i]
        } else {
            &mut self.clis[i]
        }
    }

    /// Start a connect: the request is queued (first poll) but nothing else runs.
    fn start_connect(&mut self, probe: bool, i: usize, mode: &str) {
        self.start_connect_ext(probe, i, mode, false)
    }

    /// unix-peer-nonutf8-path: the client binds its own end to a pathname that is not valid UTF-8 before it
    /// connects (an otherwise perfectly well-behaved client)
    fn odd_connect_fut(&mut self) -> Option<ConnFut> {
        use std::os::unix::ffi::OsStrExt;
        let server = match &self.dial {
            Dial::Unix(p) => p.clone(),
            _ => return None,
        };
        self.odd_peers += 1;
        let mut name = server.parent().map(|d| d.as_os_str().as_bytes().to_vec()).unwrap_or_default();
        name.extend_from_slice(format!("/cl\u{0}-{}-{}", std::process::id(), self.odd_peers).as_bytes());
        if let Some(pos) = name.iter().position(|b| *b == 0) {
            name[pos] = 0xff; // not valid UTF-8
        }
        name.extend_from_slice(b"ient.sock");
        let path = std::path::PathBuf::from(std::ffi::OsStr::from_bytes(&name));
        let _ = std::fs::remove_file(&path);
        self.odd_paths.push(path.clone());
        Some(Box::pin(async move {
            let sock = tokio::net::UnixSocket::new_stream()?;
            sock.bind(&path)?;
            sock.connect(server).await.map(|s| Box::new(s) as BoxIo)
        }))
    }

    fn start_connect_ext(&mut self, probe: bool, i: usize, mode: &str, odd: bool) {
        let fut = if odd { self.odd_connect_fut() } else { self.connect_fut() };
        let c = self.cli(probe, i);
        c.mode = mode.to_string();
        match fut {
            None => c.state = "refused".into(),
            Some(mut f) => match noop_cx_poll(f.as_mut()) {
                Poll::Ready(Ok(io)) => {
                    c.state = "open".into();
                    self.pending_q.push_back((probe, i));
                    self.start_client(probe, i, io);
                }
                Poll::Ready(Err(_)) => c.state = "refused".into(),
                Poll::Pending => {
                    c.state = "pending".into();
                    c.fut = Some(f);
                    self.pending_q.push_back((probe, i));
                }
            },
        }
    }

    fn start_client(&mut self, probe: bool, i: usize, io: BoxIo) {
        let tlsc = self.tls_client.clone();
        let c = self.cli(probe, i);
        let (tx, rx) = mpsc::unbounded_channel();
        let tls = if c.mode == "tls" || c.mode == "tlsh2" { tlsc } else { None };
        let h2 = c.is_h2();
        c.cmd = Some(tx);
        c.task = Some(tokio::spawn(client_task(io, tls, h2, rx, c.st.clone(), c.name.clone())));
    }

    /// Re-poll pending connects; returns true if anything changed.
    fn repoll_connects(&mut self) -> bool {
        let mut changed = false;
        let mut todo = vec![];
        for (probe, n) in [(false, self.clis.len()), (true, self.probes.len())] {
            for i in 0..n {
                let c = self.cli(probe, i);
                if c.state == "pending" {
                    if let Some(f) = c.fut.as_mut() {
                        match noop_cx_poll(f.as_mut()) {
                            Poll::Ready(Ok(io)) => {
                                c.fut = None;
                                c.state = "open".into();
                                todo.push((probe, i, io));
                                changed = true;
                            }
                            Poll::Ready(Err(_)) => {
                                c.fut = None;
                                c.state = "refused".into();
                                changed = true;
                            }
                            Poll::Pending => {}
                        }
                    }
                }
            }
        }
        for (probe, i, io) in todo {
            self.start_client(probe, i, io);
        }
        changed
    }

    fn snapshot_key(&self) -> String {
        let g = self.sh.lock().unwrap();
        let mut s = format!("{}|{}|{}|", g.seq, g.spawned, g.finished);
        drop(g);
        for c in self.clis.iter().chain(self.probes.iter()) {
            let st = c.st.lock().unwrap();
            s.push_str(&format!("{}:{}:{}:{}:{};", c.state, st.rx.len(), st.eof, st.h2ready, st.h2resps.values().map(|r| r.body + r.head as usize + 100 * (r.complete as usize) + 1000 * (r.err as usize)).sum::<usize>()));
        }
        s.push_str(&format!("{}", self.srv.as_ref().map(|h| h.is_finished()).unwrap_or(true)));
        s
    }

    async fn settle(&mut self) {
        if self.stalled {
            return;
        }
        if self.paused {
            for _ in 0..8 {
                // the paused clock only advances when every task is idle: a task that never goes idle would
                // hang the harness, so the sleep is guarded by a REAL-time watchdog and a stall becomes data
                if guarded_sleep(Duration::from_millis(1)).await {
                    self.stalled = true;
                    break;
                }
                if !self.repoll_connects() {
                    break;
                }
            }
        } else {
            // real sockets: wait until nothing observable changes for a while (no timing assertion,
            // only eventual outcomes; the bound is generous)
            let mut last = self.snapshot_key();
            let mut stable = 0;
            let mut rounds = 0;
            while stable < 8 && rounds < 600 {
                tokio::time::sleep(Duration::from_millis(4)).await;
                self.repoll_connects();
                let k = self.snapshot_key();
                if k == last {
                    stable += 1;
                } else {
                    stable = 0;
                    last = k;
                }
                rounds += 1;
            }
        }
        // server future
        if self.srv.as_ref().map(|h| h.is_finished()).unwrap_or(false) {
            let h = self.srv.take().unwrap();
            self.srv_state = match h.await {
                Ok(Ok(())) => "ok".into(),
                Ok(Err(e)) => {
                    if e.contains("make service") {
                        "errmake".into()
                    } else if e.contains("accept") {
                        "erraccept".into()
                    } else {
                        "err".into()
                    }
                }
                Err(_) => "panic".into(),
            };
        }
        // map accepts to clients
        let n_acc = self.sh.lock().unwrap().accept_ok.len();
        while self.mapped < n_acc {
            self.mapped += 1;
            if let Some((probe, i)) = self.pending_q.pop_front() {
                let m = self.mapped;
                self.cli(probe, i).aidx = m;
            }
        }
    }

    fn open_gate(&self, key: &str, handler: Option<bool>, chunks: Option<usize>) {
        let mut g = self.sh.lock().unwrap();
        let gate = g.gates.entry(key.to_string()).or_default();
        if let Some(h) = handler {
            if gate.handler.is_none() {
                gate.handler = Some(h);
            }
        }
        if let Some(n) = chunks {
            gate.chunks = gate.chunks.max(n);
        }
        for w in gate.wakers.drain(..) {
            w.wake();
        }
    }

    fn send_part(&mut self, probe: bool, i: usize, k: usize, p: &str) -> bool {
        let c = self.cli(probe, i);
        if c.state != "open" || c.cmd.is_none() || c.plain || c.prefixed {
            return false;
        }
        while c.sent.len() <= k {
            c.sent.push(0);
        }
        let idx = PARTS.iter().position(|x| *x == p).unwrap_or(9);
        if idx != c.sent[k] {
            return false;
        }
        if c.is_h2() {
            match p {
                "H1" => {}
                "H2" => {
                    let (tx, rx) = mpsc::unbounded_channel();
                    c.h2body.insert(k, tx);
                    let _ = c.cmd.as_ref().unwrap().send(Cmd::H2Req(k, rx));
                }
                "B1" => {
                    if let Some(tx) = c.h2body.get(&k) {
                        let _ = tx.send(Bytes::from_static(b"hello"));
                    }
                }
                _ => {
                    if let Some(tx) = c.h2body.remove(&k) {
                        let _ = tx.send(Bytes::from_static(b"world"));
                    }
                }
            }
        } else {
            let b = part_bytes(&c.name, k, p);
            let _ = c.cmd.as_ref().unwrap().send(Cmd::Write(b));
        }
        c.sent[k] = idx + 1;
        true
    }

    /// Applies one step; returns false if the step was not applicable in the real state.
    async fn apply(&mut self, s: &Step) -> bool {
        let i = s.c;
        match s.a.as_str() {
            "Connect" => {
                if i == 0 || i >= self.clis.len() || self.clis[i].state != "none" {
                    return false;
                }
                let mode = if s.mode.is_empty() { self.default_mode().to_string() } else { s.mode.clone() };
                if self.cfg.tls && (mode == "raw") {
                    // a peer that has not (yet) started its TLS handshake: silent, it is an idle open connection
                    // (must be told and closed at the signal); it only misbehaves once it sends garbage.
                    // (hyper's h2 server keeps a connection whose handshake has not completed: not demanded)
                    self.clis[i].plain = true;
                    if self.cfg.proto == "h2" {
                        self.clis[i].coop = false;
                    }
                }
                let odd = s.p == "odd" && matches!(self.dial, Dial::Unix(_));
                self.start_connect_ext(false, i, &mode, odd);
                true
            }
            "CancelConnect" => {
                if i == 0 || i >= self.clis.len() || self.clis[i].state != "pending" {
                    return false;
                }
                self.clis[i].drop_conn();
                self.clis[i].state = "cancelled".into();
                self.clis[i].coop = false;
                self.cancelled += 1;
                if self.cfg.acc == "duplex" {
                    self.pending_q.retain(|(p, j)| *p || *j != i);
                }
                true
            }
            "Send" => {
                if i == 0 || i >= self.clis.len() {
                    return false;
                }
                self.send_part(false, i, s.k, &s.p)
            }
            "Garbage" => {
                if i == 0 || i >= self.clis.len() || self.clis[i].state != "open" || self.clis[i].is_h2() {
                    return false;
                }
                let c = &mut self.clis[i];
                c.coop = false;
                c.junk = true;
                let _ = c.cmd.as_ref().unwrap().send(Cmd::Write(b"\x16\x03\x00garbage\x00\xff\r\n\r\nnot http at all\r\n\r\n".to_vec()));
                true
            }
            "Prefix" => {
                // FAULT: a strict, non-empty prefix (k bytes, 1..=23) of the HTTP/2 preface, and nothing after it
                if i == 0 || i >= self.clis.len() || self.clis[i].state != "open" || self.clis[i].is_h2() {
                    return false;
                }
                if self.cfg.proto != "auto" {
                    return false; // only the sniffing protocol parks such a connection in hyperdriver's own code
                }
                let c = &mut self.clis[i];
                if c.sent.iter().any(|x| *x > 0) || c.junk || c.half || c.plain || c.prefixed {
                    return false;
                }
                let n = s.k.clamp(1, 23);
                // a slow / stalled HTTP/2 client: it misbehaves only once it goes away
                c.prefixed = true;
                let _ = c.cmd.as_ref().unwrap().send(Cmd::Write(b"PRI * HTTP/2.0\r\n\r\nSM\r\n\r\n"[..n].to_vec()));
                true
            }
            "ResetConnect" => {
                // FAULT (TCP only): the client completes the handshake and resets (SO_LINGER=0, close) while the
                // connection still sits in the listen backlog: nothing is awaited, so the server cannot have run
                match &self.dial {
                    Dial::Tcp(a) => match std::net::TcpStream::connect(a) {
                        Ok(st) => {
                            let _ = st.set_nonblocking(true);
                            if let Ok(t) = tokio::net::TcpStream::from_std(st) {
                                let _ = t.set_linger(Some(Duration::from_secs(0)));
                                drop(t);
                            }
                            self.pending_q.push_back((false, 0));
                            self.resets += 1;
                            true
                        }
                        Err(_) => false,
                    },
                    _ => false,
                }
            }
            "Trunc" => {
                if i == 0 || i >= self.clis.len() || self.clis[i].state != "open" || self.clis[i].is_h2() {
                    return false;
                }
                let c = &mut self.clis[i];
                c.coop = false;
                c.half = true;
                let _ = c.cmd.as_ref().unwrap().send(Cmd::Shutdown);
                true
            }
            "Disconnect" => {
                if i == 0 || i >= self.clis.len() || self.clis[i].state != "open" {
                    return false;
                }
                let c = &mut self.clis[i];
                c.coop = false;
                c.drop_conn();
                c.state = "dropped".into();
                true
            }
            "Gate" => {
                let key = format!("c{}r{}", i, s.k);
                let ok = s.ok.unwrap_or(true);
                let started = self.sh.lock().unwrap().handlers.contains_key(&key);
                let decided = self.sh.lock().unwrap().gates.get(&key).map(|g| g.handler.is_some()).unwrap_or(false);
                if !started || decided {
                    return false;
                }
                if !ok {
                    self.clis[i].faulted = true;
                }
                self.open_gate(&key, Some(ok), None);
                true
            }
            "Chunk" => {
                // enabled once the handler was allowed to answer (its gate is open "ok"): the chunk is
                // released, the body hands it out as soon as the response exists
                let key = format!("c{}r{}", i, s.k);
                let (gate_ok, n) = {
                    let g = self.sh.lock().unwrap();
                    let started = g.handlers.contains_key(&key);
                    (started && g.gates.get(&key).map(|g| g.handler == Some(true)).unwrap_or(false), g.gates.get(&key).map(|g| g.chunks).unwrap_or(0))
                };
                if !gate_ok || n >= 2 {
                    return false;
                }
                self.open_gate(&key, None, Some(n + 1));
                true
            }
            "Signal" => {
                let mut g = self.sh.lock().unwrap();
                if g.sig_fired {
                    return false;
                }
                g.sig_fired = true;
                g.srv_at_signal = self.srv_state.clone();
                let s = ev(&mut g, "sigfire".into());
                g.sig_fire_seq = s;
                if let Some(w) = g.sig_waker.take() {
                    w.wake();
                }
                true
            }
            "ListenerLost" => {
                // the listener itself goes away: every client handle of the duplex pair is dropped
                match &mut self.dial {
                    Dial::Duplex(c) if c.is_some() => {
                        let any_pending = self.clis.iter().chain(self.probes.iter()).any(|c| c.state == "pending");
                        if any_pending {
                            return false;
                        }
                        *c = None;
                        self.listener_lost = true;
                        true
                    }
                    _ => false,
                }
            }
            "MakeOpen" => {
                let ok = s.ok.unwrap_or(true);
                let mut g = self.sh.lock().unwrap();
                let pend: Option<usize> = (1..=g.makes).find(|a| !g.make_dec.contains_key(a));
                match pend {
                    Some(a) if g.make_gated => {
                        g.make_dec.insert(a, ok);
                        if !ok {
                            self.make_failed = true;
                        }
                        if let Some(w) = g.make_wakers.remove(&a) {
                            w.wake();
                        }
                        true
                    }
                    _ => false,
                }
            }
            "Probe" => {
                // not while the harness's own make-service gate holds the accept loop
                let make_pending = {
                    let g = self.sh.lock().unwrap();
                    g.make_gated && (1..=g.makes).any(|a| !g.make_dec.contains_key(&a))
                };
                if make_pending {
                    return false;
                }
                self.probe().await;
                true
            }
            _ => false,
        }
    }

    /// A fresh well-behaved client: connect, one full request, read the complete response, leave.
    async fn probe(&mut self) {
        let n = self.probes.len();
        let mut c = Cli::new(format!("p{}", n + 1));
        c.coop = true;
        self.probes.push(c);
        let key = format!("p{}r1", n + 1);
        self.open_gate(&key, Some(true), Some(2));
        if self.sh.lock().unwrap().make_gated {
            // a probe must not be held up by the harness's own make gate
            let mut g = self.sh.lock().unwrap();
            let next = g.makes + 1;
            g.make_dec.insert(next, true);
        }
        let mode = self.default_mode().to_string();
        self.start_connect(true, n, &mode);
        let mut served = false;
        let mut connected = false;
        for round in 0..12 {
            self.settle().await;
            if self.stalled {
                break;
            }
            let st = self.probes[n].state.clone();
            if st == "refused" {
                break;
            }
            if st == "open" {
                connected = true;
                if self.probes[n].sent.get(1).copied().unwrap_or(0) < 4 {
                    let ready = !self.probes[n].is_h2() || self.probes[n].st.lock().unwrap().h2ready;
                    if ready {
                        for p in PARTS {
                            self.send_part(true, n, 1, p);
                        }
                    }
                }
            }
            let (resps, eof) = self.view_resps(&self.probes[n]);
            if resps.first().map(|r| r.complete && r.status == 200).unwrap_or(false) {
                served = true;
                break;
            }
            if eof && round > 0 {
                break;
            }
        }
        let hstarted = self.sh.lock().unwrap().handlers.contains_key(&key);
        let aidx = self.probes[n].aidx;
        if self.probes[n].state == "pending" {
            self.cancelled += 1; // the probe gives up on a connect that was never accepted
        }
        self.probes[n].drop_conn();
        self.probes[n].state = "dropped".into();
        // a probe whose connect was never accepted must not stay queued
        self.pending_q.retain(|(p, j)| !(*p && *j == n));
        if self.sh.lock().unwrap().make_gated {
            let mut g = self.sh.lock().unwrap();
            let mk = g.makes;
            g.make_dec.retain(|a, _| *a <= mk);
        }
        self.settle().await;
        self.last_probe = json!({"served": served, "connected": connected, "hstarted": hstarted, "aidx": aidx});
    }

    fn view_resps(&self, c: &Cli) -> (Vec<RespSt>, bool) {
        let st = c.st.lock().unwrap();
        if c.is_h2() {
            let mut v = vec![];
            let n = st.h2resps.keys().max().copied().unwrap_or(0);
            for k in 1..=n {
                v.push(st.h2resps.get(&k).cloned().unwrap_or_default());
            }
            (v, st.eof)
        } else {
            (parse_resps(&st.rx), st.eof)
        }
    }

    fn observe(&mut self, kind: &str) -> Value {
        let g = self.sh.lock().unwrap();
        let mut conns = vec![];
        for i in 1..self.clis.len() {
            let c = &self.clis[i];
            let (resps, eof) = self.view_resps(c);
            let sc = g.sconn.get(&c.aidx).cloned().unwrap_or_default();
            let mut reqs = vec![];
            for k in 1..=self.cfg.nreq {
                let key = format!("c{i}r{k}");
                let h = g.handlers.get(&key).cloned().unwrap_or_default();
                let r = resps.get(k - 1).cloned().unwrap_or_default();
                let gate = g.gates.get(&key);
                reqs.push(json!({
                    "k": k, "sent": c.sent.get(k).copied().unwrap_or(0),
                    "hstart": h.start_seq, "hbody": h.body_done, "hret": h.ret, "hdrop": h.dropped,
                    "gate": gate.map(|x| x.handler.is_some()).unwrap_or(false), "chunks": gate.map(|x| x.chunks).unwrap_or(0),
                    "status": r.status, "head": r.head, "body": r.body, "complete": r.complete, "rerr": r.err,
                }));
            }
            let st = c.st.lock().unwrap();
            conns.push(json!({
                "c": i, "mode": c.mode, "client": c.state, "coop": c.coop, "faulted": c.faulted, "plain": c.plain, "prefixed": c.prefixed,
                "eof": eof, "rerr": st.rerr, "werr": st.werr, "tls": st.tls, "h2ready": st.h2ready,
                "aidx": c.aidx, "spawnSeq": sc.spawn_seq, "told": sc.told, "fin": sc.fin, "finSeq": sc.fin_seq,
                "extra": resps.len().saturating_sub(self.cfg.nreq),
                "reqs": reqs,
            }));
        }
        let new_events: Vec<String> = g.events[self.ev_cursor..].to_vec();
        self.ev_cursor = g.events.len();
        let make_pending = (1..=g.makes).any(|a| !g.make_done.contains_key(&a)) && g.make_gated;
        let rec = json!({
            "e": "Obs", "kind": kind,
            "batch": self.batch.iter().map(|s| serde_json::to_value(s).unwrap()).collect::<Vec<_>>(),
            "acts": self.batch.iter().map(|s| match (s.a.as_str(), s.ok) {
                ("MakeOpen", Some(false)) => "MakeFail".to_string(),
                ("Gate", Some(false)) => "GateErr".to_string(),
                _ => s.a.clone(),
            }).collect::<Vec<_>>(),
            "det": self.paused,
            "bconns": self.batch.iter().map(|s| s.c).collect::<Vec<_>>(),
            "srv": self.srv_state, "srvAtSignal": g.srv_at_signal, "stalled": self.stalled, "sigFireSeq": g.sig_fire_seq,
            "sigFired": g.sig_fired, "sigSeq": g.sig_seq,
            "acceptSeqs": g.accept_ok, "acceptErrs": g.accept_err, "makes": g.makes, "makePending": make_pending,
            "listenerLost": self.listener_lost, "makeFailed": self.make_failed, "cancelled": self.cancelled, "oddPeers": self.odd_peers,
            "spawned": g.spawned, "finished": g.finished,
            "events": new_events,
            "conns": conns,
            "probe": if kind == "probe" { self.last_probe.clone() } else { json!({"served": false, "connected": false, "hstarted": false, "aidx": 0}) },
        });
        drop(g);
        self.batch.clear();
        rec
    }

    /// Full client cooperation: every well-behaved client finishes what it started and keeps reading;
    /// every gate opens; every chunk is released. Nothing new is started.
    async fn quiesce(&mut self) {
        for _round in 0..8 {
            if self.stalled {
                break;
            }
            let mut acted = false;
            for i in 1..self.clis.len() {
                if self.clis[i].state == "open" && self.clis[i].coop {
                    for k in 1..=self.cfg.nreq {
                        let sent = self.clis[i].sent.get(k).copied().unwrap_or(0);
                        if sent > 0 && sent < 4 {
                            let ready = !self.clis[i].is_h2() || self.clis[i].st.lock().unwrap().h2ready;
                            if ready {
                                for p in &PARTS[sent..] {
                                    acted |= self.send_part(false, i, k, p);
                                }
                            }
                        }
                    }
                }
            }
            let keys: Vec<(String, String)> = self.sh.lock().unwrap().handlers.iter().map(|(k, h)| (k.clone(), h.ret.clone())).collect();
            for (key, _ret) in keys {
                let (dec, chunks) = {
                    let g = self.sh.lock().unwrap();
                    g.gates.get(&key).map(|x| (x.handler.is_some(), x.chunks)).unwrap_or((false, 0))
                };
                if !dec || chunks < 2 {
                    self.open_gate(&key, Some(true), Some(2));
                    acted = true;
                }
            }
            {
                let mut g = self.sh.lock().unwrap();
                if g.make_gated {
                    for a in 1..=g.makes {
                        if !g.make_dec.contains_key(&a) {
                            g.make_dec.insert(a, true);
                            if let Some(w) = g.make_wakers.remove(&a) {
                                w.wake();
                            }
                            acted = true;
                        }
                    }
                }
            }
            let before = self.snapshot_key();
            self.settle().await;
            if !acted && before == self.snapshot_key() {
                break;
            }
        }
    }

    async fn finish(&mut self) {
        if self.stalled {
            let r = self.observe("stalled");
            self.push_rec(r);
            return;
        }
        self.quiesce().await;
        if self.stalled {
            let r = self.observe("stalled");
            self.push_rec(r);
            return;
        }
        let r = self.observe("quiesce");
        self.push_rec(r);
        for i in 1..self.clis.len() {
            self.clis[i].drop_conn();
        }
        self.settle().await;
        self.settle().await;
        let r = self.observe(if self.stalled { "stalled" } else { "final" });
        self.push_rec(r);
    }

    /// Records an observation; a copy goes to PROGRESS so that the supervising thread can finish the trace of
    /// a schedule whose runtime thread got wedged inside the code under test.
    fn push_rec(&mut self, r: Value) {
        {
            let mut p = PROGRESS.lock().unwrap();
            p.last = Some(r.clone());
            p.recs.push(r.clone());
            p.steps = self.done_steps.clone();
        }
        self.recs.push(r);
    }

    async fn step(&mut self, s: &Step) {
        if self.stalled {
            return;
        }
        {
            let mut p = PROGRESS.lock().unwrap();
            p.steps = self.done_steps.clone();
            p.steps.push(s.clone());
            p.pending = self.batch.iter().map(|b| b.a.clone()).chain(std::iter::once(s.a.clone())).collect();
        }
        if s.a == "Probe" && !self.batch.is_empty() {
            // probes only at settled points
            self.settle().await;
            let r = self.observe("step");
            self.push_rec(r);
        }
        let applied = self.apply(s).await;
        let mut s2 = s.clone();
        if !applied {
            s2.a = format!("Skip{}", s.a);
        }
        self.done_steps.push(s.clone());
        self.batch.push(s2);
        if s.a == "Probe" && applied {
            let r = self.observe("probe");
            self.push_rec(r);
        } else if !s.ns || s.a == "Probe" {
            self.settle().await;
            let r = self.observe("step");
            self.push_rec(r);
        }
    }

    // ---------------------------------------------------------------------------------------------
    /// Actions enabled in the REAL state (for the random walk).
    fn enabled(&self, prof: &str, rng: &mut StdRng) -> Vec<(Step, u32)> {
        let mut v: Vec<(Step, u32)> = vec![];
        let c09 = prof == "c09";
        let g = self.sh.lock().unwrap();
        let mk = |a: &str, c: usize, k: usize, p: &str| Step { a: a.into(), c, k, p: p.into(), ..Default::default() };
        let make_pending = g.make_gated && (1..=g.makes).any(|a| !g.make_dec.contains_key(&a));
        // connect the next unused client
        if let Some(i) = (1..self.clis.len()).find(|i| self.clis[*i].state == "none") {
            let mut s = mk("Connect", i, 0, "");
            if self.cfg.tls && rng.gen_bool(if c09 { 0.35 } else { 0.2 }) {
                s.mode = "raw".into();
            }
            if c09 && matches!(self.dial, Dial::Unix(_)) && rng.gen_bool(0.35) {
                s.p = "odd".into();
            }
            v.push((s, 8));
        }
        for i in 1..self.clis.len() {
            let c = &self.clis[i];
            if c.state == "pending" {
                v.push((mk("CancelConnect", i, 0, ""), if c09 { 30 } else { 3 }));
            }
            if c.state != "open" {
                continue;
            }
            let (resps, _eof) = self.view_resps(c);
            if c.coop {
                // next part of the current / next request
                let mut k = 1;
                while k < self.cfg.nreq && c.sent.get(k).copied().unwrap_or(0) == 4 && resps.get(k - 1).map(|r| r.complete).unwrap_or(false) {
                    k += 1;
                }
                let sent = c.sent.get(k).copied().unwrap_or(0);
                let ready = !c.is_h2() || c.st.lock().unwrap().h2ready;
                if sent < 4 && ready && !c.plain && !c.prefixed {
                    v.push((mk("Send", i, k, PARTS[sent]), 14));
                }
            }
            if self.cfg.proto == "auto" && !c.is_h2() && c.coop && !c.plain && !c.prefixed && !c.sent.iter().any(|x| *x > 0) {
                let n = [1usize, 5, 14, 18, 23][rng.gen_range(0..5)];
                v.push((mk("Prefix", i, n, ""), if c09 { 4 } else { 3 }));
            }
            let faults = c09 || rng.gen_bool(0.25);
            if faults {
                let fw = if c09 { 2 } else { 1 };
                v.push((mk("Disconnect", i, 0, ""), fw));
                if !c.is_h2() && !c.half {
                    v.push((mk("Trunc", i, 0, ""), fw));
                    if !c.junk {
                        v.push((mk("Garbage", i, 0, ""), fw));
                    }
                }
            }
            for k in 1..=self.cfg.nreq {
                let key = format!("c{i}r{k}");
                if let Some(h) = g.handlers.get(&key) {
                    let gate = g.gates.get(&key);
                    let decided = gate.map(|x| x.handler.is_some()).unwrap_or(false);
                    if !decided {
                        let mut s = mk("Gate", i, k, "");
                        s.ok = Some(true);
                        v.push((s.clone(), 12));
                        if faults {
                            s.ok = Some(false);
                            v.push((s, if c09 { 3 } else { 1 }));
                        }
                    }
                    let _ = h;
                    if gate.map(|x| x.handler == Some(true) && x.chunks < 2).unwrap_or(false) {
                        v.push((mk("Chunk", i, k, ""), 12));
                    }
                }
            }
        }
        if make_pending {
            let mut s = mk("MakeOpen", 0, 0, "");
            s.ok = Some(true);
            v.push((s.clone(), 14));
            if c09 {
                s.ok = Some(false);
                v.push((s, 1));
            }
        }
        if c09 && matches!(self.dial, Dial::Tcp(_)) && self.resets < 4 && self.srv_state == "running" {
            v.push((mk("ResetConnect", 0, 0, ""), 8));
        }
        let any_pending = self.clis.iter().any(|c| c.state == "pending");
        if !any_pending && !make_pending && self.probes.len() < if c09 { 12 } else { 2 } {
            v.push((mk("Probe", 0, 0, ""), if c09 { 2 } else { 1 }));
        }
        v
    }
}

fn is_fault(a: &str, s: &Step) -> bool {
    matches!(a, "CancelConnect" | "Disconnect" | "Trunc" | "Garbage" | "Prefix" | "ResetConnect") || (a == "Gate" && s.ok == Some(false)) || (a == "Connect" && s.mode == "raw")
}

async fn run_schedule(cfg: Cfg, tls: Option<&TlsMat>, paused: bool, scratch: &str, walk: Option<(&str, u64, usize)>) -> Vec<Value> {
    let mut r = Runner::new(cfg.clone(), tls, paused, scratch).await;
    r.settle().await;
    {
        // template observation (not recorded) for the supervising thread
        let o = r.observe("init");
        let mut p = PROGRESS.lock().unwrap();
        *p = Progress { cfg: Some(cfg.clone()), last: Some(o), ..Default::default() };
    }
    match walk {
        None => {
            for s in cfg.steps.iter() {
                r.step(s).await;
            }
            if !r.batch.is_empty() {
                r.settle().await;
                let o = r.observe("step");
                r.push_rec(o);
            }
        }
        Some((prof, seed, len)) => {
            let mut rng = StdRng::seed_from_u64(seed);
            let c09 = prof == "c09";
            // the signal position is uniform over the walk (C07: always; C09: sometimes, late)
            let sig_at: usize = if cfg.sig_on_make != 0 { usize::MAX } else if !c09 { rng.gen_range(0..len) } else if rng.gen_bool(0.25) { rng.gen_range(len / 2..len) } else { usize::MAX };
            let lost_at: usize = if c09 && rng.gen_bool(0.06) { rng.gen_range(len / 2..len) } else { usize::MAX };
            let mut n = 0;
            let mut force_probe = false;
            let mut forced: VecDeque<Step> = VecDeque::new();
            if cfg.sig_on_make != 0 {
                // "serve k connections then stop": a burst of connects is queued before the server runs
                let burst = cfg.nconn.min(3).max(2);
                for i in 1..=burst {
                    forced.push_back(Step { a: "Connect".into(), c: i, ns: i < burst, ..Default::default() });
                }
            }
            while n < len {
                if r.stalled {
                    break;
                }
                let any_pending = r.clis.iter().any(|c| c.state == "pending");
                let make_pending = r.sh.lock().unwrap().make_gated && { let g = r.sh.lock().unwrap(); (1..=g.makes).any(|a| !g.make_dec.contains_key(&a)) };
                let fired = r.sh.lock().unwrap().sig_fired;
                let was_forced = !forced.is_empty();
                let mut s = if let Some(f) = forced.pop_front() {
                    f
                } else if force_probe && r.batch.is_empty() && !make_pending && !any_pending {
                    force_probe = false;
                    Step { a: "Probe".into(), ..Default::default() }
                } else if n >= sig_at && !fired {
                    Step { a: "Signal".into(), ..Default::default() }
                } else if n >= lost_at && !r.listener_lost && !any_pending && matches!(r.dial, Dial::Duplex(Some(_))) {
                    Step { a: "ListenerLost".into(), ..Default::default() }
                } else {
                    let en = r.enabled(prof, &mut rng);
                    if en.is_empty() {
                        break;
                    }
                    let tot: u32 = en.iter().map(|x| x.1).sum();
                    let mut pick = rng.gen_range(0..tot);
                    let mut chosen = en[0].0.clone();
                    for (s, w) in en {
                        if pick < w {
                            chosen = s;
                            break;
                        }
                        pick -= w;
                    }
                    chosen
                };
                if s.a != "Probe" && !was_forced {
                    // a cancelled connect needs the connect queued and not yet accepted
                    s.ns = rng.gen_bool(if s.a == "Connect" && c09 { 0.5 } else { 0.2 });
                }
                if s.a == "Prefix" && c09 {
                    // the prefix is followed by the client going away (drop, or half-close)
                    s.ns = rng.gen_bool(0.5);
                    forced.push_back(Step { a: if rng.gen_bool(0.5) { "Disconnect".into() } else { "Trunc".into() }, c: s.c, ..Default::default() });
                }
                if c09 && is_fault(&s.a, &s) && s.a != "Prefix" {
                    force_probe = true;
                    if s.a != "ResetConnect" || rng.gen_bool(0.7) {
                        s.ns = false;
                    }
                }
                r.step(&s).await;
                n += 1;
            }
            if !r.batch.is_empty() {
                r.settle().await;
                let o = r.observe("step");
                r.push_rec(o);
            }
        }
    }
    r.finish().await;
    if let Dial::Unix(p) = &r.dial {
        let _ = std::fs::remove_file(p);
    }
    for p in r.odd_paths.iter() {
        let _ = std::fs::remove_file(p);
    }
    let mut cfg2 = cfg;
    cfg2.steps = r.done_steps.clone();
    let mut out = vec![json!({"e": "Reset", "id": cfg2.id, "proto": cfg2.proto, "tls": cfg2.tls, "acc": cfg2.acc,
        "makeGated": cfg2.make_gated, "nconn": cfg2.nconn, "nreq": cfg2.nreq, "src": cfg2.src,
        "sched": serde_json::to_value(&cfg2).unwrap()})];
    out.append(&mut r.recs);
    out
}

fn run_one(cfg: Cfg, tls: Option<&TlsMat>, scratch: &str, walk: Option<(&str, u64, usize)>) -> Vec<Value> {
    let paused = cfg.acc == "duplex";
    let mut b = tokio::runtime::Builder::new_current_thread();
    b.enable_all();
    if paused {
        b.start_paused(true);
    }
    let rt = b.build().expect("runtime");
    let id = cfg.id.clone();
    let res = std::panic::catch_unwind(std::panic::AssertUnwindSafe(|| {
        rt.block_on(async {
            // every schedule under a (virtual, or generous real) time-out: a hang becomes data
            let lim = if paused { Duration::from_secs(3600) } else { Duration::from_secs(120) };
            match tokio::time::timeout(lim, run_schedule(cfg, tls, paused, scratch, walk)).await {
                Ok(v) => v,
                Err(_) => vec![json!({"e": "Reset", "id": id, "hang": true})],
            }
        })
    }));
    drop(rt);
    match res {
        Ok(v) => v,
        Err(_) => vec![json!({"e": "Reset", "id": id, "harnessPanic": true})],
    }
}

fn arg(args: &[String], name: &str) -> Option<String> {
    args.iter().position(|a| a == name).and_then(|i| args.get(i + 1).cloned())
}

fn main() {
    let args: Vec<String> = std::env::args().collect();
    let out = arg(&args, "--out").expect("--out <trace.ndjson>");
    let scratch = arg(&args, "--scratch").unwrap_or_else(|| "/verif/out".into());
    let tls = arg(&args, "--certdir").map(|d| load_tls(&d));
    // silence panics of the code under test inside spawned tasks (they are recorded as data)
    std::panic::set_hook(Box::new(|_| {}));
    watchdog_thread();
    // job list
    let mut jobs: Vec<(Cfg, Option<(String, u64, usize)>)> = vec![];
    if let Some(inp) = arg(&args, "--in") {
        let text = std::fs::read_to_string(&inp).expect("read --in");
        for line in text.lines().filter(|l| !l.trim().is_empty()) {
            let cfg: Cfg = serde_json::from_str(line).unwrap_or_else(|e| panic!("bad schedule {line}: {e}"));
            jobs.push((cfg, None));
        }
    }
    if args.iter().any(|a| a == "--walk") {
        let seed: u64 = arg(&args, "--seed").and_then(|s| s.parse().ok()).unwrap_or(1);
        let num: usize = arg(&args, "--num").and_then(|s| s.parse().ok()).unwrap_or(100);
        let len: usize = arg(&args, "--len").and_then(|s| s.parse().ok()).unwrap_or(14);
        let prof = arg(&args, "--profile").unwrap_or_else(|| "c07".into());
        let protos: Vec<String> = arg(&args, "--protos").unwrap_or_else(|| "h1,auto,h2".into()).split(',').map(|s| s.to_string()).collect();
        let acc = arg(&args, "--acc").unwrap_or_else(|| "duplex".into());
        let use_tls = arg(&args, "--tls").map(|s| s == "1").unwrap_or(false);
        let nconn: usize = arg(&args, "--nconn").and_then(|s| s.parse().ok()).unwrap_or(3);
        let mut rng = StdRng::seed_from_u64(seed);
        for n in 0..num {
            let proto = protos[n % protos.len()].clone();
            let s: u64 = rng.gen();
            let make_gated = acc == "duplex" && rng.gen_bool(0.15);
            let sig_on_make = if prof == "c07" && rng.gen_bool(0.15) { rng.gen_range(1..=2) } else { 0 };
            let cfg = Cfg {
                id: format!("w-{prof}-{acc}{}-{proto}-{seed}-{n}", if use_tls { "-tls" } else { "" }),
                proto,
                tls: use_tls,
                acc: acc.clone(),
                make_gated,
                sig_on_make,
                nconn,
                nreq: 2,
                steps: vec![],
                src: "walk".into(),
                exp: Value::Null,
            };
            jobs.push((cfg, Some((prof.clone(), s, len))));
        }
    }
    // The schedules run on a worker thread; this thread supervises with REAL time: code under test that
    // wedges its thread (a poll that never returns) must become a recorded observation, not a hung harness.
    let limits: Vec<Duration> = jobs.iter().map(|(c, _)| if c.acc == "duplex" { Duration::from_secs(40) } else { Duration::from_secs(240) }).collect();
    let (tx, rx) = std::sync::mpsc::channel::<Option<Vec<Value>>>();
    let truncated = Arc::new(std::sync::atomic::AtomicBool::new(false));
    let trunc2 = truncated.clone();
    std::thread::spawn(move || {
        for (cfg, walk) in jobs {
            if STALLS.load(std::sync::atomic::Ordering::SeqCst) >= 4 {
                trunc2.store(true, std::sync::atomic::Ordering::SeqCst); // enough stalled schedules; each costs real time
                break;
            }
            let w = walk.as_ref().map(|(p, s, l)| (p.as_str(), *s, *l));
            let recs = run_one(cfg, tls.as_ref(), &scratch, w);
            if tx.send(Some(recs)).is_err() {
                return;
            }
        }
        let _ = tx.send(None);
    });
    let mut tr = TraceOut::create(&out);
    let mut nsched = 0usize;
    let mut wedged = false;
    loop {
        let lim = limits.get(nsched).copied().unwrap_or(Duration::from_secs(40));
        match rx.recv_timeout(lim) {
            Ok(Some(recs)) => {
                for r in recs {
                    tr.emit(&r);
                }
                nsched += 1;
            }
            Ok(None) => break,
            Err(std::sync::mpsc::RecvTimeoutError::Disconnected) => break,
            Err(std::sync::mpsc::RecvTimeoutError::Timeout) => {
                // the runtime thread is stuck inside a poll: finish this schedule's trace from what it published
                let p = PROGRESS.lock().unwrap();
                if let (Some(cfg), Some(last)) = (p.cfg.clone(), p.last.clone()) {
                    let mut cfg2 = cfg;
                    cfg2.steps = p.steps.clone();
                    tr.emit(&json!({"e": "Reset", "id": cfg2.id, "proto": cfg2.proto, "tls": cfg2.tls, "acc": cfg2.acc,
                        "makeGated": cfg2.make_gated, "nconn": cfg2.nconn, "nreq": cfg2.nreq, "src": cfg2.src, "wedged": true,
                        "sched": serde_json::to_value(&cfg2).unwrap()}));
                    for r in p.recs.iter() {
                        tr.emit(r);
                    }
                    let mut o = last;
                    o["kind"] = json!("stalled");
                    o["stalled"] = json!(true);
                    o["wedged"] = json!(true);
                    o["acts"] = json!(p.pending.clone());
                    o["batch"] = json!([]);
                    o["bconns"] = json!([]);
                    o["events"] = json!([]);
                    tr.emit(&o);
                    nsched += 1;
                }
                STALLS.fetch_add(1, std::sync::atomic::Ordering::SeqCst);
                wedged = true;
                break;
            }
        }
    }
    let lines = tr.lines;
    tr.finish();
    println!("{}", json!({"schedules": nsched, "records": lines, "stalls": STALLS.load(std::sync::atomic::Ordering::SeqCst),
        "truncated": wedged || truncated.load(std::sync::atomic::Ordering::SeqCst), "wedged": wedged}));
    // a wedged worker thread cannot be joined
    std::process::exit(0);
}
