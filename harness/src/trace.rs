//! ndjson trace output.
use std::io::Write;

pub struct TraceOut {
    w: std::io::BufWriter<std::fs::File>,
    pub lines: usize,
}

impl TraceOut {
    pub fn create(path: &str) -> Self {
        let f = std::fs::File::create(path).unwrap_or_else(|e| panic!("create {path}: {e}"));
        TraceOut { w: std::io::BufWriter::new(f), lines: 0 }
    }
    pub fn emit(&mut self, v: &serde_json::Value) {
        serde_json::to_writer(&mut self.w, v).unwrap();
        self.w.write_all(b"\n").unwrap();
        self.lines += 1;
    }
    pub fn finish(mut self) {
        self.w.flush().unwrap();
    }
}
