//! Shared pieces of the C12 (tlsroute) and C17 (pipeline) drivers. Included with `#[path]` by both
//! binaries (not part of the `vh` library, so no shared file needs to change).
//!
//! * `MemTransport`: an in-memory `Transport` (a `tower::Service<http::request::Parts>`) handing the server end
//!   of every connection to a peer task.
//! * `Peer`: a raw peer. It records the first bytes it receives on the wire, every raw byte, the SNI and ALPN of
//!   a ClientHello, whether its TLS handshake completed, the application bytes it saw after decryption; it can
//!   inject the handshake faults of C12 (close, plaintext answer, truncated handshake) and serves either an echo
//!   or a real hyper HTTP/1 + HTTP/2 server.
//! * `RecordingVerifier`: a `ServerCertVerifier` delegating to the WebPKI verifier and recording the server name
//!   rustls asked it to check.
//! * a global panic hook recording every panic (message, location, thread).
#![allow(dead_code)]

use std::future::Future;
use std::io;
use std::pin::Pin;
use std::sync::{Arc, Mutex};
use std::task::{Context, Poll};

use hyperdriver::client::pool::PoolableStream;
use hyperdriver::info::{ConnectionInfo, HasConnectionInfo};
use rustls::client::danger::{HandshakeSignatureValid, ServerCertVerified, ServerCertVerifier};
use rustls::pki_types::{CertificateDer, PrivateKeyDer, ServerName, UnixTime};
use tokio::io::{AsyncRead, AsyncReadExt, AsyncWrite, AsyncWriteExt, ReadBuf};
use tokio::sync::mpsc;

// ------------------------------------------------------------------------------------------------
// panic recording

#[derive(Clone, Debug)]
pub struct PanicRec {
    pub msg: String,
    pub file: String,
    pub line: u32,
    pub thread: String,
}

static PANICS: Mutex<Vec<PanicRec>> = Mutex::new(Vec::new());

pub fn install_panic_hook() {
    std::panic::set_hook(Box::new(|info| {
        let msg = if let Some(s) = info.payload().downcast_ref::<&str>() {
            (*s).to_string()
        } else if let Some(s) = info.payload().downcast_ref::<String>() {
            s.clone()
        } else {
            "<non-string panic payload>".to_string()
        };
        let (file, line) = info
            .location()
            .map(|l| (l.file().to_string(), l.line()))
            .unwrap_or_else(|| ("<unknown>".into(), 0));
        let th = std::thread::current();
        let rec = PanicRec { msg, file, line, thread: th.name().unwrap_or("<unnamed>").to_string() };
        if let Ok(mut g) = PANICS.lock() {
            g.push(rec);
        }
    }));
}

pub fn take_panics() -> Vec<PanicRec> {
    match PANICS.lock() {
        Ok(mut g) => std::mem::take(&mut *g),
        Err(p) => std::mem::take(&mut *p.into_inner()),
    }
}

/// Path of a panic location relative to the crate under test, or the raw path.
pub fn short_loc(file: &str) -> String {
    // "src/..." for the crate under test (wherever its working tree lives), "<crate dir>/src/..." for dependencies
    // and the standard library
    if let Some(i) = file.rfind("/src/") {
        let head = &file[..i];
        let krate = head.rsplit('/').next().unwrap_or("");
        let is_dep = head.contains("/registry/") || head.contains("/rustc/") || head.contains("/library/");
        if !is_dep {
            return file[i + 1..].to_string();
        }
        return format!("{}{}", krate, &file[i..]);
    }
    file.to_string()
}

/// true if the panic location lies in the harness itself (a tool error, never a verdict)
pub fn is_harness_loc(file: &str) -> bool {
    file.contains("harness/src/") || file.starts_with("src/bin/") || file.starts_with("src/tls_common")
}

// ------------------------------------------------------------------------------------------------
// in-memory transport

#[derive(Clone, Debug, Default, PartialEq, Eq, Hash)]
pub struct MemAddr;
impl std::fmt::Display for MemAddr {
    fn fmt(&self, f: &mut std::fmt::Formatter<'_>) -> std::fmt::Result {
        f.write_str("mem")
    }
}

#[derive(Debug)]
pub struct MemIo(pub tokio::io::DuplexStream);

impl HasConnectionInfo for MemIo {
    type Addr = MemAddr;
    fn info(&self) -> ConnectionInfo<MemAddr> {
        ConnectionInfo { local_addr: MemAddr, remote_addr: MemAddr }
    }
}
impl PoolableStream for MemIo {
    fn can_share(&self) -> bool {
        false
    }
}
impl AsyncRead for MemIo {
    fn poll_read(mut self: Pin<&mut Self>, cx: &mut Context<'_>, buf: &mut ReadBuf<'_>) -> Poll<io::Result<()>> {
        Pin::new(&mut self.0).poll_read(cx, buf)
    }
}
impl AsyncWrite for MemIo {
    fn poll_write(mut self: Pin<&mut Self>, cx: &mut Context<'_>, buf: &[u8]) -> Poll<io::Result<usize>> {
        Pin::new(&mut self.0).poll_write(cx, buf)
    }
    fn poll_flush(mut self: Pin<&mut Self>, cx: &mut Context<'_>) -> Poll<io::Result<()>> {
        Pin::new(&mut self.0).poll_flush(cx)
    }
    fn poll_shutdown(mut self: Pin<&mut Self>, cx: &mut Context<'_>) -> Poll<io::Result<()>> {
        Pin::new(&mut self.0).poll_shutdown(cx)
    }
}

/// In-memory transport: every `call` creates a duplex pipe and hands the far end to the peer.
#[derive(Clone, Debug)]
pub struct MemTransport {
    tx: mpsc::UnboundedSender<tokio::io::DuplexStream>,
    pub dials: Arc<Mutex<Vec<String>>>,
}

impl MemTransport {
    pub fn new() -> (Self, mpsc::UnboundedReceiver<tokio::io::DuplexStream>) {
        let (tx, rx) = mpsc::unbounded_channel();
        (MemTransport { tx, dials: Arc::new(Mutex::new(Vec::new())) }, rx)
    }
}

impl tower::Service<http::request::Parts> for MemTransport {
    type Response = MemIo;
    type Error = io::Error;
    type Future = std::future::Ready<Result<MemIo, io::Error>>;

    fn poll_ready(&mut self, _cx: &mut Context<'_>) -> Poll<Result<(), io::Error>> {
        Poll::Ready(Ok(()))
    }

    fn call(&mut self, req: http::request::Parts) -> Self::Future {
        self.dials.lock().unwrap().push(req.uri.to_string());
        let (a, b) = tokio::io::duplex(64 * 1024);
        std::future::ready(match self.tx.send(b) {
            Ok(()) => Ok(MemIo(a)),
            Err(_) => Err(io::Error::new(io::ErrorKind::ConnectionRefused, "peer gone")),
        })
    }
}

// ------------------------------------------------------------------------------------------------
// recording verifier

#[derive(Debug)]
pub struct RecordingVerifier {
    inner: Arc<dyn ServerCertVerifier>,
    pub asked: Arc<Mutex<Vec<String>>>,
}

pub fn server_name_string(n: &ServerName<'_>) -> String {
    match n {
        ServerName::DnsName(d) => format!("dns:{}", d.as_ref()),
        ServerName::IpAddress(ip) => format!("ip:{}", std::net::IpAddr::from(*ip)),
        _ => "other".to_string(),
    }
}

impl ServerCertVerifier for RecordingVerifier {
    fn verify_server_cert(
        &self,
        end_entity: &CertificateDer<'_>,
        intermediates: &[CertificateDer<'_>],
        server_name: &ServerName<'_>,
        ocsp_response: &[u8],
        now: UnixTime,
    ) -> Result<ServerCertVerified, rustls::Error> {
        self.asked.lock().unwrap().push(server_name_string(server_name));
        self.inner.verify_server_cert(end_entity, intermediates, server_name, ocsp_response, now)
    }
    fn verify_tls12_signature(
        &self,
        message: &[u8],
        cert: &CertificateDer<'_>,
        dss: &rustls::DigitallySignedStruct,
    ) -> Result<HandshakeSignatureValid, rustls::Error> {
        self.inner.verify_tls12_signature(message, cert, dss)
    }
    fn verify_tls13_signature(
        &self,
        message: &[u8],
        cert: &CertificateDer<'_>,
        dss: &rustls::DigitallySignedStruct,
    ) -> Result<HandshakeSignatureValid, rustls::Error> {
        self.inner.verify_tls13_signature(message, cert, dss)
    }
    fn supported_verify_schemes(&self) -> Vec<rustls::SignatureScheme> {
        self.inner.supported_verify_schemes()
    }
}

// ------------------------------------------------------------------------------------------------
// certificates (generated by the python check with the openssl CLI)

pub fn read_pem(path: &str) -> (String, Vec<u8>) {
    let data = std::fs::read(path).unwrap_or_else(|e| panic!("read {path}: {e}"));
    let (label, der) = pem_rfc7468::decode_vec(&data).unwrap_or_else(|e| panic!("pem {path}: {e}"));
    (label.to_string(), der)
}

pub fn load_cert(path: &str) -> CertificateDer<'static> {
    CertificateDer::from(read_pem(path).1)
}

pub fn load_key(path: &str) -> PrivateKeyDer<'static> {
    let (label, der) = read_pem(path);
    match label.as_str() {
        "PRIVATE KEY" => PrivateKeyDer::Pkcs8(der.into()),
        "RSA PRIVATE KEY" => PrivateKeyDer::Pkcs1(der.into()),
        "EC PRIVATE KEY" => PrivateKeyDer::Sec1(der.into()),
        l => panic!("unknown key label {l} in {path}"),
    }
}

pub struct Certs {
    pub dir: String,
}

impl Certs {
    /// server configuration for leaf `name` in {"match","mismatch","untrusted"} with the given ALPN list
    pub fn server_config(&self, name: &str, alpn: &[&str]) -> Arc<rustls::ServerConfig> {
        let cert = load_cert(&format!("{}/{}.pem", self.dir, name));
        let key = load_key(&format!("{}/{}.key", self.dir, name));
        let mut cfg = rustls::ServerConfig::builder()
            .with_no_client_auth()
            .with_single_cert(vec![cert], key)
            .expect("server config");
        cfg.alpn_protocols = alpn.iter().map(|a| a.as_bytes().to_vec()).collect();
        Arc::new(cfg)
    }

    /// client configuration trusting only the generated CA; the verifier records the names it is asked to check
    pub fn client_config(&self, alpn: &[&str]) -> (rustls::ClientConfig, Arc<Mutex<Vec<String>>>) {
        let mut roots = rustls::RootCertStore::empty();
        roots.add(load_cert(&format!("{}/ca.pem", self.dir))).expect("add ca");
        let inner = rustls::client::WebPkiServerVerifier::builder(Arc::new(roots)).build().expect("verifier");
        let asked = Arc::new(Mutex::new(Vec::new()));
        let ver = RecordingVerifier { inner, asked: asked.clone() };
        let mut cfg = rustls::ClientConfig::builder()
            .dangerous()
            .with_custom_certificate_verifier(Arc::new(ver))
            .with_no_client_auth();
        cfg.alpn_protocols = alpn.iter().map(|a| a.as_bytes().to_vec()).collect();
        // no session resumption: every handshake of a vector asks the verifier, so "the name checked" is observed
        // per connection also when a history made an earlier handshake with the same server
        cfg.resumption = rustls::client::Resumption::disabled();
        (cfg, asked)
    }
}

pub fn install_crypto() {
    let _ = rustls::crypto::ring::default_provider().install_default();
}

// ------------------------------------------------------------------------------------------------
// peer

#[derive(Clone, Copy, Debug, PartialEq, Eq)]
pub enum Fault {
    None,
    PeerCloses,
    PeerPlaintext,
    Truncated(usize),
}

#[derive(Clone, Copy, Debug, PartialEq, Eq)]
pub enum App {
    Echo,
    Http,
}

#[derive(Clone)]
pub struct PeerCfg {
    pub tls: Option<Arc<rustls::ServerConfig>>,
    pub fault: Fault,
    pub app: App,
}

#[derive(Clone, Debug, Default)]
pub struct ConnLog {
    pub raw: Vec<u8>,
    /// raw bytes of the first read
    pub first: Vec<u8>,
    /// Some(Some(name)) SNI present, Some(None) ClientHello without SNI, None no ClientHello parsed
    pub sni: Option<Option<String>>,
    pub client_alpn: Vec<String>,
    pub hs_done: bool,
    pub hs_err: Option<String>,
    pub alpn: Option<String>,
    /// application bytes seen by the peer (decrypted if TLS)
    pub app: Vec<u8>,
    /// requests seen by the HTTP application: "METHOD target VERSION host=<Host header>"
    pub reqs: Vec<String>,
}

pub type PeerLog = Arc<Mutex<Vec<ConnLog>>>;

pub fn first_class(first: &[u8]) -> &'static str {
    if first.is_empty() {
        "none"
    } else if first.len() >= 2 && first[0] == 0x16 && first[1] == 0x03 {
        "tls"
    } else {
        "plain"
    }
}

/// Stream wrapper: records everything read from the wire; optional write budget (truncation fault).
pub struct Tap<S> {
    inner: S,
    log: PeerLog,
    idx: usize,
    budget: Option<usize>,
    prefix: Vec<u8>,
    ppos: usize,
}

impl<S: AsyncRead + Unpin> AsyncRead for Tap<S> {
    fn poll_read(mut self: Pin<&mut Self>, cx: &mut Context<'_>, buf: &mut ReadBuf<'_>) -> Poll<io::Result<()>> {
        let me = &mut *self;
        if me.ppos < me.prefix.len() {
            let n = std::cmp::min(buf.remaining(), me.prefix.len() - me.ppos);
            buf.put_slice(&me.prefix[me.ppos..me.ppos + n]);
            me.ppos += n;
            return Poll::Ready(Ok(()));
        }
        let before = buf.filled().len();
        let r = Pin::new(&mut me.inner).poll_read(cx, buf);
        if let Poll::Ready(Ok(())) = &r {
            let new = &buf.filled()[before..];
            if !new.is_empty() {
                me.log.lock().unwrap()[me.idx].raw.extend_from_slice(new);
            }
        }
        r
    }
}

impl<S: AsyncWrite + Unpin> AsyncWrite for Tap<S> {
    fn poll_write(mut self: Pin<&mut Self>, cx: &mut Context<'_>, buf: &[u8]) -> Poll<io::Result<usize>> {
        let me = &mut *self;
        match me.budget {
            None => Pin::new(&mut me.inner).poll_write(cx, buf),
            Some(0) => {
                let _ = Pin::new(&mut me.inner).poll_shutdown(cx);
                Poll::Ready(Err(io::Error::new(io::ErrorKind::BrokenPipe, "truncated by the harness")))
            }
            Some(b) => {
                let n = std::cmp::min(b, buf.len());
                match Pin::new(&mut me.inner).poll_write(cx, &buf[..n]) {
                    Poll::Ready(Ok(w)) => {
                        me.budget = Some(b - w);
                        Poll::Ready(Ok(w))
                    }
                    o => o,
                }
            }
        }
    }
    fn poll_flush(mut self: Pin<&mut Self>, cx: &mut Context<'_>) -> Poll<io::Result<()>> {
        Pin::new(&mut self.inner).poll_flush(cx)
    }
    fn poll_shutdown(mut self: Pin<&mut Self>, cx: &mut Context<'_>) -> Poll<io::Result<()>> {
        Pin::new(&mut self.inner).poll_shutdown(cx)
    }
}

/// Application-level recorder (bytes after decryption), with a replayable prefix.
pub struct AppTap<S> {
    inner: S,
    log: PeerLog,
    idx: usize,
    prefix: Vec<u8>,
    ppos: usize,
}

impl<S: AsyncRead + Unpin> AsyncRead for AppTap<S> {
    fn poll_read(mut self: Pin<&mut Self>, cx: &mut Context<'_>, buf: &mut ReadBuf<'_>) -> Poll<io::Result<()>> {
        let me = &mut *self;
        if me.ppos < me.prefix.len() {
            let n = std::cmp::min(buf.remaining(), me.prefix.len() - me.ppos);
            buf.put_slice(&me.prefix[me.ppos..me.ppos + n]);
            me.ppos += n;
            return Poll::Ready(Ok(()));
        }
        let before = buf.filled().len();
        let r = Pin::new(&mut me.inner).poll_read(cx, buf);
        if let Poll::Ready(Ok(())) = &r {
            let new = &buf.filled()[before..];
            if !new.is_empty() {
                me.log.lock().unwrap()[me.idx].app.extend_from_slice(new);
            }
        }
        r
    }
}
impl<S: AsyncWrite + Unpin> AsyncWrite for AppTap<S> {
    fn poll_write(mut self: Pin<&mut Self>, cx: &mut Context<'_>, buf: &[u8]) -> Poll<io::Result<usize>> {
        Pin::new(&mut self.inner).poll_write(cx, buf)
    }
    fn poll_flush(mut self: Pin<&mut Self>, cx: &mut Context<'_>) -> Poll<io::Result<()>> {
        Pin::new(&mut self.inner).poll_flush(cx)
    }
    fn poll_shutdown(mut self: Pin<&mut Self>, cx: &mut Context<'_>) -> Poll<io::Result<()>> {
        Pin::new(&mut self.inner).poll_shutdown(cx)
    }
}

/// Accept loop of the peer: one task per connection.
pub async fn run_peer(mut rx: mpsc::UnboundedReceiver<tokio::io::DuplexStream>, cfg: PeerCfg, log: PeerLog) {
    while let Some(io) = rx.recv().await {
        let idx = {
            let mut g = log.lock().unwrap();
            g.push(ConnLog::default());
            g.len() - 1
        };
        let cfg = cfg.clone();
        let log = log.clone();
        tokio::spawn(async move {
            serve_conn(io, cfg, log, idx).await;
        });
    }
}

async fn serve_conn(mut io: tokio::io::DuplexStream, cfg: PeerCfg, log: PeerLog, idx: usize) {
    // first bytes on the wire
    let mut first = vec![0u8; 4096];
    let n = match io.read(&mut first).await {
        Ok(n) => n,
        Err(_) => 0,
    };
    first.truncate(n);
    {
        let mut g = log.lock().unwrap();
        g[idx].first = first.clone();
        g[idx].raw.extend_from_slice(&first);
    }
    if n == 0 {
        return;
    }
    if first_class(&first) == "tls" && matches!(cfg.fault, Fault::PeerCloses | Fault::PeerPlaintext) {
        // the peer misbehaves before answering, but what the ClientHello offered is still recorded
        let mut acc = rustls::server::Acceptor::default();
        let mut rd: &[u8] = &first;
        if acc.read_tls(&mut rd).is_ok() {
            if let Ok(Some(accepted)) = acc.accept() {
                let ch = accepted.client_hello();
                let mut g = log.lock().unwrap();
                g[idx].sni = Some(ch.server_name().map(|s| s.to_string()));
                if let Some(it) = ch.alpn() {
                    g[idx].client_alpn = it.map(|a| String::from_utf8_lossy(a).to_string()).collect();
                }
            }
        }
    }
    match cfg.fault {
        Fault::PeerCloses => {
            drop(io);
            return;
        }
        Fault::PeerPlaintext => {
            let _ = io.write_all(b"HTTP/1.1 400 Bad Request\r\ncontent-length: 0\r\n\r\n").await;
            let _ = io.flush().await;
            // keep reading whatever the client sends after that, then go away
            let mut buf = vec![0u8; 4096];
            loop {
                match io.read(&mut buf).await {
                    Ok(0) | Err(_) => break,
                    Ok(k) => log.lock().unwrap()[idx].raw.extend_from_slice(&buf[..k]),
                }
            }
            return;
        }
        _ => {}
    }
    let budget = match cfg.fault {
        Fault::Truncated(k) => Some(k),
        _ => None,
    };
    let tap = Tap { inner: io, log: log.clone(), idx, budget, prefix: first.clone(), ppos: 0 };
    let is_tls = first_class(&first) == "tls";
    if is_tls {
        let Some(scfg) = cfg.tls.clone() else {
            // a TLS ClientHello but the peer has no TLS configuration: behave like a plaintext server
            let mut tap = tap;
            let _ = tap.write_all(b"HTTP/1.1 400 Bad Request\r\n\r\n").await;
            return;
        };
        let acceptor = tokio_rustls::LazyConfigAcceptor::new(rustls::server::Acceptor::default(), tap);
        let start = match acceptor.await {
            Ok(s) => s,
            Err(e) => {
                log.lock().unwrap()[idx].hs_err = Some(format!("hello: {e}"));
                return;
            }
        };
        {
            let ch = start.client_hello();
            let mut g = log.lock().unwrap();
            g[idx].sni = Some(ch.server_name().map(|s| s.to_string()));
            if let Some(it) = ch.alpn() {
                g[idx].client_alpn = it.map(|a| String::from_utf8_lossy(a).to_string()).collect();
            }
        }
        let stream = match start.into_stream(scfg).await {
            Ok(s) => s,
            Err(e) => {
                log.lock().unwrap()[idx].hs_err = Some(format!("accept: {e}"));
                return;
            }
        };
        let alpn = stream.get_ref().1.alpn_protocol().map(|a| String::from_utf8_lossy(a).to_string());
        {
            let mut g = log.lock().unwrap();
            g[idx].hs_done = true;
            g[idx].alpn = alpn.clone();
        }
        // without ALPN the HTTP version is recognised by the HTTP/2 preface, as on a plaintext connection
        let mut stream = stream;
        let mut first_app = vec![0u8; 4096];
        let k = stream.read(&mut first_app).await.unwrap_or(0);
        first_app.truncate(k);
        log.lock().unwrap()[idx].app.extend_from_slice(&first_app);
        let h2 = alpn.as_deref() == Some("h2") || first_app.starts_with(b"PRI * HTTP/2");
        let app = AppTap { inner: stream, log: log.clone(), idx, prefix: first_app, ppos: 0 };
        run_app(app, cfg.app, h2, false, log, idx).await;
    } else {
        // plaintext on the wire: the application sees the raw bytes
        log.lock().unwrap()[idx].app.extend_from_slice(&first);
        let inner = Tap { prefix: Vec::new(), ..tap };
        let app = AppTap { inner, log: log.clone(), idx, prefix: first.clone(), ppos: 0 };
        let h2 = first.starts_with(b"PRI * HTTP/2");
        run_app(app, cfg.app, h2, true, log, idx).await;
    }
}

async fn run_app<S>(mut io: S, app: App, h2: bool, _plain: bool, log: PeerLog, idx: usize)
where
    S: AsyncRead + AsyncWrite + Unpin + Send + 'static,
{
    match app {
        App::Echo => {
            let mut buf = vec![0u8; 4096];
            loop {
                match io.read(&mut buf).await {
                    Ok(0) | Err(_) => break,
                    Ok(k) => {
                        if io.write_all(&buf[..k]).await.is_err() {
                            break;
                        }
                        let _ = io.flush().await;
                    }
                }
            }
            let _ = io.shutdown().await;
        }
        App::Http => {
            let log2 = log.clone();
            let svc = hyper::service::service_fn(move |req: http::Request<hyper::body::Incoming>| {
                let log = log2.clone();
                async move {
                    use http_body_util::BodyExt;
                    let line = format!(
                        "{} {} {:?} host={} marker={}",
                        req.method(),
                        req.uri(),
                        req.version(),
                        req.headers().get("host").and_then(|h| h.to_str().ok()).unwrap_or("-"),
                        req.headers().get("x-marker").and_then(|h| h.to_str().ok()).unwrap_or("-")
                    );
                    log.lock().unwrap()[idx].reqs.push(line);
                    if req.uri().path().starts_with("/hold-") {
                        // kept in flight: with a paused clock this second passes only when every other task is idle
                        tokio::time::sleep(std::time::Duration::from_secs(1)).await;
                    }
                    let is_connect = req.method() == http::Method::CONNECT;
                    let body = req.into_body();
                    // like a real server, do not wait for ever for a body the client announced and never sends
                    let mut status = 200;
                    let n = if is_connect {
                        0
                    } else {
                        match tokio::time::timeout(std::time::Duration::from_secs(5), body.collect()).await {
                            Ok(Ok(c)) => c.to_bytes().len(),
                            Ok(Err(_)) => 0,
                            Err(_) => {
                                status = 408;
                                0
                            }
                        }
                    };
                    let resp = http::Response::builder()
                        .status(status)
                        .header("x-body-len", n.to_string())
                        .body(http_body_util::Full::new(bytes::Bytes::from_static(b"ok")))
                        .unwrap();
                    Ok::<_, std::convert::Infallible>(resp)
                }
            });
            let io = hyperdriver::bridge::io::TokioIo::new(io);
            if h2 {
                let _ = hyper::server::conn::http2::Builder::new(hyperdriver::bridge::rt::TokioExecutor::new())
                    .serve_connection(io, svc)
                    .await;
            } else {
                let _ = hyper::server::conn::http1::Builder::new().serve_connection(io, svc).await;
            }
        }
    }
}

pub fn contains(hay: &[u8], needle: &[u8]) -> bool {
    !needle.is_empty() && hay.windows(needle.len()).any(|w| w == needle)
}

/// Drive `fut` inside catch_unwind; Err(()) if it unwound (details are in the panic log).
pub async fn guarded<F: Future>(fut: F) -> Result<F::Output, ()> {
    use futures_util::FutureExt;
    std::panic::AssertUnwindSafe(fut).catch_unwind().await.map_err(|_| ())
}
