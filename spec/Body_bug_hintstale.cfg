\* Body vacuity guard: the model with the seeded defect 'hintstale' must violate the property
SPECIFICATION Spec
CONSTANTS
  MaxSteps = 5
  Stacks <- MCModelStacks
  MaxItems = 2
  DataLens <- L02
  FullLens <- L13
  Bug = "hintstale"
VIEW MCView
INVARIANTS
  I_B1_DataOrder I_B1_DataInvented I_B1_FrameBoundary I_B1_AfterEnd I_B1_Trailers I_B1_ErrorInvented
  I_B1_EarlyEnd I_B1_Truncated I_B1_TrailersLost I_B1_ErrorSwallowed I_B1_Kind
  I_B2_FalseEnd I_B2_Revoked I_B3_Unsound I_B3_NotMonotone I_B3_Inexact
  I_B4_PendingInvented I_B4_LostWakeup I_B5_Clonable I_B5_CloneDiffers I_B5_OriginalAffected I_NoPanic
  I_ModelRef I_NoStall I_Prefix
