\* no VIEW: the history is part of the state, so FnAgrees (automaton = SniffFn on the IO script) is checked for
\* every IO script of the sniff phase (constraint: stop right after the decision)
CONSTANTS
    AsBuiltCompare = FALSE
    MaxCuts = 3
    Caps <- MCCaps
    Window <- MCWindow
    GenK = 0
    Tier = "quick"
SPECIFICATION Spec
CONSTRAINT FnConstraint
INVARIANTS FnAgrees C08Decision
