\* C18 model check, thorough: every op sequence of length <= 7 over every model stack
SPECIFICATION Spec
CONSTANTS
  MaxSteps = 7
  Bug = "none"
  Stacks <- MCModelStacks
  ReadCaps <- MCReadCaps
  ReadPres <- MCReadPres
  UBs <- MCUBs
  WriteLens <- MCWriteLens
  VecLens <- MCVecLens
  RInj <- MCRInj
  WInj <- MCWInj
  CInj <- MCCInj
VIEW MCView
INVARIANTS
  I_NoPanic I_R_Prefill I_R_Bounds I_R_NoEffect I_R_Next I_R_EofReal I_W_Ret
  I_S_R_PendReal I_S_R_PendProp I_S_R_EofProp I_S_R_ErrReal I_S_R_ErrProp
  I_S_W_Exact I_S_W_NoEffect I_S_W_PendReal I_S_W_ZeroReal I_S_W_ErrReal I_S_W_Prop
  I_S_NoCross I_S_Ctl I_P_NoErrRead I_P_WErrReal I_P_Ctl I_P_PendReal I_P_Wake
  I_Fifo I_ModelRef
