SPECIFICATION Spec
CONSTANT Variant <- MCIntended
INVARIANT TypeOK
INVARIANT InvC20
INVARIANT InvFunctional
INVARIANT InvSameAsIntended
