SPECIFICATION Spec
CONSTANTS
  NConn = 2
  MaxReq = 2
  MaxReq2 = 1
  Protos <- AllProtos
  TlsModes <- BothBool
  MakeModes <- BothBool
  MaxFaults = 2
  AsBuiltD8 = FALSE
  SigOnMake <- SigNever
  Hoisted = FALSE
  GenMode = FALSE
  GenLen = 0
INVARIANTS TypeOK C07_OkIffSignal C07_InflightCompletes C07_ToldAtMostOnce C07_OpenToldAndClosed C07_IdleCloses C07_NoNewService C09_EndsOnlyOnAllowed C09_EndCauseConsistent C09_OthersServed
PROPERTIES C07_NoAcceptAfterSignal C09_FaultLocal
