SPECIFICATION Spec
INVARIANT AsBuiltReport
CHECK_DEADLOCK FALSE
CONSTANT KeyMergesWsIntoHttp = FALSE
