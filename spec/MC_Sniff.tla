------------------------------ MODULE MC_Sniff ------------------------------
(* Model-checking instance of Sniff.tla and the replay domain (the vectors  *)
(* the Rust harness executes against the real crate).                       *)
EXTENDS Sniff, Json, FiniteSetsExt

CONSTANTS GenK,      \* cut bound of the printed cut sets (generation configs)
          Tier       \* "quick" | "thorough": size of the replay domain

MCCaps == {1, 5, 24, 64}
MCWindow == 32

-----------------------------------------------------------------------------
(* Replay domain.                                                           *)
(* A chunking of a window of w bytes = a set of cut positions in 1..w-1,    *)
(* printed as a bit mask (bit i-1 = cut after byte i). The cut sets of a    *)
(* shorter window are exactly the masks below 2^(w-1), so only the masks of *)
(* the 32-byte window are printed.                                          *)
RECURSIVE Pow2(_)
Pow2(n) == IF n = 0 THEN 1 ELSE 2 * Pow2(n - 1)
P2 == [i \in 0..30 |-> Pow2(i)]                       \* evaluated once
MaskOf(S) == FoldSet(LAMBDA i, acc : acc + P2[i - 1], 0, S)
CutSets(w, K) == UNION {kSubset(k, 1..(w - 1)) : k \in 0..K}
CutMasks(w, K) == {MaskOf(S) : S \in CutSets(w, K)}

(* Stream classes: (m, kind) names a concrete byte stream built by the harness (harness/src/bin/sniff.rs  *)
(* full_stream; it re-measures m on the bytes). eof classes are the first len bytes of it, then EOF.     *)
Kinds(mm) == IF mm = PLen THEN {"h2post", "h2get", "h2junk"}
             ELSE {"div"} \cup (IF mm = 0 THEN {"get"} ELSE {}) \cup (IF mm = 1 THEN {"post"} ELSE {})
                          \cup (IF mm = 11 THEN {"pri11"} ELSE {})
EofKind(mm) == IF mm = PLen THEN "h2post" ELSE "div"
ContClasses == UNION {{[m |-> mm, kind |-> k, len |-> Window, eof |-> FALSE] : k \in Kinds(mm)} : mm \in 0..PLen}
EofAll == UNION {{[m |-> mm, kind |-> EofKind(mm), len |-> l, eof |-> TRUE] : l \in mm..Window} : mm \in 0..PLen}
EofSel == {c \in EofAll : c.len \in {c.m, c.m + 1, PLen, PLen + 1, Window}}

(* Families: stream class x every cut set with <= K cuts (plus the all-ones chunking) x Pending placements *)
(* (pend modes: 0 none, 1 before every read, 2 before the first, 3 before the second, 4/5 alternating,    *)
(* 6 before the last), through one of the real entry points:                                              *)
(*   builder  = auto::Builder::serve_connection_with_upgrades (hyper::rt IO)                              *)
(*   protocol = <auto::Builder as server::Protocol>::serve_connection_with_upgrades (Connecting, TokioIo) *)
(*   server   = hyperdriver::Server with the auto protocol and a scripted acceptor                        *)
Fam(cs, e, K, pend) == {[sc |-> c, entry |-> e, K |-> K, pend |-> pend, ones |-> TRUE] : c \in cs}
AllPend == <<1, 2, 3, 4, 5, 6>>
Families ==
    IF Tier = "quick"
    THEN Fam(ContClasses, "builder", 4, <<0>>) \cup Fam(EofAll, "builder", 4, <<0>>)
         \cup Fam(ContClasses, "protocol", 4, <<0>>) \cup Fam(EofSel, "protocol", 4, <<0>>)
         \cup Fam(ContClasses \cup EofSel, "builder", 2, AllPend)
         \cup Fam(ContClasses \cup EofSel, "protocol", 1, AllPend)
         \cup Fam(ContClasses \cup EofSel, "server", 1, <<0, 1>>)
    ELSE Fam(ContClasses, "builder", 6, <<0>>) \cup Fam(EofSel, "builder", 6, <<0>>) \cup Fam(EofAll, "builder", 5, <<0>>)
         \cup Fam(ContClasses, "protocol", 6, <<0>>) \cup Fam(EofSel, "protocol", 5, <<0>>)
         \cup Fam(ContClasses \cup EofAll, "builder", 3, AllPend)
         \cup Fam(ContClasses \cup EofSel, "protocol", 3, AllPend)
         \cup Fam(ContClasses \cup EofAll, "server", 2, <<0, 1>>)

(* Direct Rewind vectors: the sniffer consumed p bytes of a len-byte stream; the inner IO delivers the    *)
(* rest in every chunking with <= K cuts; the caller reads with the given buffer capacities (cycled).     *)
CapSeqs == {<<1>>, <<2>>, <<7>>, <<23>>, <<24>>, <<25>>, <<64>>, <<1, 64>>, <<3, 1, 30>>}
RewindFamilies ==
    UNION {{[p |-> p, len |-> l, K |-> (IF Tier = "quick" THEN 2 ELSE 4), caps |-> CapSeqs] : l \in p..Window} : p \in 0..PLen}

GenPrint(k) ==     \* (a parameter keeps TLC from evaluating this as a constant in every configuration)
    /\ PrintT(<<"CUTS", ToJson([L |-> Window, K |-> k, masks |-> CutMasks(Window, k)])>>)
    /\ PrintT(<<"FAMILIES", ToJson(Families)>>)
    /\ PrintT(<<"REWIND", ToJson(RewindFamilies)>>)

(* generation config: prints the domain once, explores nothing *)
GenInit == GenPrint(GenK) /\ Init
GenNext == FALSE /\ UNCHANGED vars

=============================================================================
