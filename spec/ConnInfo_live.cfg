SPECIFICATION LiveSpec
CONSTANTS
  NConn = 2
  NReq = 1
  KindAssign <- KAPlain
  Stacks <- StacksFull
  HostAssign <- HOwn
  GateReady = TRUE
  GateMake = TRUE
  GateApp = FALSE
  AllowErr = TRUE
  AllowSignal = TRUE
  AllowFault = FALSE
  AnonDuplex = FALSE
  Variant = "ok"
PROPERTIES I4_AcceptLive
CHECK_DEADLOCK FALSE
