INIT Init
NEXT Next
INVARIANTS Consumed C10Holds C11Holds C17Holds CancelHolds
CHECK_DEADLOCK FALSE
