CONSTANTS
  NReq = 3
  NOrig = 1
  MaxDial = 3
  MaxTick = 0
  AsBuilt = {}
  Caps = {TRUE, FALSE}
  MaxIdles = {1, 2}
  IdleTimeouts = {0}
  Protos = {TRUE, FALSE}
  Faults <- NoFaults
  Spurious = FALSE
  AllowDrop = FALSE
  Durs <- Durs13
  MaxT = 6
  RespFaults = FALSE
  PreResp = FALSE
  Probe = FALSE
  AsBuiltT <- NoT
  GenDepth = 30
INIT InitH
NEXT NextH
INVARIANT Emit
CONSTRAINT StopAtDepth
CHECK_DEADLOCK FALSE
