SPECIFICATION Spec
CONSTANTS
  NConn = 2
  NReq = 2
  KindAssign <- KAMix
  Stacks <- StacksFour
  HostAssign <- HGen
  GateReady = FALSE
  GateMake = TRUE
  GateApp = TRUE
  AllowErr = TRUE
  AllowSignal = TRUE
  AllowFault = TRUE
  AnonDuplex = FALSE
  Variant = "ok"
VIEW View
INVARIANTS TypeOK I1_NoCrossInfo I1_Stable I1_SniOfThisConn I2_Presence I3_MakeOnce I3_MakeArg I3_NoMakeAfterSignal I3_NotShared I3_HandledByOwn I4_EndsOnlyOnAllowed
PROPERTIES I4_Confined I4_ServedOn
CHECK_DEADLOCK FALSE
