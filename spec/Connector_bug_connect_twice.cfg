SPECIFICATION Spec
CONSTANTS
  NCalls = 1
  Kinds <- KBoth
  Vers <- V11_2_3
  Spurious = TRUE
  MaxGen = 1
  AllowDrop = TRUE
  Look = 4
  WithSvc = FALSE
  Variant = "connect_twice"
VIEW View
CONSTRAINT Bound
INVARIANTS TypeOK K2_Once K2_Order K2_Args
CHECK_DEADLOCK FALSE
