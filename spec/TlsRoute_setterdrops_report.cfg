SPECIFICATION Spec
INVARIANT SetterDropsReport
CHECK_DEADLOCK FALSE
CONSTANT KeyMergesWsIntoHttp = FALSE
CONSTANT SetterDropsTls = TRUE
