------------------------------ MODULE SniObs ------------------------------
(***************************************************************************)
(* C20 property monitor over records taken from the REAL ValidateSNI layer *)
(* (harness bin `sni`).  Every record (abstract vector, concrete request,  *)
(* real outcome) becomes one initial state of the Sni state space in its   *)
(* "done" stage, with `out` bound to what the real code did; the property  *)
(* formula InvC20 of Sni.tla is the INVARIANT.  Run with -continue: every  *)
(* violating record is reported (BAD line + TLC's own error report).       *)
(* Differences from the intended / as-built decision functions that do not *)
(* break a clause are printed as DIFF lines (DRIFT, never a violation).    *)
(***************************************************************************)
EXTENDS Sni, Json, IOUtils

Rec == ndJsonDeserialize(IOEnv.TRACE)
N == Len(Rec)

VARIABLE l
ObsVariant == "intended"
ObsInfoVariant == "shared"

V(r) == [ver |-> r.v.ver, hosthdr |-> r.v.hosthdr, auth |-> r.v.auth, sni |-> r.v.sni, tls |-> r.v.tls]
O(r) == [kind |-> r.o.kind, validated |-> r.o.validated]

ObsInit == /\ l \in 1..N
           /\ vec = V(Rec[l])
           /\ st = "done"
           /\ out = O(Rec[l])
ObsNext == UNCHANGED <<l, vars>>

\* records of the chain binding (real TLS handshake -> info channel -> TlsConnectionInfoLayer -> ValidateSNI) carry the
\* ground truth tls = TRUE in v, whatever the middleware got to see; their family says whether a suspended request
\* future of the same connection had been cancelled before
IsChain == Rec[l].c.mode = "chain"
Family(v) == IF IsChain THEN "chain-" \o Rec[l].c.scn_class
             ELSE IF v.tls /\ v.ver = "2" /\ v.auth = "none" /\ v.hosthdr # "none" THEN "h2-host-fallback"
             ELSE IF Subject(v) /\ Match(v) /\ Bytes(NamedHost(v)) # Bytes(v.sni) THEN "letter-case"
             ELSE "other"
\* chain records: the class is the scenario's view of the request (stable under re-spelling and seed)
HostClass(v) == IF NamedHost(v) = "none" THEN "absent" ELSE IF Match(v) THEN "match" ELSE "differ"
KeyClass(v) == IF IsChain THEN <<v.ver, "host-" \o HostClass(v), "sni-" \o v.sni>> ELSE Class(v)
Key(v, o) == [family |-> Family(v), clause |-> FailedClause(v, o), class |-> KeyClass(v)]

\* tool sanity: the record is inside the domain the spec enumerates
WellFormed == /\ vec \in Vectors
              /\ out.validated \in BOOLEAN
              /\ out.kind \in {"forwarded", "rejected", "panicked", "pending", "answered_without_inner",
                               "rejected_after_inner", "inner_error", "dropped"}

\* THE PROPERTY (same formula as on the model), with a report line per violating record
\* (a request future the client cancelled has no outcome: nothing to judge)
ObsC20 == out.kind = "dropped" \/ InvC20 \/ ~PrintT(<<"BAD", ToJson([i |-> l, key |-> Key(vec, out)])>>)

\* conformance (DRIFT only): always true, prints where the real outcome is not the modelled one
ObsDrift == /\ (~IsChain \/ Rec[l].c.conforms \/ PrintT(<<"DIFFC", ToJson([i |-> l])>>))
            /\ (out.kind = "dropped" \/ out = Intended(vec) \/ PrintT(<<"DIFFI", ToJson([i |-> l])>>))
            /\ (out.kind = "dropped" \/ out = AsBuilt(vec)  \/ PrintT(<<"DIFFA", ToJson([i |-> l])>>))

Consumed == PrintT(<<"CONSUMED", TLCGet("stats").distinct, N>>) /\ TLCGet("stats").distinct = N
=============================================================================
