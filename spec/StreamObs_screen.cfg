\* C18 monitor, screening pass: prints every violating step (BAD) instead of stopping at the first
INIT ObsInit
NEXT ObsNext
VIEW ObsView
CONSTANTS
  MaxSteps = 0
  Bug = "none"
  Stacks = {}
  ReadCaps = {}
  ReadPres = {}
  UBs = {}
  WriteLens = {}
  VecLens = {}
  RInj = {}
  WInj = {}
  CInj = {}
INVARIANTS
  Screen
  Drift
