SPECIFICATION Spec
INVARIANT AsBuiltHolds
CHECK_DEADLOCK FALSE
CONSTANT KeyMergesWsIntoHttp = FALSE
CONSTANT SetterDropsTls = FALSE
