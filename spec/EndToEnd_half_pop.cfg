CONSTANTS
  Req <- MCReq3
  Conn <- MCConn2
  Origin <- MCOrigin1
  Versions <- MCH1
  Buggy <- MCBugPopOnly
  AllowBreak = FALSE
  AllowUpgrade = FALSE
INIT Init
NEXT Next
INVARIANTS TypeOK MatchedState H1ExclusiveState NoCrossOriginState FailedOnlyIfBroken
PROPERTIES Matched ResponseIntact RequestIntact H1Exclusive NoReuseAfterUpgrade NoCrossOrigin NoSpuriousFailure
CHECK_DEADLOCK FALSE
