---------------------------- MODULE EyeballsObs ----------------------------
(* Property monitor for C10 / C11.  Reads the ndjson file named by the environment variable TRACE:  *)
(* one record per scenario executed on the REAL EyeballSet (harness/src/bin/eyeballs.rs),            *)
(*   {"sid": k, "v": <scenario>, "o": <real observation>}   or, for the TCP layer (thorough tier),   *)
(*   {"sid": k, "layer": "tcp", "v": .., "o": ..},                                                   *)
(* steps through the file (Chunk records per step) and evaluates the property formulas of            *)
(* EyeballsProps.tla - the same operators that are invariants of the model Eyeballs.tla - on every   *)
(* record.  Every falsified record is printed (`VIOL`) and counted; at the end of the file the        *)
(* invariants C10Holds / C11Holds fail if any record falsified the property.  This - and only this - *)
(* decides a VIOLATION.                                                                              *)
EXTENDS EyeballsProps, TLC, Json, IOUtils

Rec == ndJsonDeserialize(IOEnv.TRACE)
Chunk == 500

VARIABLES l,        \* number of records consumed
          bad10,    \* number of records that falsify C10
          bad11     \* number of records that falsify C11

IsTcp(r) == "layer" \in DOMAIN r /\ r.layer = "tcp"

Holds10(r) == IF IsTcp(r) THEN Tcp_C10(r.v, r.o) ELSE C10(r.v, r.o)
Holds11(r) == IF IsTcp(r) THEN Tcp_C11(r.v, r.o) ELSE C11(r.v, r.o)

Clauses(r) == IF IsTcp(r) THEN Tcp_Clauses(r.v, r.o)
              ELSE C10_Clauses(r.v, r.o) \cup C11_Clauses(r.v, r.o)

\* prints a falsified record
ReportViol(k) == LET r == Rec[k] IN
  PrintT(<<"VIOL", ToJson([k |-> k, sid |-> r.sid, c10 |-> Holds10(r), c11 |-> Holds11(r), clauses |-> Clauses(r)])>>)

Init == l = 0 /\ bad10 = 0 /\ bad11 = 0
Next == /\ l < Len(Rec)
        /\ LET hi  == IF l + Chunk < Len(Rec) THEN l + Chunk ELSE Len(Rec)
               F10 == {k \in (l + 1)..hi : ~Holds10(Rec[k])}
               F11 == {k \in (l + 1)..hi : ~Holds11(Rec[k])}
           IN /\ l' = hi
              /\ bad10' = bad10 + Cardinality(F10)
              /\ bad11' = bad11 + Cardinality(F11)
              /\ \A k \in F10 \cup F11 : ReportViol(k)

\* the verdict is taken when the whole file has been consumed (so that every falsified record is reported)
AtEnd    == l = Len(Rec)
Consumed == AtEnd => PrintT(<<"CONSUMED", l>>)
C10Holds == AtEnd => bad10 = 0
C11Holds == AtEnd => bad11 = 0
=============================================================================
