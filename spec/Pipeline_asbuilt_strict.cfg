SPECIFICATION Spec
CONSTANT NbK = 2
CONSTANT SampleN = 3000
CONSTANT InitVectors <- MCInitVectors
INVARIANT AsBuiltHolds
CHECK_DEADLOCK FALSE
