CONSTANTS
    AsBuiltCompare = FALSE
    MaxCuts = 6
    Caps <- MCCaps
    Window <- MCWindow
    GenK = 6
    Tier = "thorough"
INIT GenInit
NEXT GenNext
