SPECIFICATION Spec
CONSTANT Variant <- MCIntended
CONSTANT InfoVariant <- MCShared
INVARIANT TypeOK
INVARIANT InvC20
INVARIANT InvFunctional
INVARIANT InvSameAsIntended
