INIT ObsInit
NEXT ObsNext
CONSTANT Variant <- ObsVariant
INVARIANT WellFormed
INVARIANT ObsC20
INVARIANT ObsDrift
POSTCONDITION Consumed
