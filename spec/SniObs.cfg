INIT ObsInit
NEXT ObsNext
CONSTANT Variant <- ObsVariant
CONSTANT InfoVariant <- ObsInfoVariant
INVARIANT WellFormed
INVARIANT ObsC20
INVARIANT ObsDrift
POSTCONDITION Consumed
