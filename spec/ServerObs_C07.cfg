SPECIFICATION Spec
CONSTANT Which = "C07"
INVARIANTS C07_NoAcceptAfterSignal C07_NoServiceAfterSignal C07_ReturnsOk C07_InflightCompletes C07_ToldAtMostOnce C07_OpenToldAndClosed C07_DriversEnd
