INIT Init
NEXT Next
INVARIANTS Consumed C10Holds C11Holds
CHECK_DEADLOCK FALSE
