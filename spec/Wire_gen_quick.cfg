INIT GenInitQuick
NEXT GenNext
CONSTANT HdrSets <- QuickHdrSets
CONSTANT Methods <- AllMethods
CONSTANT Schemes <- AllSchemes
