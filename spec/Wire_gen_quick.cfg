INIT GenInitQuick
NEXT GenNext
CONSTANT HdrSets <- QuickHdrSets
CONSTANT Methods <- AllMethods
CONSTANT SeqDom <- QuickSeqDom
CONSTANT Schemes <- AllSchemes
