CONSTANTS
  N = 3
  Grid <- cGrid
  Delays <- cUnused
  Timeouts <- cUnused
  Concs <- cConcs
  HeTimeouts <- cHeTimeouts
  EagerSetup = FALSE
  DelayFromDrainedList = FALSE
INIT TcpInit
NEXT TcpNext
INVARIANTS TypeOK TcpC10Inv TcpC11Inv TcpDelayInv TcpEmit
CHECK_DEADLOCK FALSE
