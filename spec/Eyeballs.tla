----------------------------- MODULE Eyeballs -----------------------------
(* Timed transcription of hyperdriver's EyeballSet (src/happy_eyeballs.rs):                        *)
(*   finish()                 overall `tokio::time::timeout(timeout, process_all())`               *)
(*   process_all()            initial batch, then one queued attempt per step, then drain          *)
(*   join_next_with_timeout() `tokio::time::timeout(delay, join_next())`                           *)
(*   join_next()              `FuturesUnordered::next()`                                           *)
(* over a discrete virtual clock.  The scenario (attempt outcomes / latencies and the three         *)
(* configuration values) is chosen in Init, so one TLC run covers the whole grid.                   *)
(*                                                                                                  *)
(* Poll order that is part of the model (and was needed to agree with the real code):               *)
(*  - `timeout(d, f)` polls f before its timer, at both nesting levels;                             *)
(*  - FuturesUnordered keeps a FIFO ready queue: tasks woken by their timer sit ahead of futures    *)
(*    pushed during the current poll; pushed futures are first-polled in push order (`fresh`);      *)
(*    poll_next returns at the FIRST ready future, so later members of a batch may never be polled. *)
(*    "started" (C10/C11) means first-polled.                                                       *)
(*  - which of two attempts whose timers fire at the same instant was woken first is left           *)
(*    nondeterministic (Complete(i) for any due i).                                                 *)
EXTENDS EyeballsProps, TLC, Json

CONSTANTS N,          \* max number of attempts
          Grid,       \* latencies
          Delays,     \* stagger delays; NONE = not configured
          Timeouts,   \* overall timeouts; NONE = not configured
          Concs       \* initial concurrency; NONE = not configured

Att == 1..N
INF == 1000

VARIABLES n, outcome, lat, delay, tmo, conc,      \* scenario (fixed in Init)
          now,        \* virtual clock
          q,          \* EyeballSet.queue
          cur,        \* the future popped by `while let Some(future) = queue.pop_front()` (0 = none)
          running,    \* attempts in `tasks` that have been polled and are pending
          fresh,      \* attempts pushed into `tasks` and not yet polled (FIFO)
          comp,       \* attempts that completed inside `tasks` (their future was released)
          start, ord, nord,
          firstErr,   \* EyeballSet.error
          phase,      \* "init" | "stagger" (the while-let loop) | "drain" (the final loop) | "done"
          stepDl,     \* deadline of the current join_next_with_timeout, NONE if delay is None
          result

scn  == <<n, outcome, lat, delay, tmo, conc>>
vars == <<n, outcome, lat, delay, tmo, conc, now, q, cur, running, fresh, comp, start, ord, nord,
          firstErr, phase, stepDl, result>>

Init ==
  /\ n \in 0..N
  /\ outcome \in [Att -> {"ok", "err", "never"}]
  /\ lat \in [Att -> Grid]
  /\ \A i \in Att : i > n => outcome[i] = "never" /\ lat[i] = 0     \* canonical padding
  /\ \A i \in Att : outcome[i] = "never" => lat[i] = 0
  /\ delay \in Delays /\ tmo \in Timeouts /\ conc \in Concs
  /\ now = 0
  /\ q = [i \in 1..n |-> i]
  /\ cur = 0 /\ running = {} /\ fresh = <<>> /\ comp = {}
  /\ start = [i \in Att |-> NONE] /\ ord = [i \in Att |-> 0] /\ nord = 0
  /\ firstErr = 0 /\ phase = "init" /\ stepDl = NONE
  /\ result = [kind |-> "none", id |-> 0, at |-> NONE]

OverallDl == IF tmo = NONE THEN INF ELSE tmo            \* finish() is first polled at t = 0
Due(i) == i \in running /\ outcome[i] # "never" /\ start[i] + lat[i] <= now
DueSet == {i \in running : Due(i)}

\* pop the next queued attempt into `cur` and arm the step timer (one iteration of the while-let loop)
NextQueued(qq) ==
  IF qq = <<>> THEN /\ phase' = "drain" /\ cur' = 0 /\ q' = <<>> /\ stepDl' = NONE
  ELSE /\ phase' = "stagger" /\ cur' = Head(qq) /\ q' = Tail(qq)
       /\ stepDl' = IF delay = NONE THEN NONE ELSE now + delay

\* for _ in 0..initial_concurrency.unwrap_or(queue.len()) { tasks.push(queue.pop_front()) }
StartInitial ==
  /\ phase = "init"
  /\ LET k == IF conc = NONE THEN Len(q) ELSE IF conc < Len(q) THEN conc ELSE Len(q)
     IN /\ fresh' = SubSeq(q, 1, k)             \* tasks.push: not polled yet
        /\ NextQueued(SubSeq(q, k + 1, Len(q)))
  /\ UNCHANGED <<scn, now, firstErr, result, running, start, ord, nord, comp>>

\* `_ => self.tasks.push(future)`
PushCur(fr) ==
  /\ fresh' = Append(fr, cur)
  /\ NextQueued(q)

\* a woken attempt is polled and found Ready (ties: any due attempt may have been woken first)
Complete(i) ==
  /\ phase \in {"stagger", "drain"} /\ Due(i)
  /\ running' = running \ {i} /\ comp' = comp \cup {i}
  /\ IF outcome[i] = "ok"
     THEN /\ result' = [kind |-> "ok", id |-> i, at |-> now] /\ phase' = "done"
          /\ UNCHANGED <<firstErr, q, cur, stepDl, fresh>>
     ELSE /\ firstErr' = IF firstErr = 0 THEN i ELSE firstErr
          /\ IF phase = "stagger" THEN PushCur(fresh) ELSE UNCHANGED <<q, cur, stepDl, phase, fresh>>
          /\ UNCHANGED result
  /\ UNCHANGED <<scn, now, start, ord, nord>>

\* first poll of a pushed future, in push order; FuturesUnordered returns at the first Ready one
PollFresh ==
  /\ phase \in {"stagger", "drain"} /\ DueSet = {} /\ fresh # <<>>
  /\ LET i == Head(fresh) IN
     /\ start' = [start EXCEPT ![i] = now] /\ nord' = nord + 1 /\ ord' = [ord EXCEPT ![i] = nord + 1]
     /\ IF outcome[i] # "never" /\ lat[i] = 0
        THEN \* ready on its first poll
             /\ comp' = comp \cup {i} /\ UNCHANGED running
             /\ IF outcome[i] = "ok"
                THEN /\ result' = [kind |-> "ok", id |-> i, at |-> now] /\ phase' = "done"
                     /\ fresh' = Tail(fresh)
                     /\ UNCHANGED <<firstErr, q, cur, stepDl>>
                ELSE /\ firstErr' = IF firstErr = 0 THEN i ELSE firstErr
                     /\ IF phase = "stagger" THEN PushCur(Tail(fresh))
                        ELSE /\ fresh' = Tail(fresh) /\ UNCHANGED <<q, cur, stepDl, phase>>
                     /\ UNCHANGED result
        ELSE /\ running' = running \cup {i} /\ fresh' = Tail(fresh)
             /\ UNCHANGED <<firstErr, q, cur, stepDl, phase, result, comp>>
  /\ UNCHANGED <<scn, now>>

\* FuturesUnordered is empty: tasks.next() = None
Exhausted ==
  /\ phase \in {"stagger", "drain"} /\ running = {} /\ fresh = <<>>
  /\ IF phase = "stagger"
     THEN /\ PushCur(fresh) /\ UNCHANGED <<result, firstErr>>
     ELSE /\ result' = IF firstErr # 0 THEN [kind |-> "err", id |-> firstErr, at |-> now]
                       ELSE [kind |-> "noprogress", id |-> 0, at |-> now]
          /\ phase' = "done"
          /\ UNCHANGED <<q, cur, stepDl, firstErr, fresh>>
  /\ UNCHANGED <<scn, now, running, start, ord, nord, comp>>

\* the per-step timeout fires (join_next was polled first and found nothing)
StepTick ==
  /\ phase = "stagger" /\ running # {} /\ DueSet = {} /\ fresh = <<>>
  /\ stepDl # NONE /\ stepDl <= now
  /\ PushCur(fresh)
  /\ UNCHANGED <<scn, now, firstErr, result, running, start, ord, nord, comp>>

InnerQuiet == /\ phase \in {"stagger", "drain"} /\ DueSet = {} /\ running # {} /\ fresh = <<>>
              /\ ~(phase = "stagger" /\ stepDl # NONE /\ stepDl <= now)

\* the overall deadline fires (process_all was polled first and is pending)
Deadline ==
  /\ InnerQuiet /\ OverallDl <= now
  /\ result' = [kind |-> "timeout", id |-> 0, at |-> now]
  /\ phase' = "done"
  /\ UNCHANGED <<scn, now, q, cur, running, start, ord, nord, comp, firstErr, stepDl, fresh>>

NextEvents == {start[i] + lat[i] : i \in {j \in running : outcome[j] # "never"}}
              \cup (IF phase = "stagger" /\ stepDl # NONE THEN {stepDl} ELSE {})
              \cup (IF tmo # NONE THEN {OverallDl} ELSE {})
SMin(S) == CHOOSE x \in S : \A y \in S : x <= y

\* nothing can happen at this instant: the paused clock jumps to the next timer (or nothing ever happens)
Advance ==
  /\ InnerQuiet /\ OverallDl > now
  /\ IF NextEvents = {}
     THEN /\ result' = [kind |-> "hang", id |-> 0, at |-> NONE] /\ phase' = "done" /\ now' = now
     ELSE /\ now' = SMin(NextEvents) /\ UNCHANGED <<result, phase>>
  /\ UNCHANGED <<scn, q, cur, running, start, ord, nord, comp, firstErr, stepDl, fresh>>

Next == StartInitial \/ (\E i \in Att : Complete(i)) \/ PollFresh \/ Exhausted \/ StepTick \/ Deadline \/ Advance
Spec == Init /\ [][Next]_vars

---------------------------------------------------------------------------
(* scenario and observation of the model, in the shape EyeballsProps talks about *)
Done == phase = "done"
V == [n |-> n, oc |-> [i \in Att |-> outcome[i]], lat |-> [i \in Att |-> lat[i]],
      delay |-> delay, tmo |-> tmo, conc |-> conc]
\* the caller drops the set when finish() returns; completed attempts were released when they completed
DropOf(i) == IF i > n THEN NONE
             ELSE IF i \in comp THEN start[i] + lat[i]
             ELSE IF result.kind = "hang" THEN NONE ELSE result.at
O == [kind |-> result.kind, id |-> result.id, at |-> result.at,
      start |-> [i \in Att |-> start[i]], ord |-> [i \in Att |-> ord[i]], drop |-> [i \in Att |-> DropOf(i)]]

\* the property formulas as invariants of the model (terminal states)
C10Inv == Done => C10(V, O)
C11Inv == Done => C11(V, O)

\* model-only facts (stronger than the properties; a real observation that breaks one of them is DRIFT)
Tight == Done =>
  /\ (result.kind = "ok" => result.at = start[result.id] + lat[result.id])                  \* returned at once
  /\ ((\E i \in Succ(V, O) : tmo # NONE /\ Fin(V, O, i) = tmo) => result.kind = "ok")       \* inner polled first
  /\ (result.kind = "timeout" => result.at = tmo)
  /\ (result.kind = "err" => \A i \in 1..n : Fin(V, O, i) <= result.at /\ \E j \in 1..n : Fin(V, O, j) = result.at)
  /\ (\A k \in Started(V, O) : k <= InitialAllowed(V) => start[k] = 0)                      \* batch starts at 0
  /\ (result.kind = "hang" => \A i \in 1..n : outcome[i] = "ok" => start[i] = NONE)

TypeOK == /\ n \in 0..N /\ now \in 0..INF /\ phase \in {"init", "stagger", "drain", "done"}
          /\ running \subseteq 1..n /\ comp \subseteq 1..n /\ cur \in 0..n

\* generation: one JSON line per terminal state = (scenario, one allowed observation)
Emit == Done => PrintT(<<"VEC", ToJson([v |-> V, o |-> O])>>)
=============================================================================
