\* TlsStream monitor: the clauses T1..T5 as INVARIANTs over the recorded real observations (decides); Report prints
\* every falsified observation (BAD) and the first model drift of every schedule (DRIFT) and is never false
INIT ObsInit
NEXT ObsNext
VIEW ObsView
CONSTANTS
  MaxOps = 0
  MaxBytes = 0
  MaxRx = 0
  Bug = "asbuilt"
  Sides = {}
  Certs = {}
  ReadCaps = {}
  WriteLens = {}
  SendLens = {}
INVARIANTS
  I_Sane
  Report
  I_T1_PrefixOut I_T1_PrefixIn I_T1_WriteRet I_T1_EofReal I_T1_EofProp I_T1_ErrProp I_T1_LossReported I_T1_FlushDelivers I_T1_FlushHonest I_T1_AtEnd
  I_T3_PendArmed I_NoPanic I_T2_NoClear I_T3_StallPending I_T3_NoFalseSuccess I_T5_OkMeansDone I_T3_NoSpin I_T3_ShutdownReady
  I_T3_FailReported I_T3_FailedSticky I_T4_SniEqual I_T4_AlpnEqual I_T4_Available I_T4_Lost I_T4_Stable I_T4_NotBeforeSuccess I_T4_NeverOnFail
  I_T5_Idempotent
