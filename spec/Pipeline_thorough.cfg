SPECIFICATION Spec
CONSTANT NbK = 3
CONSTANT SampleN = 60000
CONSTANT InitVectors <- MCInitVectors
INVARIANT TypeOK
INVARIANT Progress
INVARIANT M_NoPanic
INVARIANT M_Returns
INVARIANT M_NoStall
CHECK_DEADLOCK FALSE
