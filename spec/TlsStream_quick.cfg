\* TlsStream model check, quick: every behaviour of <= 7 steps, both sides, trusted and untrusted certificate
SPECIFICATION Spec
CONSTANTS
  MaxOps = 7
  MaxBytes = 3
  MaxRx = 1
  Bug = "none"
  Sides <- MCSides
  Certs <- MCCerts
  ReadCaps <- MCReadCaps
  WriteLens <- MCWriteLens
  SendLens <- MCSendLens
VIEW MCView
INVARIANTS
  TypeOK
  T1_PrefixOut T1_PrefixIn T1_Quiet T1_EofReal T1_ErrProp T1_FlushDelivers T1_Accounted
  T2_NoClear T2_NoEarly T2_OkMeansUp
  T3_StallPending T3_ShutdownReady T3_FailedSticky T3_NoPanic T3_FailReported
  T4_Once T4_AfterSuccess T4_Available T4_NeverOnFail
  T5_Idempotent
  CovPrint
