------------------------------ MODULE TlsRoute ------------------------------
(***************************************************************************)
(* C12 -- with TLS configured, https/wss is never sent in the clear.        *)
(*                                                                         *)
(* A "vector spec": Init chooses one abstract request/peer vector from the *)
(* full cross product of input classes, the actions below are a            *)
(* transcription of the code's routing pipeline                            *)
(*   TlsTransport::call            src/client/conn/transport/mod.rs        *)
(*   TlsTransportWrapper::call     src/client/conn/transport/tls.rs        *)
(*   TlsConnectionFuture::poll     src/client/conn/transport/tls.rs        *)
(*   Stream::tls / TlsStream::new  src/client/conn/stream/{mod,tls}.rs     *)
(*   TlsStream::handshake          src/client/conn/stream/tls.rs           *)
(* and record in `out` what an observer at the peer and at the caller      *)
(* sees.  The property clauses P_xxx are stated over   (vector, observation)  *)
(* only -- the same formulas are the invariants of TlsRouteObs.tla, where   *)
(* the observation comes from the REAL code.                               *)
(*                                                                         *)
(* `asBuilt` (a variable fixed in Init, DESIGN 2.4) selects the            *)
(* transcription of the pinned tree where it deviates from the property:   *)
(*   - TlsStream::new `expect`s ServerName::try_from(uri.host()): a        *)
(*     bracketed IPv6 literal and every URI host that is not a DNS name or  *)
(*     an IP address panics                                    (DESIGN D9)  *)
(*   - TlsTransport::call matches scheme_str() against "https" | "wss"      *)
(*     byte for byte; http::Uri normalises HTTP/HTTPS but keeps the case of *)
(*     every other scheme, so WSS://host/ is routed as plaintext   (D14)    *)
(***************************************************************************)
EXTENDS Naturals, Sequences, FiniteSets, TLC

\* TRUE: the pool key is computed as by a `UriKey` that files `ws` and `wss` under `http` ("a WebSocket handshake
\* is an ordinary HTTP/1.1 request, share the HTTP pool"). Not the behaviour of any tree that was pinned: a
\* seeded-change style variant kept so that TLC demonstrably refutes it (TlsRoute_keymerge.cfg).
CONSTANT KeyMergesWsIntoHttp

\* TRUE: a `client::Builder` setter that reconstructs the builder (`Builder { .. }`: with_tcp, with_transport,
\* with_auto_http, with_protocol, with_redirect_policy, without_redirects, with_standard_redirect_policy, with_body,
\* layer) forgets the TLS configuration set before it. Not the behaviour of the pinned tree: a seeded-change style
\* variant that TLC must refute (TlsRoute_setterdrops.cfg).
CONSTANT SetterDropsTls

Vias     == {"transport", "client"}      \* TlsTransport called directly | Client built by client::Builder
Wrappers == {"tls", "plain"}             \* TlsTransport with / without a TLS configuration
Schemes  == {"http", "https", "ws", "wss", "other"}
SCases   == {"lower", "upper"}           \* spelling of the scheme: all lower case | some upper-case letter
Hosts    == {"name", "v4", "v6", "odd"}  \* DNS name | IPv4 literal | bracketed IPv6 literal | URI-legal, neither
Ports    == {"absent", "default", "other"}
Certs    == {"match", "mismatch", "untrusted"}
CAlpns   == {"none", "both", "h2"}       \* client offer: nothing | h2,http/1.1 | h2
SAlpns   == {"none", "h1", "both"}       \* server support: nothing | http/1.1 | h2,http/1.1
Faults   == {"none", "peerCloses", "peerPlaintext", "truncated"}
\* WIRING: how the TLS state of the client under test was configured. "direct": TlsTransport built by hand
\* (via = "transport"). For via = "client" the call order on client::Builder; `TLS` stands for with_tls(config)
\* when wrapper = "tls" and without_tls() when wrapper = "plain" -- the state at build time must be the last one set,
\* whatever other setters are called in between.
ClientWirings == {"transport-then-tls",        \* .with_protocol.with_transport.with_default_pool.TLS
                  "tls-then-transport",        \* .with_protocol.with_default_pool.TLS.with_transport
                  "tls-then-protocol",         \* .with_transport.with_default_pool.TLS.with_protocol | with_auto_http
                  "tls-then-tcp-transport",    \* .TLS.with_tcp.with_transport
                  "tls-then-redirect",         \* .TLS.with_redirect_policy | without_redirects | with_standard_redirect_policy
                  "tls-then-body-layer",       \* .TLS.with_body.layer
                  "tls-then-mutators",         \* .TLS.with_pool.with_timeout.with_user_agent.without_timeout (no rebuild)
                  "default-then-transport",    \* Client::build_tcp_http() (default TLS: platform roots) [.without_tls] .with_transport
                  "tls-reset",                 \* the opposite state first, then TLS (no rebuild)
                  "accessor-then-transport"}   \* *builder.tls() = Some(config) | None, then .with_transport
Wirings == {"direct"} \cup ClientWirings
\* wirings in which a reconstructing setter runs after the TLS state was set
RebuildAfterTls == {"tls-then-transport", "tls-then-protocol", "tls-then-tcp-transport", "tls-then-redirect",
                    "tls-then-body-layer", "default-then-transport", "accessor-then-transport"}
\* HISTORY: the request under test is issued on a pooled client after a previous request to the SAME authority
Prevs    == {"none", "http", "ws", "https", "wss"}   \* scheme of the previous request ("none": fresh client)
Hists    == {"idle", "inflight"}   \* previous request completed, its HTTP/1.1 connection idle in the pool |
                                   \* previous request still in flight on an HTTP/2 connection

VARIABLES v,        \* the vector
          asBuilt,  \* which transcription
          pc,       \* pipeline stage
          out       \* observation

vars == <<v, asBuilt, pc, out>>

Secure(x) == x.scheme \in {"https", "wss"}
TlsOn(x)  == x.wrapper = "tls"
Must(x)   == TlsOn(x) /\ Secure(x)       \* the requests the first sentence of C12 speaks about

\* dimensions that only matter when a TLS handshake is attempted are pinned otherwise; a history exists only on
\* the pooled stack with a TLS configuration, a cooperative peer, and the protocol the history needs
\* (idle: HTTP/1.1, no ALPN; in flight: HTTP/2 by ALPN on TLS and by prior knowledge on plaintext)
Pinned(x) == x.cert = "match" /\ x.calpn = "both" /\ x.salpn = "both" /\ x.fault = "none"
CanonicalHist(x) ==
  IF x.prev = "none"
    THEN x.hist = "idle" /\ (Must(x) \/ Pinned(x))
    ELSE /\ x.via = "client" /\ x.wrapper = "tls" /\ x.host # "odd" /\ x.cert = "match" /\ x.fault = "none"
         /\ (x.hist = "idle" => x.calpn = "none" /\ x.salpn = "none")
         /\ (x.hist = "inflight" => x.calpn = "both" /\ x.salpn = "both")
Canonical(x) ==
  /\ (x.via = "transport") = (x.wiring = "direct")
  /\ (x.wiring \notin {"direct", "transport-then-tls"} => x.prev = "none" /\ Pinned(x))   \* wirings x cooperative peer
  /\ CanonicalHist(x)

Vectors == {x \in [via : Vias, wrapper : Wrappers, scheme : Schemes, scase : SCases, host : Hosts, port : Ports,
                   cert : Certs, calpn : CAlpns, salpn : SAlpns, fault : Faults, prev : Prevs, hist : Hists,
                   wiring : Wirings] :
              Canonical(x)}

\* An observation: what the caller got and what the peer saw, per vector.
NoObs == [result     |-> "none",  \* "ok" (a stream / a response) | "error" | "panic" | "none" (never resolved)
          firsts     |-> {},      \* classes of the first bytes of each connection at the peer: "tls" | "plain"
          carrier    |-> "none",  \* how the caller's application data reached the peer: "tls" | "plain" | "none"
          leak       |-> FALSE,   \* the application data is readable in the raw bytes on the wire
          snis       |-> {},      \* server names offered in ClientHellos: "host" | "absent" | "wrong"
          verifies   |-> {},      \* names the certificate verifier was asked to check: "host" | "wrong"
          clientTls  |-> "na",    \* the returned stream reports a completed TLS session: "yes" | "no" | "na"
          shared     |-> FALSE,   \* the request under test travelled on the connection of the previous request
          peerHs     |-> FALSE,   \* the peer completed a TLS handshake
          taskPanics |-> 0]       \* panics outside the caller's task

Init == /\ v \in Vectors
        /\ asBuilt \in BOOLEAN
        /\ pc = "pool"
        /\ out = NoObs

\* ---- Pool::checkout: the key of a request is UriKey(scheme, authority) -------------------------------
\* The previous request went to the same authority, so two keys are equal iff their scheme components are.
\* (http::uri::Scheme compares and hashes case-insensitively.)
KeyScheme(s) == IF KeyMergesWsIntoHttp /\ s \in {"ws", "wss"} THEN "http" ELSE s
SameKey == v.prev # "none" /\ KeyScheme(v.prev) = KeyScheme(v.scheme)
\* how the previous request's connection was made (TlsTransport::call on the previous URI, lower-case scheme)
PrevTls == v.prev \in {"https", "wss"}

PoolMiss ==                             \* no connection under this key: dial (Connector -> TlsTransport::call)
  /\ pc = "pool" /\ ~SameKey
  /\ pc' = "call" /\ UNCHANGED <<v, asBuilt, out>>

PoolReuse ==                            \* idle HTTP/1.1 connection popped / HTTP/2 connection multiplexed
  /\ pc = "pool" /\ SameKey
  /\ out' = [out EXCEPT !.result = "ok", !.shared = TRUE,
                        !.firsts = {IF PrevTls THEN "tls" ELSE "plain"},
                        !.carrier = IF PrevTls THEN "tls" ELSE "plain",
                        !.leak = ~PrevTls,
                        !.snis = IF PrevTls THEN {IF v.host = "name" THEN "host" ELSE "absent"} ELSE {},
                        !.verifies = IF PrevTls THEN {"host"} ELSE {},
                        !.peerHs = PrevTls]
  /\ pc' = "done" /\ UNCHANGED <<v, asBuilt>>

\* ---- TlsTransport::call ----------------------------------------------------------------------
\* scheme_str(): http::Uri lower-cases "http"/"https" (Scheme2::Standard), every other scheme keeps its spelling
SchemeStrIsSecure ==
  \/ v.scheme = "https"
  \/ v.scheme = "wss" /\ (v.scase = "lower" \/ ~asBuilt)

\* build_service: transport.with_optional_tls(self.tls): the braid is Tls iff the builder still holds a configuration
TlsAtBuild == v.wrapper = "tls" /\ ~(SetterDropsTls /\ v.wiring \in RebuildAfterTls)
\* the default builder's configuration trusts the platform roots, not the test CA, and carries no recording verifier
ClientTrusts == v.wiring # "default-then-transport"

CallPlainBraid ==                       \* InnerBraid::Plain(inner) => inner.connect(parts)
  /\ pc = "call" /\ ~TlsAtBuild
  /\ pc' = "connectPlain" /\ UNCHANGED <<v, asBuilt, out>>

CallTlsBraidSecure ==                   \* InnerBraid::Tls(inner) if use_tls => inner.call(parts)
  /\ pc = "call" /\ TlsAtBuild /\ SchemeStrIsSecure
  /\ pc' = "wrapperCall" /\ UNCHANGED <<v, asBuilt, out>>

CallTlsBraidOther ==                    \* InnerBraid::Tls(inner) => inner.transport_mut().connect(parts)
  /\ pc = "call" /\ TlsAtBuild /\ ~SchemeStrIsSecure
  /\ pc' = "connectPlain" /\ UNCHANGED <<v, asBuilt, out>>

\* ---- plain route: Stream::new(io) (TlsBraid::NoTls), the caller writes to it -----------------
ConnectPlain ==
  /\ pc = "connectPlain"
  /\ out' = [out EXCEPT !.result = "ok", !.firsts = {"plain"}, !.carrier = "plain", !.leak = TRUE, !.clientTls = "no"]
  /\ pc' = "done" /\ UNCHANGED <<v, asBuilt>>

\* ---- TlsTransportWrapper::call: host = uri.host() (every absolute URI has one), connect ---------
WrapperCall ==
  /\ pc = "wrapperCall"
  /\ pc' = "newTlsStream" /\ UNCHANGED <<v, asBuilt, out>>

\* ---- TlsConnectionFuture Connecting -> Stream::tls(domain) -> TlsStream::new ---------------------
\* rustls ServerName::try_from(&str): DnsName | IpAddress (no brackets) | Err
NameConverts == v.host \in {"name", "v4"} \/ (~asBuilt /\ v.host = "v6")

NewTlsStreamOk ==
  /\ pc = "newTlsStream" /\ NameConverts
  /\ pc' = "handshake" /\ UNCHANGED <<v, asBuilt, out>>

NewTlsStreamPanic ==                    \* .expect("should be valid dns name")
  /\ pc = "newTlsStream" /\ ~NameConverts /\ asBuilt
  /\ out' = [out EXCEPT !.result = "panic"]
  /\ pc' = "done" /\ UNCHANGED <<v, asBuilt>>

NewTlsStreamError ==                    \* intended: an invalid server name is an error
  /\ pc = "newTlsStream" /\ ~NameConverts /\ ~asBuilt
  /\ out' = [out EXCEPT !.result = "error"]
  /\ pc' = "done" /\ UNCHANGED <<v, asBuilt>>

\* ---- TlsStream::handshake (tokio_rustls::Connect) against the peer ------------------------------
Sni == IF v.host = "name" THEN "host" ELSE "absent"     \* RFC 6066: no IP literals in server_name
AlpnDisjoint == v.calpn = "h2" /\ v.salpn = "h1"         \* server answers no_application_protocol

Hello == [out EXCEPT !.firsts = {"tls"}, !.snis = {Sni}]       \* the ClientHello is on the wire in every case

HandshakeFault ==                       \* peer closes | answers in plaintext | flight truncated
  /\ pc = "handshake" /\ v.fault # "none"
  /\ out' = [Hello EXCEPT !.result = "error"]
  /\ pc' = "done" /\ UNCHANGED <<v, asBuilt>>

HandshakeAlpnRefused ==
  /\ pc = "handshake" /\ v.fault = "none" /\ AlpnDisjoint
  /\ out' = [Hello EXCEPT !.result = "error"]
  /\ pc' = "done" /\ UNCHANGED <<v, asBuilt>>

HandshakeCertRejected ==                \* verifier asked for the host, says no
  /\ pc = "handshake" /\ v.fault = "none" /\ ~AlpnDisjoint /\ (v.cert # "match" \/ ~ClientTrusts)
  /\ out' = [Hello EXCEPT !.result = "error", !.verifies = IF ClientTrusts THEN {"host"} ELSE {}]
  /\ pc' = "done" /\ UNCHANGED <<v, asBuilt>>

HandshakeOk ==                          \* Poll::Ready(Ok(stream)) only now: handshake complete
  /\ pc = "handshake" /\ v.fault = "none" /\ ~AlpnDisjoint /\ v.cert = "match" /\ ClientTrusts
  /\ out' = [Hello EXCEPT !.result = "ok", !.verifies = {"host"}, !.carrier = "tls", !.clientTls = "yes", !.peerHs = TRUE]
  /\ pc' = "done" /\ UNCHANGED <<v, asBuilt>>

Next == \/ PoolMiss \/ PoolReuse
        \/ CallPlainBraid \/ CallTlsBraidSecure \/ CallTlsBraidOther \/ ConnectPlain \/ WrapperCall
        \/ NewTlsStreamOk \/ NewTlsStreamPanic \/ NewTlsStreamError
        \/ HandshakeFault \/ HandshakeAlpnRefused \/ HandshakeCertRejected \/ HandshakeOk

Spec == Init /\ [][Next]_vars

\* ---- the property, clause by clause, over (vector x, observation o) -----------------------------
\* (1) never in the clear: no connection starts with plaintext, the application data is neither carried by a
\*     plaintext connection nor readable on the wire
P_NoClear(x, o) == Must(x) => "plain" \notin o.firsts /\ o.carrier # "plain" /\ ~o.leak
\* (2) carried only over a completed handshake whose offered and checked name is the URI host.
\*     RFC 6066 forbids IP literals in server_name: for an IP-literal host "the server name offered" is none and
\*     the URI host must still be the name the certificate is checked against.
ExpSni(x) == IF x.host = "name" THEN "host" ELSE "absent"
P_Established(x, o) == Must(x) /\ o.result = "ok" =>
                          /\ o.carrier = "tls" /\ "tls" \in o.firsts /\ o.peerHs /\ o.clientTls # "no"
                          /\ (x.host # "odd" => ExpSni(x) \in o.snis /\ "host" \in o.verifies)
\*     whatever was offered / checked, also in handshakes that fail, is the URI host
P_Name(x, o) == Must(x) /\ x.host # "odd" => o.snis \subseteq {ExpSni(x)} /\ o.verifies \subseteq {"host"}
\* (3) a handshake or verification failure is an error, never a usable stream
Failing(x) == x.cert # "match" \/ x.fault # "none"
P_FailIsError(x, o) == Must(x) /\ Failing(x) => o.result # "ok" /\ o.carrier = "none" /\ ~o.peerHs
\* (4) other schemes are not wrapped
P_OtherNotWrapped(x, o) == ~Secure(x) => "tls" \notin o.firsts /\ o.snis = {} /\ o.clientTls # "yes"
                                          /\ (o.result = "ok" => o.carrier = "plain")
\* (6) pooled connections are only shared between requests whose scheme class (secure / not) agrees: otherwise
\*     an https/wss request rides a plaintext connection (1) or another scheme's request is wrapped (4)
P_PoolClass(x, o) == TlsOn(x) /\ o.shared => (x.prev \in {"https", "wss"}) = Secure(x)
\* (5) every host form yields a stream or an error: no panic (caller or spawned task), no request left unresolved
P_Outcome(x, o) == o.result \in {"ok", "error"} /\ o.taskPanics = 0

Done == pc = "done"
Claimed == Done /\ ~asBuilt             \* the claimed model is the intended transcription

M_NoClear         == Claimed => P_NoClear(v, out)
M_Established     == Claimed => P_Established(v, out)
M_Name            == Claimed => P_Name(v, out)
M_FailIsError     == Claimed => P_FailIsError(v, out)
M_OtherNotWrapped == Claimed => P_OtherNotWrapped(v, out)
M_Outcome         == Claimed => P_Outcome(v, out)
M_PoolClass       == Claimed => P_PoolClass(v, out)

\* the same clauses on the as-built transcription (expected to FAIL on the pinned tree: D9, D14)
AB == Done /\ asBuilt
AB_NoClear  == AB => P_NoClear(v, out)
AB_Outcome  == AB => P_Outcome(v, out)
AB_Rest     == AB => /\ P_Established(v, out) /\ P_Name(v, out) /\ P_FailIsError(v, out)
                         /\ P_OtherNotWrapped(v, out) /\ P_PoolClass(v, out)

TypeOK == /\ v \in Vectors /\ asBuilt \in BOOLEAN
          /\ pc \in {"pool", "call", "connectPlain", "wrapperCall", "newTlsStream", "handshake", "done"}
          /\ out.result \in {"none", "ok", "error", "panic"}
\* every vector terminates in an outcome (no stage without a successor)
Progress == pc # "done" => ENABLED Next

\* outcome class in the vocabulary shared with the harness
Class(o) == IF o.result = "ok" THEN (IF o.carrier = "tls" THEN "tls-stream" ELSE "plain-stream") ELSE o.result
=============================================================================
