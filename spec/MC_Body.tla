------------------------------ MODULE MC_Body ------------------------------
(* Model-checking / generation instance of Body.tla: the stacks, constant sets, VIEW, JSON printing. *)
EXTENDS Body, Json, IOUtils

NameOf(var, wire, side, known, boxed) ==
  LET base == CASE var = "EMPTY" -> "empty" [] var = "FULL" -> "full"
                [] OTHER -> "incoming-" \o wire \o "-" \o side \o "-" \o (IF known THEN "cl" ELSE "nocl")
  IN IF boxed THEN base \o "+boxed" ELSE base
St(var, ctor, boxed, wire, side, known) ==
  [name |-> NameOf(var, wire, side, known, boxed), var |-> var, ctor |-> ctor, boxed |-> boxed, wire |-> wire, side |-> side, known |-> known]

(* one representative per model shape (constructor, side and layer are names: the model is the same) *)
MCModelStacks ==
       { St("EMPTY", "empty", b, "none", "none", TRUE) : b \in BOOLEAN }
  \cup { St("FULL", c, b, "none", "none", TRUE) : c \in {"full", "from_string"}, b \in BOOLEAN }
  \cup { St("INC", "from_incoming", b, w, "resp", k) : b \in BOOLEAN, w \in {"h1", "h2"}, k \in BOOLEAN }

(* every stack the harness can build through the public API *)
MCRealStacks ==
       { St("EMPTY", c, b, "none", "none", TRUE) : c \in {"empty", "default", "from_empty", "from_string"}, b \in BOOLEAN }
  \cup { St("FULL", c, b, "none", "none", TRUE) : c \in {"full", "from_bytes", "from_str", "from_vec", "from_full", "from_string"}, b \in BOOLEAN }
  \cup { St("INC", "from_incoming", b, w, s, k) : b \in BOOLEAN, w \in {"h1", "h2"}, s \in {"req", "resp"}, k \in BOOLEAN }
  \cup { St("INC", "req_layer", b, w, "req", k) : b \in BOOLEAN, w \in {"h1", "h2"}, k \in BOOLEAN }
  \cup { St("INC", "resp_layer", b, w, "resp", k) : b \in BOOLEAN, w \in {"h1", "h2"}, k \in BOOLEAN }

MCRealDirect == {s \in MCRealStacks : s.var # "INC"}

L012 == {0, 1, 2}
L02  == {0, 2}
L13  == {1, 3}
F123 == {1, 2, 3}

(* pure model checking: the history is not part of the state *)
MCView == <<stack, src, ms, ref, bad, ev>>

(* generation: one JSON line per behaviour *)
Beh  == [stack |-> stack, items |-> src, ops |-> hist]
Done == ms.i >= MaxSteps \/ ms.gone
Emit == Done => PrintT(<<"VEC", ToJson(Beh)>>)
\* uniform simulation over-samples the step that ends everything and the clone that never succeeds: late / once
GenNext == \/ Feed \/ Poll
           \/ (Clone /\ (Clonable(stack) \/ ms.i = 1))
           \/ (Drop /\ ms.i + 2 >= MaxSteps)
SpecGen == Init /\ [][GenNext]_vars
=============================================================================
