\* TlsStream vacuity guard / standing demonstration: the design variant "flushinner" MUST violate T1_FlushDelivers
SPECIFICATION Spec
CONSTANTS
  MaxOps = 7
  MaxBytes = 3
  MaxRx = 1
  Bug = "flushinner"
  Sides <- MCSides
  Certs <- MCCertsOk
  ReadCaps <- MCReadCaps
  WriteLens <- MCWriteLens
  SendLens <- MCSendLens
VIEW MCView
INVARIANTS
  T1_FlushDelivers
