------------------------------ MODULE Connector ------------------------------
(***************************************************************************)
(* The connector state machine and the pool-less client path               *)
(* (/repo/src/client/conn/connector.rs, src/service/client.rs).            *)
(*                                                                         *)
(* One CALL is either                                                      *)
(*   kind "svc": `ConnectorService::call(req)` -> `ResponseFuture`          *)
(*               (version gate, connector, then the inner service is       *)
(*               called with `ExecuteRequest::new(conn, req)`), or          *)
(*   kind "fut": `Connector::new(t, p, parts, proto).into_future()` ->       *)
(*               `ConnectorFuture` (resolves to the connection; this is the *)
(*               object every pool checkout drives through poll_connector). *)
(*                                                                         *)
(* Pool.tla abstracts a dial as two environment gates (EnvConnect,         *)
(* EnvHandshake); here the dial is the real four stages, each awaiting one *)
(* THING that the environment decides:                                     *)
(*                                                                         *)
(*   state of the code          thing awaited              gate           *)
(*   PollReadyTransport         Transport::poll_ready      "tready"       *)
(*   Connect                    the transport's future     "connect"      *)
(*   PollReadyHandshake         Protocol::poll_ready       "pready"       *)
(*   Handshake                  the protocol's future      "handshake"    *)
(*   ResponseFutureState::Request   the inner service's future  "send"    *)
(*   ResponseFutureState::ConnectionError   nothing ("verr")              *)
(*                                                                         *)
(* A gate is "none" (the thing answers Pending), "ok" or "err"; the         *)
(* environment decides a gate once, at any time from the call's start on    *)
(* (also before the stage is reached: then one poll runs through several   *)
(* stages, as the `loop` in poll_connector / ResponseFuture::poll does).    *)
(*                                                                         *)
(* Wakers.  A thing that answers Pending keeps the waker of the context it *)
(* was polled with.  The caller may poll with a NEW waker at any poll (the *)
(* future moved to another task, select!, FuturesUnordered): wakers carry a *)
(* generation; opening a gate wakes the waker the thing holds; the call is  *)
(* `woken` only if that is the waker of its latest poll.                    *)
(*                                                                         *)
(* Executor.  Poll(c) when not yet polled or woken (a correct executor);    *)
(* with Spurious also otherwise.  Cancel(c) = drop of the call's future at  *)
(* any stage.  Calls are made on clones of one service: they share nothing  *)
(* but clones of the transport / protocol / inner service (every call gets  *)
(* its own clones), which is why every variable below is indexed by call.   *)
(*                                                                         *)
(* `Variant` selects seeded defects of the model (vacuity guard): every one *)
(* of them must be refuted by TLC.                                          *)
(***************************************************************************)
EXTENDS Naturals, Sequences, FiniteSets, TLC

CONSTANTS NCalls,      \* number of calls
          Kinds,       \* subset of {"svc", "fut"}
          Vers,        \* request versions: subset of {"h09","h10","h11","h2","h3"}
          Spurious,    \* polls without a wake-up are possible
          MaxGen,      \* number of times a call may change its waker
          AllowDrop,   \* Cancel is possible
          Look,        \* the environment decides gates up to this many stages ahead of the call's stage
          WithSvc,     \* ConnectorService::poll_ready is exercised
          Variant      \* "ok" or a seeded defect

Calls == 1..NCalls
Things == <<"tready", "connect", "pready", "handshake", "send">>
ThingSet == {Things[i] : i \in 1..5}
Idx(x) == CHOOSE i \in 1..5 : Things[i] = x
LiveSt == {"verr", "tready", "connect", "pready", "handshake", "send"}
FinalSt == {"done", "dropped"}
Resources == {"tc", "tf", "io", "pc", "hf", "cn", "sc", "sf"}
        \* transport clone, transport future, stream, protocol clone, handshake future, connection,
        \* inner-service clone, inner-service future

(* HttpProtocol::from_version: 0.9 / 1.0 / 1.1 -> Http1, 2 -> Http2, 3 -> None *)
Supported(v) == v # "h3"
Proto(v) == IF v = "h2" THEN "Http2" ELSE "Http1"
(* the error class of the stage that failed *)
Class(x) == IF x \in {"tready", "connect"} THEN "Connecting"
            ELSE IF x \in {"pready", "handshake"} THEN "Handshaking" ELSE "Inner"
LastIdx(k) == IF k = "svc" THEN 5 ELSE 4

VARIABLES st, kind, ver, g, polled, woken, wgen, reg, res, n, seen, live, hs, ex, svc, ev
vars == <<st, kind, ver, g, polled, woken, wgen, reg, res, n, seen, live, hs, ex, svc, ev>>

G0 == [x \in ThingSet |-> "none"]
NoReg == [at |-> "none", gen |-> 0]
N0 == [cn |-> 0, hs |-> 0, ic |-> 0]
Hs0 == [io |-> 0, ver |-> ""]
Ex0 == [conn |-> 0, same |-> TRUE]
Ev0 == [a |-> "", c |-> 0, k |-> "", v |-> "", x |-> "", ok |-> FALSE, nw |-> FALSE, res |-> ""]

Init ==
  /\ st = [c \in Calls |-> "idle"]
  /\ kind = [c \in Calls |-> ""]
  /\ ver = [c \in Calls |-> ""]
  /\ g = [c \in Calls |-> G0]
  /\ polled = [c \in Calls |-> FALSE]
  /\ woken = [c \in Calls |-> FALSE]
  /\ wgen = [c \in Calls |-> 0]
  /\ reg = [c \in Calls |-> NoReg]
  /\ res = [c \in Calls |-> ""]
  /\ n = [c \in Calls |-> N0]
  /\ seen = [c \in Calls |-> {}]
  /\ live = [c \in Calls |-> {}]
  /\ hs = [c \in Calls |-> Hs0]
  /\ ex = [c \in Calls |-> Ex0]
  /\ svc = [g |-> "none", n |-> 0, last |-> ""]
  /\ ev = Ev0

-----------------------------------------------------------------------------
(* ConnectorService::call / Connector::new.  An unsupported version never reaches the connector: *)
(* nothing is cloned, the future is ResponseFutureState::ConnectionError.                          *)
Start(c, k, v) ==
  /\ st[c] = "idle"
  /\ (IF c = 1 THEN TRUE ELSE st[c - 1] # "idle")     \* calls are numbered in the order they are made
  /\ k \in Kinds /\ v \in Vers
  /\ k = "fut" => v \in {"h11", "h2"}            \* Connector::new takes an HttpProtocol
  /\ st' = [st EXCEPT ![c] = IF k = "svc" /\ ~Supported(v) THEN "verr" ELSE "tready"]
  /\ kind' = [kind EXCEPT ![c] = k]
  /\ ver' = [ver EXCEPT ![c] = v]
  /\ live' = [live EXCEPT ![c] = IF k = "svc" /\ ~Supported(v) THEN {}
                                 ELSE {"tc", "pc"} \cup (IF k = "svc" THEN {"sc"} ELSE {})]
  /\ ev' = [Ev0 EXCEPT !.a = "Start", !.c = c, !.k = k, !.v = v]
  /\ UNCHANGED <<g, polled, woken, wgen, reg, res, n, seen, hs, ex, svc>>

(* The environment decides what a thing of call c answers.  The thing wakes the waker it holds. *)
Env(c, x, ok) ==
  /\ st[c] \in LiveSt \ {"verr"}
  /\ g[c][x] = "none"
  /\ Idx(x) >= Idx(st[c]) /\ Idx(x) <= Idx(st[c]) + Look /\ Idx(x) <= LastIdx(kind[c])
  /\ g' = [g EXCEPT ![c][x] = IF ok THEN "ok" ELSE "err"]
  /\ woken' = [woken EXCEPT ![c] = @ \/ (reg[c].at = x /\ reg[c].gen = wgen[c])]
  /\ reg' = [reg EXCEPT ![c] = IF @.at = x THEN NoReg ELSE @]
  /\ ev' = [Ev0 EXCEPT !.a = "Env", !.c = c, !.x = x, !.ok = ok]
  /\ UNCHANGED <<st, kind, ver, polled, wgen, res, n, seen, live, hs, ex, svc>>

-----------------------------------------------------------------------------
(* One poll = the `loop` of ResponseFuture::poll around the `loop` of poll_connector, on a local   *)
(* copy x of the call's state; x.out: "run" (next iteration), "pending", "ready".                   *)
Pend(x, t) == [x EXCEPT !.out = "pending", !.at = t]
Fin(x, r) == [x EXCEPT !.st = "done", !.res = r, !.out = "ready", !.at = "none", !.live = {}]
HsVer(c) == IF Variant = "ver_fixed" THEN "Http1" ELSE Proto(ver[c])

Adv(x, c) ==
  LET gt == g[c] IN
  CASE x.st = "verr" -> Fin(x, "Unsupported")
    [] x.st = "tready" ->
         IF gt.tready = "none" THEN Pend(x, "tready")
         ELSE IF gt.tready = "err" THEN Fin(x, "Connecting")
         ELSE \* transport.take().connect(parts.take()); the transport clone is dropped
              LET y == [x EXCEPT !.seen = @ \cup {"tready"}, !.n.cn = @ + 1, !.live = (@ \ {"tc"}) \cup {"tf"}] IN
              IF Variant = "connect_twice" /\ gt.connect = "none"
              THEN [Pend(y, "connect") EXCEPT !.live = @ \cup {"tc"}]      \* the state is not advanced
              ELSE [y EXCEPT !.st = "connect"]
    [] x.st = "connect" ->
         IF gt.connect = "none" THEN Pend(x, "connect")
         ELSE IF gt.connect = "err" THEN Fin(x, "Connecting")
         ELSE [x EXCEPT !.st = "pready", !.seen = @ \cup {"connect"}, !.live = (@ \ {"tf"}) \cup {"io"}]
    [] x.st = "pready" ->
         LET start(y) == [y EXCEPT !.st = "handshake", !.n.hs = @ + 1, !.hs = [io |-> c, ver |-> HsVer(c)],
                                   !.live = (@ \ {"pc"}) \cup {"hf"}] IN
         IF Variant = "hs_early" THEN start(IF gt.pready = "ok" THEN [x EXCEPT !.seen = @ \cup {"pready"}] ELSE x)
         ELSE IF gt.pready = "none" THEN Pend(x, "pready")
         ELSE IF gt.pready = "err" THEN Fin(x, IF Variant = "prdy_connecting" THEN "Connecting" ELSE "Handshaking")
         ELSE start([x EXCEPT !.seen = @ \cup {"pready"}])
    [] x.st = "handshake" ->
         IF gt.handshake = "none" THEN Pend(x, "handshake")
         ELSE IF gt.handshake = "err" THEN Fin(x, "Handshaking")
         ELSE IF kind[c] = "fut"
              THEN \* the connection goes to the caller
                   [x EXCEPT !.st = "done", !.res = "Ok", !.out = "ready", !.at = "none",
                             !.seen = @ \cup {"handshake"}, !.live = {"cn", "io"}]
              ELSE \* service.call(ExecuteRequest::new(conn, request.take())); connector and service clone dropped
                   [x EXCEPT !.st = "send", !.seen = @ \cup {"handshake"}, !.n.ic = @ + 1,
                             !.ex = [conn |-> c, same |-> TRUE], !.live = {"sf", "cn", "io"}]
    [] x.st = "send" ->
         IF gt.send = "none" THEN Pend(x, "send")
         ELSE IF gt.send = "err" THEN Fin(x, "Inner")
         ELSE Fin([x EXCEPT !.seen = @ \cup {"send"}], "Ok")
    [] OTHER -> x

StepL(x, c) == IF x.out = "run" THEN Adv(x, c) ELSE x
RunL(x, c) == StepL(StepL(StepL(StepL(StepL(StepL(x, c), c), c), c), c), c)

X0(c) == [st |-> st[c], res |-> res[c], n |-> n[c], seen |-> seen[c], live |-> live[c], hs |-> hs[c], ex |-> ex[c],
          out |-> "run", at |-> "none"]

Poll(c, nw) ==
  /\ st[c] \in LiveSt
  /\ (~polled[c] \/ woken[c] \/ Spurious) = TRUE      \* (= TRUE: one guard, not three branches of the action)
  /\ (nw => wgen[c] < MaxGen) = TRUE
  /\ LET gen == IF nw THEN wgen[c] + 1 ELSE wgen[c]
         x == RunL(X0(c), c)
     IN /\ x.out # "run"
        /\ st' = [st EXCEPT ![c] = x.st]
        /\ res' = [res EXCEPT ![c] = x.res]
        /\ n' = [n EXCEPT ![c] = x.n]
        /\ seen' = [seen EXCEPT ![c] = x.seen]
        /\ live' = [live EXCEPT ![c] = x.live]
        /\ hs' = [hs EXCEPT ![c] = x.hs]
        /\ ex' = [ex EXCEPT ![c] = x.ex]
        /\ wgen' = [wgen EXCEPT ![c] = gen]
        /\ reg' = [reg EXCEPT ![c] = IF x.out = "pending"
                                     THEN (IF Variant = "no_rereg" /\ @.at = x.at THEN @ ELSE [at |-> x.at, gen |-> gen])
                                     ELSE NoReg]
        /\ g' = [g EXCEPT ![c] = IF x.st = "done" THEN G0 ELSE @]       \* (normal form: a finished call has no gates)
        /\ ev' = [Ev0 EXCEPT !.a = "Poll", !.c = c, !.nw = nw, !.res = IF x.out = "pending" THEN "pending" ELSE x.res]
  /\ polled' = [polled EXCEPT ![c] = TRUE]
  /\ woken' = [woken EXCEPT ![c] = FALSE]
  /\ UNCHANGED <<kind, ver, svc>>

(* the caller drops the future *)
Cancel(c) ==
  /\ AllowDrop
  /\ st[c] \in LiveSt
  /\ st' = [st EXCEPT ![c] = "dropped"]
  /\ live' = [live EXCEPT ![c] = IF Variant = "leak_hs" /\ st[c] = "handshake" THEN {"hf", "io"} ELSE {}]
  /\ reg' = [reg EXCEPT ![c] = NoReg]
  /\ woken' = [woken EXCEPT ![c] = FALSE]
  /\ g' = [g EXCEPT ![c] = G0]
  /\ ev' = [Ev0 EXCEPT !.a = "Cancel", !.c = c]
  /\ UNCHANGED <<kind, ver, polled, wgen, res, n, seen, hs, ex, svc>>

(* ConnectorService::poll_ready delegates to the service's own transport (not to any call's clone). *)
EnvSvc(ok) ==
  /\ WithSvc /\ svc.g = "none"
  /\ svc' = [svc EXCEPT !.g = IF ok THEN "ok" ELSE "err"]
  /\ ev' = [Ev0 EXCEPT !.a = "EnvSvc", !.ok = ok]
  /\ UNCHANGED <<st, kind, ver, g, polled, woken, wgen, reg, res, n, seen, live, hs, ex>>
SvcReady ==
  /\ WithSvc /\ svc.n < 2
  /\ LET r == IF svc.g = "none" THEN "pending" ELSE IF svc.g = "ok" THEN "ok" ELSE "Connecting" IN
     /\ svc' = [svc EXCEPT !.n = @ + 1, !.last = r]
     /\ ev' = [Ev0 EXCEPT !.a = "SvcReady", !.res = r]
  /\ UNCHANGED <<st, kind, ver, g, polled, woken, wgen, reg, res, n, seen, live, hs, ex>>

LegitPoll(c) == (~polled[c] \/ woken[c]) /\ \E nw \in BOOLEAN : Poll(c, nw)
EnvAny(c) == \E x \in ThingSet, ok \in BOOLEAN : Env(c, x, ok)

Next ==
  \/ \E c \in Calls, k \in Kinds, v \in Vers : Start(c, k, v)
  \/ \E c \in Calls, x \in ThingSet, ok \in BOOLEAN : Env(c, x, ok)
  \/ \E c \in Calls, nw \in BOOLEAN : Poll(c, nw)
  \/ \E c \in Calls : Cancel(c)
  \/ \E ok \in BOOLEAN : EnvSvc(ok)
  \/ SvcReady

Spec == Init /\ [][Next]_vars
(* fairness: an executor polls a call that is new or woken; the environment decides every gate a live call can reach *)
FairSpec == Spec /\ \A c \in Calls : WF_vars(LegitPoll(c)) /\ WF_vars(EnvAny(c))

-----------------------------------------------------------------------------
(* What a user of the API and the doubles can see: the observable state compared after every replayed step. *)
CallObs(c) == [st |-> IF st[c] \in LiveSt THEN "live" ELSE st[c], kind |-> kind[c], ver |-> ver[c], res |-> res[c],
               polled |-> polled[c], woken |-> woken[c], n |-> n[c], seen |-> seen[c], live |-> live[c],
               reg |-> IF reg[c].at # "none" /\ reg[c].gen = wgen[c] THEN {reg[c].at} ELSE {},
               stale |-> IF reg[c].at # "none" /\ reg[c].gen # wgen[c] THEN {reg[c].at} ELSE {},
               hs |-> hs[c], ex |-> ex[c]]
Obs == [calls |-> [c \in Calls |-> CallObs(c)], svc |-> [n |-> svc.n, last |-> svc.last]]

-----------------------------------------------------------------------------
(* Properties *)
TypeOK ==
  /\ \A c \in Calls :
       /\ st[c] \in {"idle"} \cup LiveSt \cup FinalSt
       /\ kind[c] \in Kinds \cup {""} /\ ver[c] \in Vers \cup {""}
       /\ g[c] \in [ThingSet -> {"none", "ok", "err"}]
       /\ polled[c] \in BOOLEAN /\ woken[c] \in BOOLEAN /\ wgen[c] \in 0..MaxGen
       /\ reg[c].at \in ThingSet \cup {"none"} /\ reg[c].gen \in 0..MaxGen
       /\ res[c] \in {"", "Ok", "Connecting", "Handshaking", "Inner", "Unsupported"}
       /\ seen[c] \subseteq ThingSet /\ live[c] \subseteq Resources
  /\ svc.g \in {"none", "ok", "err"}

(* K1 (safety half): a poll resolves exactly when the chain of gates from the call's stage on is decided up  *)
(* to its end or up to the first error, and then with Ok or exactly the error class of the stage that failed. *)
(* Stated as a function of the state BEFORE the poll, independently of the loop above.                         *)
Reach(c) == {i \in Idx(st[c])..LastIdx(kind[c]) : \A j \in Idx(st[c])..(i - 1) : g[c][Things[j]] = "ok"}
Expected(c) ==
  IF st[c] = "verr" THEN "Unsupported"
  ELSE IF \E i \in Reach(c) : g[c][Things[i]] = "err"
       THEN Class(Things[CHOOSE i \in Reach(c) : g[c][Things[i]] = "err"])
       ELSE IF \A i \in Idx(st[c])..LastIdx(kind[c]) : g[c][Things[i]] = "ok" THEN "Ok" ELSE "pending"
K1_Result ==
  [][\A c \in Calls : (ev'.a = "Poll" /\ ev'.c = c) =>
        /\ ev'.res = Expected(c)
        /\ (Expected(c) = "pending") = (st'[c] \in LiveSt)
        /\ (Expected(c) # "pending") => (st'[c] = "done" /\ res'[c] = Expected(c))]_vars
(* K1 (liveness half): every call resolves (or is dropped by its caller) *)
K1_Live == \A c \in Calls : (st[c] \in LiveSt) ~> (st[c] \in FinalSt)

(* K2: stage order *)
K2_Once == \A c \in Calls : n[c].cn <= 1 /\ n[c].hs <= 1 /\ n[c].ic <= 1
K2_Order == \A c \in Calls :
  /\ n[c].cn >= 1 => "tready" \in seen[c]
  /\ n[c].hs >= 1 => {"connect", "pready"} \subseteq seen[c]
  /\ n[c].ic >= 1 => "handshake" \in seen[c] /\ n[c].hs = 1 /\ kind[c] = "svc"
K2_Args == \A c \in Calls :
  /\ n[c].hs >= 1 => hs[c] = [io |-> c, ver |-> Proto(ver[c])]       \* the stream connect returned; version from the REQUEST
  /\ n[c].ic >= 1 => ex[c] = [conn |-> c, same |-> TRUE]               \* its own connection; parts and body untouched

(* K3: no lost wake-up.  A polled live call is either already woken, or the thing it waits for (the thing of  *)
(* its stage, still undecided) holds the waker of its latest poll.                                            *)
K3_NoLostWake == \A c \in Calls :
  (st[c] \in LiveSt /\ polled[c]) =>
     \/ woken[c]
     \/ (reg[c].at = st[c] /\ reg[c].gen = wgen[c] /\ g[c][st[c]] = "none")

(* K4: cancellation.  After the drop every resource the call held has been dropped, nothing holds its waker, *)
(* and nothing of the call ever changes again (nothing is polled, called or produced).  The same for a call  *)
(* that resolved, except that a connector future's connection now belongs to the caller.                      *)
CS(c) == <<st[c], g[c], polled[c], woken[c], wgen[c], reg[c], res[c], n[c], seen[c], live[c], hs[c], ex[c]>>
K4_Dropped == \A c \in Calls :
  st[c] \in FinalSt => /\ reg[c] = NoReg
                       /\ live[c] = IF st[c] = "done" /\ kind[c] = "fut" /\ res[c] = "Ok" THEN {"cn", "io"} ELSE {}
K4_Quiet == [][\A c \in Calls : st[c] \in FinalSt => CS(c)' = CS(c)]_vars

(* K5: independence.  A step changes the state of at most one call, and the service-level readiness probe changes none. *)
K5_Indep == [][/\ Cardinality({c \in Calls : CS(c)' # CS(c)}) <= 1
               /\ ev'.a \in {"SvcReady", "EnvSvc"} => \A c \in Calls : CS(c)' = CS(c)
               /\ ev'.c \in Calls => \A d \in Calls \ {ev'.c} : CS(d)' = CS(d)]_vars

=============================================================================
