INIT Init
NEXT Next
INVARIANT WellFormed
INVARIANT Matched
INVARIANT ResponseIntact
INVARIANT RequestIntact
INVARIANT H1Exclusive
INVARIANT NoSendAfterUpgrade
INVARIANT NoCrossOrigin
INVARIANT NoSpuriousFailure
POSTCONDITION Consumed
ALIAS Alias
CHECK_DEADLOCK FALSE
