---------------------------- MODULE TimeoutObs ----------------------------
(***************************************************************************)
(* Property monitor for C19, evaluated by TLC over a trace RECORDED FROM   *)
(* THE REAL CODE: hyperdriver::service::Timeout around the real            *)
(* ConnectionPoolService (harness/src/bin/timeout.rs; one ndjson record    *)
(* per action with the observable state after it, virtual time in ms).     *)
(* The monitor constrains nothing but the property: its next-state         *)
(* relation is "take the next record"; every clause falsified on (state    *)
(* before, event, state after) is collected in `viol` and printed once.    *)
(*                                                                          *)
(* C19: "A request sent through the timeout layer resolves with the        *)
(* configured timeout error no later than the configured duration after it *)
(* was issued unless the inner service resolved first, in which case the   *)
(* inner result is returned unchanged.  At expiry the inner work is        *)
(* dropped, so a timed-out request neither completes later nor leaves the  *)
(* pool unable to serve subsequent requests to that origin."               *)
(*                                                                          *)
(* What is observed: the clock (ms) at every action; per poll of the       *)
(* TimeoutFuture its result (Pending / Ok id / Err kind / Timeout), what   *)
(* the inner future returned in that poll as seen by a transparent tap     *)
(* between the timeout layer and the pool service (tap, tapid, tapn),      *)
(* whether the task had been woken; per request whether its inner future   *)
(* has been dropped (idrop) or was polled after the outer one resolved     *)
(* (ilate), the connection its inner service holds (held), whether the     *)
(* response was available (resp) ; per dial who started it and its stage;  *)
(* `late`: dial starts, hand-offs to the inner service and responses       *)
(* attributed to a request that had already resolved.                      *)
(***************************************************************************)
EXTENDS Naturals, Sequences, FiniteSets, TLC, Json, IOUtils

Rec == ndJsonDeserialize(IOEnv.TRACE)
N == Len(Rec)

VARIABLES l,     \* number of records consumed
          h      \* history since the last Reset
vars == <<l, h>>

H0 == [cfg |-> [cap |-> FALSE, maxIdle |-> 0, dur |-> 0, durms |-> 0, tick |-> 1], run |-> 0, base |-> 0,
       respAt |-> <<>>,    \* [request -> clock (ms) + 1 at which its response became available, 0 if not]
       viol |-> <<>>]      \* falsified clauses: sequence of [l, tag, r, c]

Init == l = 0 /\ h = H0

Get(s, i, dflt) == IF i \in DOMAIN s THEN s[i] ELSE dflt
Put(s, i, v, dflt) == [j \in 1..(IF i > Len(s) THEN i ELSE Len(s)) |-> IF j = i THEN v ELSE Get(s, j, dflt)]

NReqO(o) == Len(o.req)
HasReq(o, r) == r \in 1..NReqO(o) /\ o.req[r].st # "new"
Deadline(o, r) == o.req[r].issms + o.req[r].durms
Unresolved(o, r) == HasReq(o, r) /\ o.req[r].out = "none"
TimedOut(o, r) == HasReq(o, r) /\ o.req[r].out = "timeout"

V(tag, r, c) == [l |-> l + 1, tag |-> tag, r |-> r, c |-> c]
If(b, tag, r, c) == IF b THEN <<V(tag, r, c)>> ELSE <<>>

-----------------------------------------------------------------------------
(* The clauses.  hh = history before the event, pre/post = observable state before/after it, e = the event. *)

\* (a) "resolves with the timeout error no later than the duration after it was issued unless the inner
\*      service resolved first"
ClauseA(hh, pre, e, post) ==
  IF e.e = "TPoll" /\ HasReq(post, e.r) THEN
       \* never the timeout error before the duration has passed
       If(e.res = "Timeout" /\ e.ms < Deadline(post, e.r), "C19:timeout-before-deadline", e.r, 0)
       \* a poll at or after the deadline does not leave the request unresolved
    \o If(e.res = "Pending" /\ e.ms >= Deadline(post, e.r), "C19:pending-past-deadline", e.r, 0)
       \* the inner service had resolved first: the request was in the hands of the inner service and its
       \* response had been there strictly before the deadline, yet the caller got the timeout error
    \o If(e.res = "Timeout" /\ HasReq(pre, e.r) /\ pre.req[e.r].held # 0 /\ pre.req[e.r].resp # "none"
            /\ Get(hh.respAt, e.r, 0) # 0 /\ Get(hh.respAt, e.r, 0) - 1 < Deadline(post, e.r),
          "C19:timeout-although-inner-resolved-first", e.r, 0)
       \* the inner future returned a value in this very poll, the caller got the timeout error instead
    \o If(e.res = "Timeout" /\ e.tapn > 0 /\ e.tap \in {"Ok", "Err"}, "C19:inner-result-replaced-by-timeout", e.r, 0)
  ELSE <<>>

\* (b) "no later than": the timer wakes the task when the deadline is reached (with an executor that polls a
\*      woken task this is what bounds the completion time; the poll itself is clause pending-past-deadline)
ClauseB(hh, pre, e, post) ==
  IF e.e = "Advance" THEN
     LET late == {r \in 1..NReqO(post) : /\ Unresolved(post, r) /\ HasReq(pre, r) /\ pre.req[r].polled
                                         /\ e.ms >= Deadline(post, r) /\ ~post.req[r].woken}
     IN If(late # {}, "C19:timer-did-not-wake", IF late = {} THEN 0 ELSE CHOOSE r \in late : TRUE, 0)
  ELSE <<>>

\* (c) "the inner result is returned unchanged"
ClauseC(hh, pre, e, post) ==
  IF e.e = "TPoll" /\ e.res \in {"Ok", "Err"} THEN
       If(e.tapn > 0 /\ e.tap \in {"Ok", "Err"} /\ (e.tap # e.res \/ e.tapid # e.rid), "C19:inner-result-changed", e.r, 0)
    \o If(e.tapn = 0 \/ e.tap \notin {"Ok", "Err"}, "C19:result-not-from-inner", e.r, 0)
    \o If(~e.own, "C19:foreign-result", e.r, 0)
  ELSE <<>>

\* (d) "at expiry the inner work is dropped, so a timed-out request [does not] complete later"
ClauseD(hh, pre, e, post) ==
  (IF e.e = "TPoll" /\ e.res = "Timeout" /\ HasReq(post, e.r)
   THEN If(~post.req[e.r].idrop, "C19:inner-not-dropped-at-expiry", e.r, 0)
   ELSE <<>>)
  \* in every state: a timed-out request holds no connection, its inner future is not polled any more,
  \* and without continue_after_preemption its connection attempt does not go on
  \o (LET holds == {r \in 1..NReqO(post) : TimedOut(post, r) /\ post.req[r].held # 0}
          polls == {r \in 1..NReqO(post) : TimedOut(post, r) /\ TimedOut(pre, r)
                                           /\ (post.req[r].ilate > pre.req[r].ilate \/ (post.req[r].ilateready /\ ~pre.req[r].ilateready))}
          dials == {d \in 1..Len(post.conn) : /\ ~hh.cfg.cap /\ TimedOut(post, post.conn[d].by) /\ TimedOut(pre, post.conn[d].by)
                                              /\ post.conn[d].dial \in {"connecting", "handshaking"}
                                              /\ (d > Len(pre.conn) \/ pre.conn[d].dial # post.conn[d].dial \/ e.e = "Drain")}
      IN If(holds # {}, "C19:timed-out-request-holds-connection", IF holds = {} THEN 0 ELSE CHOOSE r \in holds : TRUE, 0)
         \o If(polls # {}, "C19:inner-polled-after-expiry", IF polls = {} THEN 0 ELSE CHOOSE r \in polls : TRUE, 0)
         \o If(dials # {}, "C19:attempt-continues-without-cap", 0, IF dials = {} THEN 0 ELSE CHOOSE d \in dials : TRUE))
  \* later events attributed to a timed-out request: a hand-off to the inner service or a response is
  \* "completes later"; a dial start is only legitimate as the background continuation (cap)
  \o (LET bad == {i \in 1..Len(e.late) : /\ TimedOut(pre, e.late[i].r)
                                         /\ (e.late[i].k \in {"Handoff", "RespDone"} \/ (e.late[i].k = "DialStart" /\ ~hh.cfg.cap))}
      IN If(bad # {}, "C19:completes-later", IF bad = {} THEN 0 ELSE e.late[CHOOSE i \in bad : TRUE].r, 0))

\* (e) "nor leaves the pool unable to serve subsequent requests to that origin" (and everybody resolved)
ClauseE(hh, pre, e, post) ==
     If(e.e = "ProbeDone" /\ e.res = "Pending", "C19:probe-stuck", e.r, 0)
  \o If(e.e = "ProbeDone" /\ e.res \notin {"Pending", "Ok"}, "C19:probe-failed", e.r, 0)
  \o If(e.e = "Drain" /\ \E r \in 1..NReqO(post) : Unresolved(post, r), "C19:unresolved-after-drain", 0, 0)
  \o If(e.res = "Panicked", "C19:panic", e.r, 0)

\* the wiring in client/builder.rs: a client built with a timeout (with_timeout / with_optional_timeout(Some) / the
\* default) whose peer stays silent gets the timeout error at the configured virtual time (e.dt ms; e.ms = elapsed,
\* 5 ms allowed for the granularity of the timer), never before; a peer that answers at once gets its response through
ClauseW(hh, pre, e, post) ==
  IF e.e = "Wiring" /\ e.ok THEN
       If(e.stage # "answers" /\ (e.res # "Timeout" \/ e.ms > e.dt + 5), "C19:wired-timeout-late-or-missing", 0, 0)
    \o If(e.res = "Timeout" /\ e.ms < e.dt, "C19:wired-timeout-early", 0, 0)
    \o If(e.stage = "answers" /\ e.dt > 0 /\ e.res # "Ok", "C19:wired-inner-result-lost", 0, 0)
  ELSE <<>>

\* redirect chains (spec/TimeoutChain.tla): a client built by client/builder.rs with the standard redirect policy and a
\* timeout; the peer answers hop i after its delay with a 302 to the next hop, the last hop with 200.  The clause is the
\* property's first sentence applied to what the caller issued, the whole chain: it resolves no later than the duration
\* (e.dt ms) after the ORIGINAL issue (e.ms = elapsed; 5 ms for timer granularity), the timeout error never earlier, and not
\* at all if the last response was there strictly before the deadline (e.ok: every hop answers; e.r: ticks until the last
\* response).  A tie goes either way.
ClauseCh(hh, pre, e, post) ==
  IF e.e = "Chain" THEN
       If(e.res = "Unresolved" \/ e.ms > e.dt + 5, "C19:chain-resolved-after-deadline", 0, 0)
    \o If(e.res = "Timeout" /\ e.ms < e.dt, "C19:chain-timeout-early", 0, 0)
    \o If(e.res = "Timeout" /\ e.ok /\ e.r * hh.cfg.tick < e.dt, "C19:chain-inner-result-lost", 0, 0)
  ELSE <<>>

Clauses(hh, pre, e, post) ==
  ClauseCh(hh, pre, e, post) \o ClauseA(hh, pre, e, post) \o ClauseB(hh, pre, e, post) \o ClauseC(hh, pre, e, post) \o ClauseD(hh, pre, e, post) \o ClauseE(hh, pre, e, post)
  \o ClauseW(hh, pre, e, post)

Upd(hh, pre, e, post) ==
  IF e.e = "RespReady" THEN [hh EXCEPT !.respAt = Put(@, e.r, e.ms + 1, 0)] ELSE hh

Step ==
  /\ l < N
  /\ l' = l + 1
  /\ LET e == Rec[l + 1] IN
     IF e.e = "Reset"
     THEN h' = [H0 EXCEPT !.cfg = e.cfg, !.run = e.run, !.base = l + 1, !.viol = h.viol]
     ELSE LET pre == Rec[l].obs
              post == e.obs
              new == Clauses(h, pre, e, post)
          IN h' = [Upd(h, pre, e, post) EXCEPT !.viol = h.viol \o [i \in 1..Len(new) |-> new[i] @@ [run |-> h.run, base |-> h.base]]]

Spec == Init /\ [][Step]_vars

\* the whole trace was read
Consumed == TLCGet("stats").diameter - 1 = N
\* printed once, at the end of the trace: every falsified clause
Report == l = N => PrintT(<<"VIOL", ToJson(h.viol)>>)
=============================================================================
