SPECIFICATION Spec
CONSTANTS
  NConn = 2
  MaxReq = 2
  MaxReq2 = 1
  Protos <- AllProtos
  TlsModes <- OnlyFalse
  MakeModes <- BothBool
  MaxFaults = 2
  AsBuiltD8 = FALSE
  SigOnMake <- SigSome
  Hoisted = FALSE
  GenMode = TRUE
  GenLen = 14
INVARIANTS GenPrint
