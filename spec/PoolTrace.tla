----------------------------- MODULE PoolTrace -----------------------------
(***************************************************************************)
(* Trace validation: a trace recorded from the REAL pool under a random    *)
(* walk (harness/src/bin/pool.rs walk) must be a behaviour of Pool.tla.    *)
(* Each record names the harness action and its result and carries the     *)
(* observable state after it; a record is matched by a step of Pool!Next   *)
(* whose event and whose observable state agree with the record.           *)
(* A rejected trace means the code is no longer the modelled design        *)
(* (DRIFT); it is not by itself a property violation (DESIGN.md 2.3).      *)
(***************************************************************************)
EXTENDS Pool, Json, IOUtils

Rec == ndJsonDeserialize(IOEnv.TRACE)
N == Len(Rec)

VARIABLE l
tvars == <<vars, l>>

AllFaults == {"connect", "handshake", "close", "upgrade"}

TraceInit == Init /\ l = 0 /\ cfg = [cap |-> FALSE, maxIdle |-> 0, it |-> 0, alive |-> TRUE, nopool |-> FALSE]

\* the event of the model step agrees with the recorded action and result
EvMatch(e, m) ==
  CASE e.e = "Issue" -> m.e = "Issue" /\ m.r = e.r /\ m.o = e.o /\ m.h2 = e.h2
    [] e.e = "Poll" -> /\ m.e = e.res /\ m.r = e.r
                       /\ (e.res = "DialStart" => m.d = e.d)
                       /\ (e.res = "Handoff" => m.c = e.c)
                       /\ (e.res = "PollErr" => m.kind = e.kind)
    [] e.e = "Cancel" -> m.e = "Cancel" /\ m.r = e.r /\ m.stage = e.stage
    [] e.e = "Release" -> m.e = "Release" /\ m.r = e.r
    [] e.e \in {"EnvConnect", "EnvHandshake"} -> m.e = e.e /\ m.d = e.d /\ m.ok = e.ok
    [] e.e \in {"ConnReady", "PeerClose", "Upgrade"} -> m.e = e.e /\ m.c = e.c
    [] e.e = "WhenReady" -> m.e \in {"HandBack", "HandBackDrop"} /\ m.c = e.c
    [] e.e = "Bg" -> /\ m.r = e.r
                     /\ IF e.d # 0 THEN m.e = "BgDialStart" /\ m.d = e.d ELSE m.e \in {"BgDone", "BgFail"}
    [] e.e = "Tick" -> m.e = "Tick"
    [] e.e = "SmallTick" -> m.e = "SmallTick"
    [] e.e = "DropPool" -> m.e = "DropPool"
    [] OTHER -> FALSE

\* the observable state of the model agrees with the recorded one
ObsMatch(o, m) ==
  /\ m.ndial = o.ndial
  /\ \A a \in 1..Len(o.idle) : IF a \in Origins THEN m.idle[a] = o.idle[a] /\ m.wq[a] = o.wq[a] /\ m.cing[a] = o.cing[a]
                                ELSE o.idle[a] = <<>> /\ o.wq[a] = <<>>
  /\ \A r \in 1..Len(o.req) : r \in Req /\ m.req[r].st = o.req[r].st /\ m.req[r].held = o.req[r].held
                              /\ (o.req[r].st = "checkout" => m.req[r].woken = o.req[r].woken)
  /\ \A r \in Req : r > Len(o.req) => m.req[r].st = "new"
  /\ \A c \in 1..Len(o.conn) : m.conn[c].st = o.conn[c].st /\ m.conn[c].busy = o.conn[c].busy /\ m.conn[c].live = o.conn[c].live
                               /\ m.conn[c].up = o.conn[c].up

\* a fresh pool with the recorded configuration (the primed copy of Pool!Init)
NoPoolOf(e) == "noPool" \in DOMAIN e.cfg /\ e.cfg.noPool
ResetStep(e) ==
  /\ cfg' = [cap |-> e.cfg.cap, maxIdle |-> e.cfg.maxIdle, it |-> e.cfg.idleTimeout, alive |-> ~NoPoolOf(e), nopool |-> NoPoolOf(e)]
  /\ connecting' = {}
  /\ waiting' = [o \in Origins |-> <<>>]
  /\ idle' = [o \in Origins |-> <<>>]
  /\ chan' = [r \in Req |-> [st |-> "none", h |-> NoH]]
  /\ co' = [r \in Req |-> NoCo]
  /\ gc' = [d \in Dial |-> "none"] /\ gh' = [d \in Dial |-> "none"]
  /\ dl' = [d \in Dial |-> [o |-> 1, h2 |-> FALSE, r |-> 0]]
  /\ conn' = [d \in Dial |-> [st |-> "none", o |-> 1, h2 |-> FALSE, busy |-> FALSE, up |-> FALSE]]
  /\ held' = [r \in Req |-> NoH]
  /\ wr' = {}
  /\ req' = [r \in Req |-> [st |-> "new", o |-> 1, h2 |-> FALSE, stale |-> {}]]
  /\ woken' = [r \in Req |-> FALSE] /\ polled' = [r \in Req |-> FALSE] /\ rxw' = [r \in Req |-> FALSE]
  /\ dw' = [d \in Dial |-> 0]
  /\ ndial' = 0 /\ now' = 0
  /\ ev' = NoEv

TraceNext ==
  /\ l < N
  /\ l' = l + 1
  /\ LET e == Rec[l + 1] IN
     CASE e.e = "Reset" -> ResetStep(e)
       [] e.e \in {"Drain", "ProbeDone"} -> UNCHANGED vars
       [] OTHER -> Next /\ EvMatch(e, ev') /\ ObsMatch(e.obs, Obs')

TraceSpec == TraceInit /\ [][TraceNext]_tvars

Accepted ==
  LET k == TLCGet("stats").diameter - 1 IN
  IF k >= N THEN TRUE
  ELSE PrintT(<<"REJECT", k, ToJson([rec |-> Rec[k + 1]])>>)
=============================================================================
