--------------------------- MODULE MC_ConnectorGen ---------------------------
(* Generation instance of Connector.tla: history of [event, observable state after it]; one JSON line per     *)
(* behaviour (PrintT(<<"REPLAY", json>>)), replayed step by step on the REAL ConnectorService /               *)
(* ConnectorFuture by harness bin `connector`.                                                                 *)
EXTENDS MC_Connector

CONSTANTS GenDepth,     \* behaviours are printed at this length
          MaxCancel     \* uniform simulation over-samples Cancel (always enabled): at most this many per behaviour

VARIABLE hist

NCancel == Cardinality({i \in 1..Len(hist) : hist[i].ev.a = "Cancel"})
InitH == Init /\ hist = <<>>
GenNext == /\ Len(hist) < GenDepth
           /\ Next
           /\ (ev'.a = "Cancel") => (NCancel < MaxCancel /\ Len(hist) >= 3)
           /\ hist' = Append(hist, [ev |-> ev', obs |-> Obs'])
Beh == [cfg |-> [ncalls |-> NCalls], steps |-> hist]
Emit == (Len(hist) >= GenDepth \/ (Len(hist) > 0 /\ ~ENABLED GenNext)) => PrintT(<<"REPLAY", ToJson(Beh)>>)
=============================================================================
