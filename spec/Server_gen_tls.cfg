SPECIFICATION Spec
CONSTANTS
  NConn = 2
  MaxReq = 2
  MaxReq2 = 1
  Protos <- H1Auto
  TlsModes <- OnlyTrue
  MakeModes <- OnlyFalse
  MaxFaults = 2
  AsBuiltD8 = FALSE
  SigOnMake <- SigNever
  Hoisted = FALSE
  GenMode = TRUE
  GenLen = 14
INVARIANTS GenPrint
