--------------------------- MODULE MC_ConnInfoGen ---------------------------
(* Generation instance of ConnInfo.tla: history of [event, observable state after it, quiescent?]; one JSON  *)
(* line per behaviour (PrintT(<<"REPLAY", json>>)), replayed step by step on the REAL hyperdriver::Server by *)
(* harness bin `conninfo`.  The real server runs to quiescence after every environment event, so environment *)
(* steps are taken only at quiescent points; the interleavings of accepts, handshakes and requests come from *)
(* the gates (poll_ready / make future / application) and from the order of the environment events.         *)
EXTENDS MC_ConnInfo

CONSTANTS GenDepth,     \* environment steps per behaviour
          SigAfter,     \* the signal and Err decisions (which end everything) only after this many environment steps
          MaxFault      \* uniform simulation over-samples Close / HsFail (always enabled): at most this many
VARIABLES hist, nenv

Quiescent == ~ENABLED Internal
NFault == Cardinality({i \in 1..Len(hist) : hist[i].ev.a \in {"Close", "HsFail"}})
InitH == Init /\ hist = <<>> /\ nenv = 0
\* the real server runs to quiescence after every environment event: environment steps only at quiescent points
GenNext == \/ /\ Quiescent /\ nenv < GenDepth /\ Env /\ nenv' = nenv + 1
              /\ (ev'.a = "Signal" \/ ev'.x = "err") => nenv >= SigAfter
              /\ (ev'.a \in {"Close", "HsFail"}) => NFault < MaxFault
              /\ hist' = Append(hist, [ev |-> ev', env |-> TRUE, obs |-> Obs', q |-> ~(ENABLED Internal)'])
           \/ /\ ~Quiescent /\ Internal /\ UNCHANGED nenv
              /\ hist' = Append(hist, [ev |-> ev', env |-> FALSE, obs |-> Obs', q |-> ~(ENABLED Internal)'])
Beh == [cfg |-> cfg, kind |-> kind, host |-> host,
        gates |-> [ready |-> RGated, make |-> MGated, app |-> GateApp],
        steps |-> hist]
Done == (Quiescent /\ nenv >= GenDepth) \/ ~ENABLED GenNext
Emit == (Done /\ Len(hist) > 0) => PrintT(<<"REPLAY", ToJson(Beh)>>)
=============================================================================
