SPECIFICATION Spec
INVARIANT Gen
CHECK_DEADLOCK FALSE
CONSTANT KeyMergesWsIntoHttp = FALSE
CONSTANT SetterDropsTls = FALSE
