----------------------------- MODULE StreamObs -----------------------------
(***************************************************************************)
(* C18 property monitor over observations recorded from the REAL adapters  *)
(* (harness bin `stream`).  The trace file (IOEnv.TRACE) has one line per  *)
(* executed op sequence: [id, src, stack, ops (one observation per op, the *)
(* schema of Stream!Obs0), drained].  Every sequence is one behaviour of   *)
(* this monitor (the initial state chooses the line), one op per step.     *)
(*                                                                         *)
(* The monitor constrains NOTHING but the property: it recomputes the      *)
(* reference FIFO (`ref`) from the recorded ops and the scripted inner     *)
(* behaviour, and evaluates the clauses of Stream.tla (Failing) on every   *)
(* recorded step; the INVARIANTs are the same I_* formulas as on the model *)
(* plus I_AtEnd (delivered = written at EOF, EOF reached when drained).    *)
(* This is what decides VIOLATION.                                         *)
(*                                                                         *)
(* In lock-step it also runs the MODEL (Stream!Step) on the same inputs    *)
(* and reports where the real observation differs from the modelled one:   *)
(* that is DRIFT (printed, never a violation).                             *)
(***************************************************************************)
EXTENDS Stream, Json, IOUtils

Rec == ndJsonDeserialize(IOEnv.TRACE)
N   == Len(Rec)

VARIABLES k,    \* the line (sequence) this behaviour replays
          l,    \* ops consumed
          df    \* fields in which the real observation of the last op differs from the model (first drift only)
ovars == <<vars, k, l, df>>

Ops(i) == Rec[i].ops
Mode   == stack.mode

CmpFields == {"res", "kind", "ikind", "n", "filled", "init", "buf", "igave", "igot", "icalls", "woken", "avec", "wk"}
Field(o, f) == CASE f = "res" -> o.res [] f = "kind" -> o.kind [] f = "ikind" -> o.ikind [] f = "n" -> o.n
                 [] f = "filled" -> o.filled [] f = "init" -> o.init [] f = "buf" -> o.buf [] f = "igave" -> o.igave
                 [] f = "igot" -> o.igot [] f = "icalls" -> o.icalls [] f = "woken" -> o.woken [] f = "avec" -> o.avec
                 [] OTHER -> o.wk
\* sockets: arrival is not synchronous, so only the deterministic fields are compared
Cmp(M) == IF M = "sock" THEN {} ELSE IF M = "pipe" THEN CmpFields \ {"avec", "init"} ELSE CmpFields \ {"wk"}
Diff(M, mo, o) == {f \in Cmp(M) : Field(mo, f) # Field(o, f)}

ObsInit == /\ k \in 1..N
           /\ l = 0
           /\ stack = [name |-> Rec[k].stack.name, layers |-> Rec[k].stack.layers, p |-> Rec[k].stack.p,
                       ivec |-> Rec[k].stack.ivec, mode |-> Rec[k].stack.mode, B |-> Rec[k].stack.B]
           /\ ms = MS0(stack)
           /\ ref = Ref0(stack)
           /\ bad = {}
           /\ ev = NoEv
           /\ hist = <<>>
           /\ df = {}

ObsNext == /\ l < Len(Ops(k))
           /\ LET o  == Ops(k)[l + 1]
                  st == Step(stack, ms, o)            \* the model on the same inputs (drift only)
              IN /\ bad' = Failing(Mode, ref, o)
                 /\ ev' = IF bad' = {} THEN NoEv ELSE [o |-> o, r |-> ref]
                 /\ ref' = RefNext(Mode, ref, o)
                 /\ ms' = st.m
                 /\ df' = Diff(Mode, st.o, o)
           /\ l' = l + 1
           /\ UNCHANGED <<stack, hist, k>>

AtLast == l = Len(Ops(k))
\* end of a sequence: every drained direction reached EOF with delivered = written
I_AtEnd == AtLast => AtEnd(Mode, ref, {Rec[k].drained[j] : j \in 1..Len(Rec[k].drained)})

\* tool sanity (a failure here is a harness problem, not a verdict): the scripted inner stream hands out
\* consecutive numbers and the recorded inputs are well-formed
I_Sane == l > 0 =>
            LET o == Ops(k)[l] IN
            /\ o.op \in {"read", "write", "writev", "flush", "shutdown"}
            /\ o.dir \in {"ab", "ba"}
            /\ o.res \in {"Ok", "Pending", "Err", "Panic", "Stall"}
            /\ (Mode = "script" => o.igave = Run(ref.W["ab"] - Len(o.igave) + 1, ref.W["ab"]))

\* screening pass (run only after a violation, to enumerate ALL violating steps compactly): never false
Screen == /\ (bad = {} \/ PrintT(<<"BAD", ToJson([k |-> k, l |-> l, bad |-> bad])>>))
          /\ (I_AtEnd \/ PrintT(<<"BAD", ToJson([k |-> k, l |-> l, bad |-> {"AtEnd"}])>>))
\* conformance with the model: DRIFT, never false
Drift == df = {} \/ PrintT(<<"DRIFT", ToJson([k |-> k, l |-> l, df |-> df])>>)

ObsView == <<k, l, bad, df>>
=============================================================================
