\* TlsStream vacuity guard / standing demonstration: the design variant "writethrough" MUST violate T2_NoClear
SPECIFICATION Spec
CONSTANTS
  MaxOps = 4
  MaxBytes = 3
  MaxRx = 1
  Bug = "writethrough"
  Sides <- MCSides
  Certs <- MCCerts
  ReadCaps <- MCReadCaps
  WriteLens <- MCWriteLens
  SendLens <- MCSendLens
VIEW MCView
INVARIANTS
  T2_NoClear
