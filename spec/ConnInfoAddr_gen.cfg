INIT Init
NEXT Next
INVARIANTS Props Emit
CHECK_DEADLOCK FALSE
