---------------------------- MODULE ConnInfoObs ----------------------------
(***************************************************************************)
(* Property monitor for the connection-info / make-service stage            *)
(* (spec/ConnInfo.tla), evaluated by TLC over a trace RECORDED FROM THE     *)
(* REAL hyperdriver::Server (harness/src/bin/conninfo.rs: a `Reset` record  *)
(* per run with the configuration and the ground truth of every client --   *)
(* the addresses its connection really has, the server name and ALPN it     *)
(* really sent -- then one `Obs` record per settled step with everything    *)
(* observable so far; `Vec` records for the address vector spec).  The      *)
(* monitor constrains nothing but the clauses: its next-state relation is   *)
(* "take the next record".  Every falsified clause is collected once per    *)
(* run with its record index and a stable key, and printed at the end.      *)
(*                                                                          *)
(* Keys (all start with "conninfo/"):                                       *)
(*  I1-cross-info/addr-remote|addr-local   a request carries the address of ANOTHER connection              *)
(*  I1-cross-info/tls-sni                  a request carries the server name ANOTHER connection sent        *)
(*  I1-wrong-info/tls-sni|tls-alpn         TLS info that is neither this connection's nor another's         *)
(*  I1-cross-info/service                  handled by the service made for another connection's stream      *)
(*  I1-unstable/addr|tls                   two requests of one connection carry different info              *)
(*  I1-response-mismatch/ids|body          the response a client got is not the one made for its request    *)
(*  I1-sni-validation/own-rejected|other-forwarded|not-marked   ValidateSNI judged against another name     *)
(*  I2-missing/addr|tls, I2-unexpected/addr|tls, I2-request-handled-twice,                                   *)
(*  I2-missing/addr-direct-<first-call|second-call-cloned|second-call-same-instance>  (layer used directly)  *)
(*  I3-make-twice, I3-make-missing, I3-make-wrong-stream, I3-make-after-signal, I3-call-without-ready,       *)
(*  I3-serve-count, I3-shared-tag                                                                            *)
(*  I4-ended/<srv>-without-cause           the serving future ended without signal / make-service failure   *)
(*  I4-disturbed/<action>[-server]         a step on one connection changed another one / the accept loop   *)
(*  I4-started-request-unanswered/<srv>    a request the application started never got its response         *)
(*  I4-not-served/<srv>, I4-accept-blocked/never-accepted|make-not-completed                                *)
(*  I5-addr/<acc>-local|remote, I5-not-canonical/<acc>-local|remote, I5-accept-addr/<acc>, I5-vector/<op>    *)
(*  panic                                  a panic of the code under test was recorded                       *)
(***************************************************************************)
EXTENDS Naturals, Sequences, FiniteSets, TLC, Json, IOUtils

Rec == ndJsonDeserialize(IOEnv.TRACE)
N == Len(Rec)

VARIABLES l, h
vars == <<l, h>>

NoReset == [run |-> 0, id |-> "", src |-> "", det |-> TRUE, listen |-> "", listenMapped |-> "", clients |-> <<>>,
            cfg |-> [acc |-> "", tls |-> FALSE, ci |-> FALSE, ti |-> FALSE, order |-> "", shared |-> FALSE, sni |-> FALSE, graceful |-> TRUE,
                     readyGated |-> FALSE, makeGated |-> FALSE, appGated |-> FALSE, nreq |-> 0]]
H0 == [r |-> NoReset, prev |-> <<>>, seen |-> {}, viol |-> <<>>, stalls |-> 0, nobs |-> 0]
Init == l = 0 /\ h = H0

If(c, v) == IF c THEN <<v>> ELSE <<>>
V(key, c, k) == [key |-> "conninfo/" \o key, c |-> c, k |-> k]
RECURSIVE Flat(_)
Flat(q) == IF q = <<>> THEN <<>> ELSE Head(q) \o Flat(Tail(q))
SeqOf(n, F(_)) == Flat([i \in 1..n |-> F(i)])

-----------------------------------------------------------------------------
\* one request q of connection c, in observation o of run R
Started(q) == q.app > 0
ReqClauses(R, o, c, q) ==
  LET cl == R.clients[c]
      cfg == R.cfg
      others == {d \in 1..Len(R.clients) : d # c}
      tlsOn == cfg.ti /\ cfg.tls
      judged == cfg.sni /\ tlsOn                          \* ValidateSNI sees TLS info
      fwdExpected == q.own /\ cl.hasSni
  IN
  (IF ~Started(q) THEN <<>> ELSE
     \* I2: present iff configured
        If(cfg.ci /\ ~q.hasCi, V("I2-missing/addr", c, q.k))
     \o If(~cfg.ci /\ q.hasCi, V("I2-unexpected/addr", c, q.k))
     \o If(tlsOn /\ ~q.hasTls, V("I2-missing/tls", c, q.k))
     \o If(~tlsOn /\ q.hasTls, V("I2-unexpected/tls", c, q.k))
     \o If(q.app > 1, V("I2-request-handled-twice", c, q.k))
     \* I1 / I5: the connection info is that of the connection the request arrived on
     \o (IF ~q.hasCi THEN <<>> ELSE
           (IF q.ciRemote = cl.expRemote THEN <<>>
            ELSE IF \E d \in others : R.clients[d].expRemote = q.ciRemote THEN <<V("I1-cross-info/addr-remote", c, q.k)>>
            ELSE IF cl.expRemoteMapped # "" /\ q.ciRemote = cl.expRemoteMapped THEN <<V("I5-not-canonical/" \o cfg.acc \o "-remote", c, q.k)>>
            ELSE <<V("I5-addr/" \o cfg.acc \o "-remote", c, q.k)>>)
        \o (IF q.ciLocal = cl.expLocal THEN <<>>
            ELSE IF \E d \in others : R.clients[d].expLocal = q.ciLocal THEN <<V("I1-cross-info/addr-local", c, q.k)>>
            ELSE IF R.listenMapped # "" /\ q.ciLocal = R.listenMapped THEN <<V("I5-not-canonical/" \o cfg.acc \o "-local", c, q.k)>>
            ELSE <<V("I5-addr/" \o cfg.acc \o "-local", c, q.k)>>))
     \* I1: the TLS info is that of the connection the request arrived on
     \o (IF ~q.hasTls \/ ~cfg.tls THEN <<>> ELSE
           (IF q.tlsHasSni = cl.hasSni /\ (cl.hasSni => q.tlsSni = cl.sni) THEN <<>>
            ELSE IF q.tlsHasSni /\ \E d \in others : R.clients[d].hasSni /\ R.clients[d].sni = q.tlsSni THEN <<V("I1-cross-info/tls-sni", c, q.k)>>
            ELSE <<V("I1-wrong-info/tls-sni", c, q.k)>>)
        \o If(q.tlsAlpn # cl.alpn, V("I1-wrong-info/tls-alpn", c, q.k)))
     \* I1 / I3: handled by the service made for this connection's stream
     \o (IF cfg.shared THEN If(q.tag # 0, V("I3-shared-tag", c, q.k))
         ELSE IF q.tag \notin 1..Len(o.makes) THEN <<V("I1-cross-info/service", c, q.k)>>
         \* the stream the service was made for is ANOTHER client's (an address that is nobody's is I5's business)
         ELSE If(cfg.acc # "duplex" /\ o.makes[q.tag].remote # cl.expRemote
                   /\ \E d \in others : o.makes[q.tag].remote \in {R.clients[d].expRemote, R.clients[d].expRemoteMapped} \ {""},
                 V("I1-cross-info/service", c, q.k))
           \o If(\E d \in others : d <= Len(o.conns) /\ \E j \in 1..Len(o.conns[d].reqs) :
                     Started(o.conns[d].reqs[j]) /\ o.conns[d].reqs[j].tag = q.tag, V("I1-cross-info/service", c, q.k))))
  \* I1 (C01 matching): what the client got back is the answer to its own request
  \o (IF ~q.resp THEN <<>> ELSE
        If(q.respC # c \/ q.respK # q.k, V("I1-response-mismatch/ids", c, q.k))
     \o If(Started(q) /\ (q.respTag # q.tag \/ q.respHasCi # q.hasCi \/ q.respCiRemote # q.ciRemote \/ q.respCiLocal # q.ciLocal
                          \/ q.respHasTls # q.hasTls \/ q.respTlsSni # q.tlsSni), V("I1-response-mismatch/body", c, q.k))
     \o If(~Started(q), V("I1-response-mismatch/unhandled", c, q.k)))
  \* I1 (C20): ValidateSNI behind the info layers judges against THIS connection's server name
  \o (IF ~judged THEN <<>> ELSE
        If(q.rej /\ fwdExpected, V("I1-sni-validation/own-rejected", c, q.k))
     \o If(Started(q) /\ ~fwdExpected, V("I1-sni-validation/other-forwarded", c, q.k))
     \o If(Started(q) /\ fwdExpected /\ q.hasTls /\ ~q.tlsValid, V("I1-sni-validation/not-marked", c, q.k)))

ConnClauses(R, o, c) ==
  LET cn == o.conns[c]
      st == SelectSeq(cn.reqs, Started)
  IN SeqOf(Len(cn.reqs), LAMBDA j : ReqClauses(R, o, c, cn.reqs[j]))
  \o If(\E i, j \in 1..Len(st) : st[i].hasCi # st[j].hasCi \/ st[i].ciRemote # st[j].ciRemote \/ st[i].ciLocal # st[j].ciLocal,
        V("I1-unstable/addr", c, 0))
  \o If(\E i, j \in 1..Len(st) : st[i].hasTls # st[j].hasTls \/ st[i].tlsHasSni # st[j].tlsHasSni \/ st[i].tlsSni # st[j].tlsSni \/ st[i].tlsAlpn # st[j].tlsAlpn,
        V("I1-unstable/tls", c, 0))

-----------------------------------------------------------------------------
\* the make-service step (the double is observable only when the stack is not tower::make::Shared)
NDone(o, what) == Cardinality({n \in 1..Len(o.makes) : o.makes[n].done = what})
MakeClauses(R, o) ==
  IF R.cfg.shared THEN <<>> ELSE
     If(Len(o.makes) > Len(o.accepts), V("I3-make-twice", 0, 0))
  \o If(Len(o.makes) < Len(o.accepts), V("I3-make-missing", 0, 0))
  \o If(\E n \in 1..Len(o.makes) : n <= Len(o.accepts) /\ (o.makes[n].remote # o.accepts[n].remote \/ o.makes[n].local # o.accepts[n].local),
        V("I3-make-wrong-stream", 0, 0))
  \o If(\E n \in 1..Len(o.makes) : o.sigFired /\ o.makes[n].seq > o.sigFireSeq, V("I3-make-after-signal", 0, 0))
  \o If(o.readyOks < Len(o.makes), V("I3-call-without-ready", 0, 0))
  \o If(o.serves # NDone(o, "ok"), V("I3-serve-count", 0, 0))

\* what the accepted streams say about themselves (I5, independent of the stack)
AcceptClauses(R, o) ==
  If(R.cfg.acc # "duplex" /\ \E n \in 1..Len(o.accepts) :
        ~\E c \in 1..Len(R.clients) : o.accepts[n].remote \in {R.clients[c].expRemote, R.clients[c].expRemoteMapped} \ {""},
     V("I5-accept-addr/" \o R.cfg.acc, 0, 0))

\* the serving future (C09): it ends only for an allowed reason
SrvClauses(R, o) ==
     If(o.srv # "running" /\ ~((o.srv = "ok" /\ o.sigFired) \/ (o.srv = "errmake" /\ o.decidedErr)),
        V("I4-ended/" \o o.srv \o "-without-cause", 0, 0))
  \o If(o.panics > 0, V("panic", 0, 0))
  \* a make future the double would resolve is still unresolved at a settled point: something of hyperdriver's own waits
  \o If(R.det /\ o.srv = "running" /\ ~o.sigFired /\ \E n \in 1..Len(o.makes) : o.makes[n].decided /\ o.makes[n].done = "",
        V("I4-accept-blocked/make-not-completed", 0, 0))

\* a step that acts on one connection changes neither another connection nor the accept loop (deterministic runs)
ClientActs == {"Hs", "HsFail", "Send", "Gate", "Close"}
DisturbClauses(R, p, o) ==
  IF ~R.det \/ p = <<>> \/ o.step.a \notin ClientActs THEN <<>> ELSE
  LET pp == p[1] c == o.step.c IN
     SeqOf(Len(o.conns), LAMBDA d : If(d # c /\ d <= Len(pp.conns) /\ o.conns[d] # pp.conns[d], V("I4-disturbed/" \o o.step.a, d, 0)))
  \o If(o.srv # pp.srv \/ Len(o.accepts) # Len(pp.accepts) \/ Len(o.makes) # Len(pp.makes) \/ o.serves # pp.serves,
        V("I4-disturbed/" \o o.step.a \o "-server", c, 0))

\* after the drain (every gate open, every pending decision Ok, every client cooperating)
Coop(R, cn) == cn.st = "open" /\ cn.hs # "garbage" /\ (R.cfg.tls => cn.tlsc = "ok")
RejectedBefore(cn, j) == \E i \in 1..(j - 1) : cn.reqs[i].rej
QuiesceClauses(R, o) ==
  IF o.kind # "quiesce" THEN <<>> ELSE
  SeqOf(Len(o.conns), LAMBDA c :
     LET cn == o.conns[c] IN
     IF ~Coop(R, cn) THEN
        If(cn.st = "pending" /\ o.srv = "running" /\ ~o.sigFired, V("I4-accept-blocked/never-accepted", c, 0))
     ELSE
        SeqOf(Len(cn.reqs), LAMBDA j :
           LET q == cn.reqs[j] IN
              If(Started(q) /\ ~q.rej /\ ~q.resp, V("I4-started-request-unanswered/" \o o.srv, c, q.k))
           \o If(o.srv = "running" /\ ~o.sigFired /\ ~Started(q) /\ ~q.rej /\ ~RejectedBefore(cn, j) /\ ~q.resp,
                 V("I4-not-served/running", c, q.k))))

ObsClauses(R, p, o) ==
     SeqOf(Len(o.conns), LAMBDA c : ConnClauses(R, o, c))
  \o MakeClauses(R, o) \o AcceptClauses(R, o) \o SrvClauses(R, o) \o DisturbClauses(R, p, o) \o QuiesceClauses(R, o)

\* I5: the address / protocol conversions against the vector spec (expected values generated by TLC from ConnInfoAddr.tla)
VecClauses(e) ==
  LET x == e.v.exp op == e.v.op IN
  IF e.panic THEN <<V("I5-vector/" \o op \o "-panic", 0, 0)>>
  ELSE IF op = "info_map" THEN
       If(e.o.local.display # x.local \/ e.o.remote.display # x.remote, V("I5-vector/" \o op, 0, 0))
  ELSE IF op = "direct_calls" THEN
       If(e.o.first # x.first, V("I2-missing/addr-direct-first-call", 0, 0))
    \o If(e.o.second # x.second, V("I2-missing/addr-direct-second-call-" \o (IF e.v.clone_per_call THEN "cloned" ELSE "same-instance"), 0, 0))
  ELSE IF op = "protocol_parse" THEN
       If(e.o.display # x.display \/ e.o.label # x.label \/ e.o.roundtrip # x.roundtrip, V("I5-vector/" \o op, 0, 0))
  ELSE If(e.o.kind # x.kind \/ e.o.display # x.display \/ e.o.tcp # x.tcp \/ e.o.path # x.path \/ e.o.hasPath # x.hasPath,
          V("I5-vector/" \o op, 0, 0))

-----------------------------------------------------------------------------
Stall(o) == o.srv = "running" /\ (\E n \in 1..Len(o.makes) : o.makes[n].done = "") /\ \E c \in 1..Len(o.conns) : o.conns[c].st = "pending"

Step ==
  /\ l < N
  /\ l' = l + 1
  /\ LET e == Rec[l + 1] IN
     IF e.e = "Reset"
     THEN h' = [h EXCEPT !.r = IF "cfg" \in DOMAIN e THEN e ELSE [NoReset EXCEPT !.run = e.run, !.id = e.id], !.prev = <<>>, !.seen = {}]
     ELSE LET all == IF e.e = "Vec" THEN VecClauses(e) ELSE ObsClauses(h.r, h.prev, e)
              new == SelectSeq(all, LAMBDA v : v.key \notin h.seen)
              \* once per key and run
              uniq == SelectSeq([i \in 1..Len(new) |-> [new[i] EXCEPT !.k = IF \E j \in 1..(i - 1) : new[j].key = new[i].key THEN 999 ELSE @]], LAMBDA v : v.k # 999)
          IN h' = [h EXCEPT !.viol = @ \o [i \in 1..Len(uniq) |-> uniq[i] @@ [l |-> l + 1, run |-> h.r.run, id |-> h.r.id, src |-> h.r.src]],
                            !.seen = @ \cup {uniq[i].key : i \in 1..Len(uniq)},
                            !.prev = IF e.e = "Obs" THEN <<e>> ELSE @,
                            !.nobs = @ + 1,
                            !.stalls = @ + (IF e.e = "Obs" /\ Stall(e) THEN 1 ELSE 0)]

Spec == Init /\ [][Step]_vars

\* the trace is well-formed (a failure here is a tool error, not a verdict)
Sane == l > 0 => Rec[l].e \in {"Reset", "Obs", "Vec"}
\* the whole trace was read
Consumed == TLCGet("stats").diameter - 1 = N
\* printed once, at the end of the trace
Report == l = N => /\ PrintT(<<"VIOL", ToJson(h.viol)>>)
                   /\ PrintT(<<"INFO", ToJson([judged |-> h.nobs, stall_observations |-> h.stalls])>>)
=============================================================================
