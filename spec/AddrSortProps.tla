--------------------------- MODULE AddrSortProps ---------------------------
(* Property formulas of C16 as constant-level operators over                                       *)
(*   v = [ list : the resolver's answer, a sequence of addresses [f |-> 4 | 6, t |-> tag]           *)
(*                (the same address may occur several times),                                       *)
(*         bind : which local addresses are configured: "none" | "v4" | "v6" | "both",              *)
(*         he   : TRUE iff happy_eyeballs_timeout is Some (a configuration dimension of the code),  *)
(*         port : the port of the request URI ]                                                     *)
(*   o = [ plan : the connection attempts in the order they are started, a sequence of              *)
(*                [f, t, port] ]                                                                     *)
(* The same operators are invariants of the model AddrSort.tla and are evaluated by TLC in          *)
(* AddrSortObs.tla over plans recorded from the real TcpTransport (verif_plan, connect_to_addrs).   *)
EXTENDS Integers, Sequences, FiniteSets

Key(a) == <<a.f, a.t>>
Keys(s) == [i \in 1..Len(s) |-> Key(s[i])]
Count(s, x) == Cardinality({i \in 1..Len(s) : Key(s[i]) = x})

(* "the preferred family (IPv6 unless only an IPv4 local address is bound)" *)
Preferred(v) == IF v.bind = "v4" THEN 4 ELSE 6
OtherFam(v)  == IF Preferred(v) = 4 THEN 6 ELSE 4

\* index of the first address of family fam in s, 0 if there is none
FirstOf(s, fam) == IF \E i \in 1..Len(s) : s[i].f = fam
                   THEN CHOOSE i \in 1..Len(s) : s[i].f = fam /\ \A j \in 1..(i-1) : s[j].f # fam
                   ELSE 0
\* s without the positions in D, order kept
Without(s, D) == LET F[i \in 0..Len(s)] == IF i = 0 THEN <<>>
                                           ELSE IF i \in D THEN F[i-1] ELSE Append(F[i-1], s[i])
                 IN F[Len(s)]

P(v) == FirstOf(v.list, Preferred(v))
Q(v) == FirstOf(v.list, OtherFam(v))
NHeads(v) == (IF P(v) > 0 THEN 1 ELSE 0) + (IF Q(v) > 0 THEN 1 ELSE 0)

(* "Sorting resolved addresses for connection is a permutation of the resolver's answer: no address *)
(*  is lost or duplicated."  (multiset equality; ports are not part of the identity)                *)
C16_Permutation(v, o) ==
  /\ Len(o.plan) = Len(v.list)
  /\ \A x \in {Key(v.list[i]) : i \in 1..Len(v.list)} \cup {Key(o.plan[i]) : i \in 1..Len(o.plan)} :
        Count(o.plan, x) = Count(v.list, x)

(* "The first address of the preferred family comes first, *)
C16_PreferredFirst(v, o) ==
  P(v) > 0 => Len(o.plan) >= 1 /\ Key(o.plan[1]) = Key(v.list[P(v)])

(*  the first address of the other family second,  (first, when the preferred family is absent) *)
C16_OtherSecond(v, o) ==
  Q(v) > 0 => /\ Len(o.plan) >= NHeads(v)
              /\ Key(o.plan[NHeads(v)]) = Key(v.list[Q(v)])

(*  the remaining addresses keep the resolver's order, *)
C16_RestKeepsOrder(v, o) ==
  /\ Len(o.plan) >= NHeads(v)
  /\ Keys(SubSeq(o.plan, NHeads(v) + 1, Len(o.plan))) = Keys(Without(v.list, {P(v), Q(v)}))

(*  every address carries the port of the request URI, *)
C16_Port(v, o) == \A i \in 1..Len(o.plan) : o.plan[i].port = v.port

(*  and connection attempts are started in the resulting order."                                     *)
(*  o.plan IS the start order: the order in which TcpConnecting hands the addresses to the happy-    *)
(*  eyeballs set (C11 shows the set starts them in that order) or, in the loopback test, the order   *)
(*  in which the connections arrive at the listener.                                                 *)
C16(v, o) == /\ C16_Permutation(v, o) /\ C16_PreferredFirst(v, o) /\ C16_OtherSecond(v, o)
             /\ C16_RestKeepsOrder(v, o) /\ C16_Port(v, o)

(* the same clause observed where it is decided: with one attempt at a time and every candidate accepting, the only *)
(* connection ever started is the head of the resulting order                                                     *)
C16_FirstStarted(v, o) ==
  /\ Len(o.plan) = 1
  /\ Key(o.plan[1]) = Key(v.list[IF P(v) > 0 THEN P(v) ELSE Q(v)])
  /\ C16_Port(v, o)

C16_Clauses(v, o) ==
  (IF C16_Permutation(v, o) THEN {} ELSE {"C16_Permutation"}) \cup
  (IF C16_PreferredFirst(v, o) THEN {} ELSE {"C16_PreferredFirst"}) \cup
  (IF C16_OtherSecond(v, o) THEN {} ELSE {"C16_OtherSecond"}) \cup
  (IF C16_RestKeepsOrder(v, o) THEN {} ELSE {"C16_RestKeepsOrder"}) \cup
  (IF C16_Port(v, o) THEN {} ELSE {"C16_Port"})
=============================================================================
