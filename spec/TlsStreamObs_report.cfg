\* TlsStream monitor, screening pass after a violation: lists ALL falsified observations (never false)
INIT ObsInit
NEXT ObsNext
VIEW ObsView
CONSTANTS
  MaxOps = 0
  MaxBytes = 0
  MaxRx = 0
  Bug = "asbuilt"
  Sides = {}
  Certs = {}
  ReadCaps = {}
  WriteLens = {}
  SendLens = {}
INVARIANTS
  I_Sane
  Report
