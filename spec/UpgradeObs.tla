----------------------------- MODULE UpgradeObs -----------------------------
(***************************************************************************)
(* Property monitor for protocol upgrades through the real stack (a stage  *)
(* of C02 C18 C01 C13), evaluated by TLC over observations RECORDED FROM   *)
(* THE REAL CRATE by harness/src/bin/upgrade.rs (IOEnv.TRACE, ndjson; one  *)
(* record per executed scenario):                                          *)
(*   scn   the scenario: client / stack / server / cut / hold, the         *)
(*         requests (kind, early bytes), the steps                         *)
(*   obs   after every step (settled): per request its state, status, the  *)
(*         connection that carried it (client side id, server side id),    *)
(*         the two `upgrade::on` results, bytes written into and read out  *)
(*         of both directions of its tunnel (maximal runs of consecutive   *)
(*         numbered bytes), EOFs; the pool's idle list                     *)
(*   end   the same after everything held back was released                *)
(*   fin   details: responses, what the server's handler saw, per client   *)
(*         connection the requests sent on it (and whether that was after  *)
(*         an accepted upgrade)                                            *)
(*   exp   (generated scenarios) what spec/Upgrade.tla expects to be       *)
(*         observable after every step                                     *)
(* The monitor constrains nothing: its next-state relation is "take the    *)
(* next record".  It evaluates the clauses U1..U5 on every record and      *)
(* collects every falsified clause with a stable key                       *)
(*     upgrade/<clause>/<where>                                            *)
(* (VIOL; which property a clause belongs to is decided by the stage:      *)
(* checks/x_upgrade.py).  Where the record carries the model's             *)
(* expectation it also reports the differences: DRIFT, never a violation.  *)
(***************************************************************************)
EXTENDS Naturals, Sequences, FiniteSets, TLC, Json, IOUtils

Rec == ndJsonDeserialize(IOEnv.TRACE)
N   == Len(Rec)
MaxKept == 400
PerKey  == 12

VARIABLES l, h
vars == <<l, h>>

H0 == [viol |-> <<>>, nviol |-> 0, drift |-> <<>>, ndrift |-> 0, nruns |-> 0, nsteps |-> 0, ntun |-> 0, nreq |-> 0, nexp |-> 0]
Init == l = 0 /\ h = H0

V(key, c, run, r, i) == [key |-> key, c |-> c, l |-> l + 1, run |-> run, r |-> r, i |-> i]
RECURSIVE AddV(_, _)
AddV(hh, vs) == IF vs = <<>> THEN hh
                ELSE LET v == Head(vs)
                         n == Cardinality({i \in 1..Len(hh.viol) : hh.viol[i].key = v.key})
                     IN AddV([hh EXCEPT !.viol = IF n < PerKey THEN Append(@, v) ELSE @, !.nviol = @ + 1], Tail(vs))
AddD(hh, ds) == [hh EXCEPT !.drift = IF Len(@) < MaxKept THEN @ \o ds ELSE @, !.ndrift = @ + Len(ds)]
If(c, v) == IF c THEN <<v>> ELSE <<>>
RECURSIVE Cat(_)
Cat(ss) == IF ss = <<>> THEN <<>> ELSE Head(ss) \o Cat(Tail(ss))
Seq1(n, F(_)) == Cat([i \in 1..n |-> F(i)])

Base(k) == CASE k = "h2plain" -> "plain" [] k = "h2up" -> "up" [] k = "h2connect" -> "connect" [] OTHER -> k
IsH2Kind(k)   == k \in {"h2plain", "h2up", "h2connect"}
Upgradeish(k) == Base(k) \in {"up", "connect", "refuse", "refuseclose"}
HasUpHdr(k)   == Base(k) \in {"up", "refuse", "refuseclose"}
Off(r, d) == (r * 37 + d * 101) % 251
Mod251(a, b) == ((a + 251) - b) % 251         \* (a - b) mod 251 for a, b in 0..250

(* ---- one direction of one tunnel: what was read against what was written ---- *)
Exact(lg, r, d) == \/ lg.n = 0 /\ lg.runs = <<>>
                   \/ Len(lg.runs) = 1 /\ lg.runs[1][1] = Off(r, d) /\ lg.runs[1][2] = lg.n
\* the kind of damage, from the runs: which byte is the first one that is not the expected one
Damage(lg, r, d, early) ==
  LET r1 == lg.runs[1]
      startsRight == r1[1] = Off(r, d)
      good == IF startsRight THEN r1[2] ELSE 0                 \* bytes that arrived in place before the damage
      nextRun == IF startsRight THEN (IF Len(lg.runs) >= 2 THEN lg.runs[2] ELSE <<0, 0>>) ELSE r1
      delta == Mod251(nextRun[1], (Off(r, d) + good) % 251)      \* how far ahead of the expected byte the stream continues
      inEarly == d = 0 /\ good < early
      what == IF delta >= 1 /\ delta <= 125 THEN "lost" ELSE "duplicated"
  IN IF lg.runs = <<>> THEN "U2-bytes-altered"
     ELSE IF startsRight /\ Len(lg.runs) = 1 THEN "U2-bytes-altered"
     ELSE IF inEarly THEN "U2-early-bytes-" \o what ELSE "U2-bytes-" \o what

StepIdx(S, a, r) == LET X == {j \in 1..Len(S.steps) : S.steps[j].a = a /\ S.steps[j].r = r} IN IF X = {} THEN 0 ELSE CHOOSE j \in X : \A k \in X : j <= k
ShutAt(S) == StepIdx(S, "Shutdown", 0)
Dropped(S, r) == StepIdx(S, "CDrop", r) > 0 \/ StepIdx(S, "SDrop", r) > 0

DoRun(rec) ==
  LET S    == rec.scn
      NR   == Len(S.reqs)
      NS   == Len(rec.obs)
      O(i) == IF i <= NS THEN rec.obs[i] ELSE rec.end
      raw  == S.client = "raw"
      kc   == IF raw THEN "raw-client" ELSE S.client \o "-" \o S.stack
      ks   == S.server \o "-server" \o (IF S.tls THEN "-tls" ELSE "")
      kcut == rec.kcut
      KC(c) == "upgrade/" \o c \o "/" \o kc
      KS(c) == "upgrade/" \o c \o "/" \o ks \o "/" \o kcut
      KCS(c) == "upgrade/" \o c \o "/" \o kc \o "/" \o ks
      VV(key, c, r, i) == V(key, c, S.id, r, i)
      kind(r) == S.reqs[r].kind
      sd   == ShutAt(S)
      aborted == "aborted" \in DOMAIN rec
      (* ---- U1 ---- *)
      u1 ==   If(\E j \in 1..Len(rec.fin.conns) : \E s \in 1..Len(rec.fin.conns[j].sends) : rec.fin.conns[j].sends[s].after,
                 VV(KC("U1-reused-after-upgrade"), "U1-reused-after-upgrade", 0, 0))
           \o If(\E j \in 1..Len(rec.fin.handles) : rec.fin.handles[j].afterUp,
                 VV(KC("U1-handled-after-upgrade"), "U1-handled-after-upgrade", 0, 0))
           \o If(\E i \in 1..(NS + 1) : \E x \in 1..Len(O(i).idle) : \E r \in 1..NR :
                    O(i).idle[x].c = O(i).rq[r].c /\ O(i).rq[r].con = "ok",
                 VV(KC("U1-idle-after-upgrade"), "U1-idle-after-upgrade", 0, 0))
           \o If(\E j \in 1..Len(rec.fin.conns) : rec.fin.conns[j].openAfterUp > 0 \/ rec.fin.conns[j].readyAfterUp > 0,
                 VV(KC("U1-open-after-upgrade"), "U1-open-after-upgrade", 0, 0))
      (* ---- U2: per tunnel and direction; d = 0 client to server, d = 1 server to client ---- *)
      Wr(o, d) == IF d = 0 THEN o.cw ELSE o.sw          \* the writing end
      Rd(o, d) == IF d = 0 THEN o.sr ELSE o.cr          \* what the far application has read
      RdEnd(o, d) == IF d = 0 THEN o.sw ELSE o.cw       \* the reading end (its write half tells whether it exists / was dropped)
      early(r) == S.reqs[r].early
      BadAt(r, d) == {i \in 1..(NS + 1) : ~Exact(Rd(O(i).rq[r], d), r, d) \/ Rd(O(i).rq[r], d).n > Wr(O(i).rq[r], d).w}
      FirstBad(r, d) == CHOOSE i \in BadAt(r, d) : \A j \in BadAt(r, d) : i <= j
      u2a(r, d) == IF BadAt(r, d) = {} THEN <<>>
                   ELSE LET i == FirstBad(r, d)
                            o == O(i).rq[r]
                            c == IF ~Exact(Rd(o, d), r, d) THEN Damage(Rd(o, d), r, d, early(r)) ELSE "U2-bytes-invented"
                        IN <<VV(KS(c), c, r, i)>>
      u2b(r, d) ==    \* at the end: everything written has arrived, the end of the stream too
         LET o == rec.end.rq[r]
             both == Wr(o, d).ws # "none" /\ RdEnd(o, d).ws # "none"
             live == both /\ ~Dropped(S, r) /\ Wr(o, d).ws \in {"open", "shut"} /\ RdEnd(o, d).ws \in {"open", "shut"}
             pre  == IF sd > 0 THEN "G-" ELSE "U2-"      \* after the shutdown signal the text of C18 / C07 does not say what becomes of a tunnel
             suf  == IF sd > 0 THEN "-after-shutdown" ELSE ""
             K(c) == VV(KS(pre \o c \o suf), pre \o c \o suf, r, NS + 1)
         IN IF BadAt(r, d) # {} \/ ~both THEN <<>>
            ELSE   If(live /\ Rd(o, d).n < Wr(o, d).w, K("bytes-missing"))
                \o If(live /\ Wr(o, d).ws = "shut" /\ ~Rd(o, d).eof, K("eof-lost"))
                \o If(live /\ Wr(o, d).ws = "open" /\ Rd(o, d).eof, K("eof-invented"))
                \o If(live /\ Rd(o, d).err, K("error-invented"))
                \o If(~Dropped(S, r) /\ Wr(o, d).ws = "failed", K("write-failed"))
      u2 == Seq1(NR, LAMBDA r : u2a(r, 0) \o u2a(r, 1) \o u2b(r, 0) \o u2b(r, 1))
      (* ---- U3, U4, U5: per request at the end ---- *)
      Hs(r) == {j \in 1..Len(rec.fin.handles) : rec.fin.handles[j].r = r}
      ConnOf(r) == {j \in 1..Len(rec.fin.conns) : \E s \in 1..Len(rec.fin.conns[j].sends) : rec.fin.conns[j].sends[s].r = r}
      issuedAt(r) == StepIdx(S, "Issue", r)
      perReq(r) ==
        LET q  == rec.fin.reqs[r]
            k  == kind(r)
            b  == Base(k)
            h2 == q.ver = "h2"
            rs == ToString(r)
            afterShut == sd > 0 /\ issuedAt(r) > sd
            onH2conn == \E j \in ConnOf(r) : rec.fin.conns[j].ver = "h2"
            rejected == q.st = "error" /\ q.errk = "invalid-method"
            accepted == q.st = "resp" /\ ~h2 /\ ((b = "up" /\ q.sc = 101) \/ (b = "connect" /\ q.sc = 200))
            wantSc == IF h2 THEN 200 ELSE IF b = "up" THEN 101 ELSE 200
            wantBody == IF h2 THEN "h2:" \o rs ELSE CASE b = "plain" -> "ok:" \o rs [] b \in {"refuse", "refuseclose"} -> "refused:" \o rs [] OTHER -> ""
            respOK == /\ q.sc = wantSc
                      /\ (~h2 /\ b = "up" => q.up = "verif" /\ q.conn = "upgrade")
                      /\ (~h2 /\ b = "refuseclose" => q.conn = "close")
                      /\ (~accepted => q.bodyst = "ok" /\ q.body = wantBody)
            hOK(j) == LET hh == rec.fin.handles[j]
                      IN /\ hh.kind = k /\ hh.blen = 0
                         /\ hh.method = (IF b = "connect" THEN "CONNECT" ELSE "GET")
                         /\ (b # "connect" => hh.prid = r)
            hHdr(j) == LET hh == rec.fin.handles[j] IN (hh.ver = "h1" /\ HasUpHdr(k)) => (hh.up = "verif" /\ hh.conn = "upgrade")
            hH2(j)  == LET hh == rec.fin.handles[j] IN hh.ver = "h2" => (hh.up = "" /\ hh.conn = "" /\ hh.host = "")
            hTarget(j) == LET hh == rec.fin.handles[j]
                          IN hh.ver = "h1" => hh.target = (IF b = "connect" THEN "up.verif.test" ELSE "/k/" \o k \o "/" \o rs)
            hHost(j) == LET hh == rec.fin.handles[j] IN hh.ver = "h1" => hh.host = "up.verif.test"
        IN   \* U3 (C01)
             \* excused: issued after the signal (nobody listens); never reached the server's handler before the signal (the server
             \* cancels what it has not started); CONNECT over HTTP/2 (rejected by design, U4); the raw client dropped it (cancelled)
             If(q.st = "error" /\ ~afterShut /\ ~(sd > 0 /\ Hs(r) = {}) /\ ~(b = "connect" /\ rejected), VV(KCS("U3-request-failed"), "U3-request-failed", r, 0))
          \o If(q.st = "pending" /\ ~(raw /\ StepIdx(S, "CDrop", r) > 0), VV(KCS("U3-request-stalled"), "U3-request-stalled", r, 0))
          \o If(q.st = "resp" /\ (q.hrid # r \/ (~raw /\ q.hkind # k)), VV(KCS("U3-response-mismatched"), "U3-response-mismatched", r, 0))
          \o If(q.st = "resp" /\ q.hrid = r /\ ~respOK, VV(KCS("U3-response-altered"), "U3-response-altered", r, 0))
          \o If(q.st = "resp" /\ Cardinality(Hs(r)) # 1, VV(KCS("U3-request-not-handled-once"), "U3-request-not-handled-once", r, 0))
          \o If(\E j \in Hs(r) : ~hOK(j), VV(KCS("U3-request-altered"), "U3-request-altered", r, 0))
          \o If(~raw /\ \E j \in Hs(r) : ~hHdr(j), VV(KCS("U3-upgrade-headers-lost"), "U3-upgrade-headers-lost", r, 0))
             \* U4 (C13)
          \o If(\E j \in Hs(r) : ~hH2(j), VV(KC("U4-h2-connection-headers"), "U4-h2-connection-headers", r, 0))
          \o If(q.st = "resp" /\ h2 /\ (q.sc = 101 \/ q.con = "ok"), VV(KC("U4-h2-switch"), "U4-h2-switch", r, 0))
          \o If(b = "connect" /\ (\E j \in Hs(r) : rec.fin.handles[j].ver = "h2" \/ (onH2conn /\ ~rejected)),
                VV(KC("U4-h2-connect-not-rejected"), "U4-h2-connect-not-rejected", r, 0))
          \o If(~raw /\ \E j \in Hs(r) : ~hTarget(j), VV(KC("U4-h1-target"), "U4-h1-target", r, 0))
          \o If(~raw /\ \E j \in Hs(r) : ~hHost(j), VV(KC("U4-h1-host"), "U4-h1-host", r, 0))
             \* U5
          \o If(accepted /\ (q.con = "pending" \/ q.son = "pending" \/ q.son = "none"), VV(KCS("U5-on-unresolved"), "U5-on-unresolved", r, 0))
          \o If(accepted /\ (q.con = "err" \/ q.son = "err"), VV(KCS("U5-on-failed"), "U5-on-failed", r, 0))
          \o If(~raw /\ q.st = "resp" /\ ~accepted /\ Upgradeish(k) /\ q.con # "err", VV(KCS("U5-refused-on-not-error"), "U5-refused-on-not-error", r, 0))
          \o If(~raw /\ \E i \in 1..NS : O(i).rq[r].st = "resp" /\ O(i).rq[r].con = "pending", VV(KCS("U5-on-late"), "U5-on-late", r, 0))
      u345 == Seq1(NR, perReq)
      \* the protocol of a connection follows the request it was made for (client side ids; the http1-only client never speaks HTTP/2)
      u4c == Seq1(Len(rec.fin.conns), LAMBDA j :
               LET cn == rec.fin.conns[j]
                   first == cn.dialFor
                   wantH2 == S.client = "auto" /\ first >= 1 /\ first <= NR /\ IsH2Kind(kind(first))
               IN If(cn.ver # "" /\ first >= 1 /\ first <= NR /\ ((cn.ver = "h2") # wantH2),
                     VV(KC("U4-connection-protocol"), "U4-connection-protocol", first, 0)))
      pan == If(rec.panics > 0 \/ aborted, VV(KC("panic"), "panic", 0, 0))
      vs == IF aborted THEN pan ELSE u1 \o u2 \o u345 \o u4c \o pan
      (* ---- the model's expectation (generated scenarios): DRIFT ---- *)
      hasExp == ~aborted /\ Len(rec.exp) = NS + 1
      cmpReq(i, r) ==
         LET e == rec.exp[i + 1].rq[r]
             o == rec.obs[i].rq[r]
             skip == Dropped(S, r) /\ (StepIdx(S, "CDrop", r) \in 1..i \/ StepIdx(S, "SDrop", r) \in 1..i)
         IN   (IF e.st # o.st THEN {"st"} ELSE {})
         \cup (IF e.con # o.con THEN {"con"} ELSE {})
         \cup (IF e.son # o.son THEN {"son"} ELSE {})
         \cup (IF skip \/ e.code # "switch" THEN {} ELSE      \* (tunnel counters: only where the model has a tunnel)
                    (IF e.cw # o.cw.w THEN {"cw"} ELSE {}) \cup (IF e.sn # o.sr.n THEN {"sn"} ELSE {}) \cup (IF e.seof # o.sr.eof THEN {"seof"} ELSE {})
               \cup (IF e.sw # o.sw.w THEN {"sw"} ELSE {}) \cup (IF e.cn # o.cr.n THEN {"cn"} ELSE {}) \cup (IF e.ceof # o.cr.eof THEN {"ceof"} ELSE {}))
      cmpStep(i) ==
         LET e == rec.exp[i + 1]
             o == rec.obs[i]
             nopen == Cardinality({x \in 1..Len(o.idle) : o.idle[x].open})
         IN UNION {cmpReq(i, r) : r \in 1..NR}
            \cup (IF e.dials # o.dials THEN {"dials"} ELSE {})
            \cup (IF S.stack = "pool" /\ ~raw /\ e.idle # nopen THEN {"idle"} ELSE {})
      badSteps == IF hasExp THEN {i \in 1..NS : cmpStep(i) # {}} ELSE {}
      ds == IF badSteps = {} THEN <<>>
            ELSE LET i == CHOOSE i \in badSteps : \A j \in badSteps : i <= j
                 IN <<[l |-> l + 1, run |-> S.id, i |-> i, a |-> S.steps[i].a, df |-> cmpStep(i), where |-> kc \o "/" \o ks]>>
      h1 == [h EXCEPT !.nruns = @ + 1, !.nsteps = @ + NS, !.nreq = @ + NR, !.nexp = @ + (IF hasExp THEN 1 ELSE 0),
                      !.ntun = @ + (IF aborted THEN 0 ELSE Cardinality({r \in 1..NR : rec.end.rq[r].cw.ws # "none" /\ rec.end.rq[r].sw.ws # "none"}))]
  IN AddD(AddV(h1, vs), ds)

Next == /\ l < N
        /\ l' = l + 1
        /\ h' = DoRun(Rec[l + 1])

Spec == Init /\ [][Next]_vars

Sane == l > 0 => Rec[l].e = "Run"
Report == l = N => /\ PrintT(<<"VIOL", ToJson(h.viol)>>)
                   /\ PrintT(<<"DRIFT", ToJson(h.drift)>>)
                   /\ PrintT(<<"STATS", ToJson([nviol |-> h.nviol, ndrift |-> h.ndrift, nruns |-> h.nruns, nsteps |-> h.nsteps,
                                                ntun |-> h.ntun, nreq |-> h.nreq, nexp |-> h.nexp])>>)
Consumed == TLCGet("stats").diameter - 1 = N
=============================================================================
