\* intended behaviour, every m, len, eof, EVERY chunking of the 32-byte window (MaxCuts = 31 = all 2^31 cut sets), Pending anywhere
CONSTANTS
    AsBuiltCompare = FALSE
    MaxCuts = 31
    Caps <- MCCaps
    Window <- MCWindow
    GenK = 0
    Tier = "thorough"
SPECIFICATION Spec
VIEW viewVars
INVARIANTS TypeOK C08Decision C08Bytes C08Answer C08BytesPrefix SniffBuffer
