CONSTANTS
  N = 4
  Grid <- tGrid
  Delays <- tDelays
  Timeouts <- tTimeouts
  Concs <- tConcs
INIT Init
NEXT Next
INVARIANTS TypeOK C10Inv C11Inv Tight Emit
CHECK_DEADLOCK FALSE
