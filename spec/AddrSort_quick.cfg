CONSTANTS
  MaxLen = 6
  Tags <- cTags
  Ports <- cPorts
  FullPortLen = 6
  DefaultPort = 80
  SortAlways = TRUE
INIT Init
NEXT Next
INVARIANTS C16Inv Tight
CHECK_DEADLOCK FALSE
