INIT GenInitThorough
NEXT GenNext
CONSTANT HdrSets <- ThoroughHdrSets
CONSTANT Methods <- AllMethods
CONSTANT Schemes <- AllSchemes
