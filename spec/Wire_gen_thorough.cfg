INIT GenInitThorough
NEXT GenNext
CONSTANT HdrSets <- ThoroughHdrSets
CONSTANT Methods <- AllMethods
CONSTANT SeqDom <- ThoroughSeqDom
CONSTANT Schemes <- AllSchemes
