----------------------------- MODULE MC_Stream -----------------------------
(* Model-checking / generation instance of Stream.tla: constants, VIEW, JSON printing. *)
EXTENDS Stream, Json, IOUtils, SequencesExt

St(name, layers, p, ivec, mode, B) ==
  [name |-> name, layers |-> layers, p |-> p, ivec |-> ivec, mode |-> mode, B |-> B]

(* the distinct MODELS (names are irrelevant to the model; one representative per shape) *)
MCModelStacks ==
     { St("T2H", <<"T2H">>, 0, v, "script", 0) : v \in BOOLEAN }
  \cup { St("H2T", <<"H2T">>, 0, v, "script", 0) : v \in BOOLEAN }
  \cup { St("RW", <<"RW">>, p, TRUE, "script", 0) : p \in {0, 1, 3, 6} }
  \cup { St("DISP", <<"DISP">>, 0, TRUE, "script", 0) }
  \cup { St("T2H_CS", <<"T2H", "DISP">>, 0, TRUE, "script", 0) }
  \cup { St("COMBO", <<"H2T", "RW", "T2H">>, p, v, "script", 0) : p \in {0, 3}, v \in BOOLEAN }
  \cup { St("DUP", <<>>, 0, FALSE, "pipe", b) : b \in {1, 2, 5} }

(* the REAL stacks the harness can build (harness/src/bin/stream.rs maps `name` to the construction) *)
MCScriptStacks ==
     { St("T2H", <<"T2H">>, 0, v, "script", 0) : v \in BOOLEAN }
  \cup { St("H2T", <<"H2T">>, 0, v, "script", 0) : v \in BOOLEAN }
  \cup { St("RW", <<"RW">>, p, v, "script", 0) : p \in {0, 1, 3, 6}, v \in BOOLEAN }
  \cup { St(n, <<"DISP">>, 0, TRUE, "script", 0) : n \in {"TLSB_NOTLS", "TLSB_TLS", "CSTREAM", "SSTREAM"} }
  \cup { St("T2H_CS", <<"T2H", "DISP">>, 0, TRUE, "script", 0) }
  \cup { St("COMBO", <<"H2T", "RW", "T2H">>, p, v, "script", 0) : p \in {0, 3}, v \in BOOLEAN }
MCRewindStacks == { St("RW", <<"RW">>, p, TRUE, "script", 0) : p \in {1, 3, 6} }
                  \cup { St("COMBO", <<"H2T", "RW", "T2H">>, 3, TRUE, "script", 0) }
MCPipeStacks ==
     { St("DUP", <<>>, 0, FALSE, "pipe", b) : b \in {1, 2, 5} }
  \cup { St(n, <<>>, 0, FALSE, "pipe", b) : n \in {"DUPNEW", "BRAID_DUP", "CSSS_DUP"}, b \in {1, 3} }
MCSockStacks ==
     { St(n, <<>>, 0, FALSE, "sock", 300) : n \in {"TCP", "BRAID_TCP", "CSSS_TCP", "UNIX", "BRAID_UNIX", "CSSS_UNIX"} }
MCAllStacks == MCScriptStacks \cup MCPipeStacks \cup MCSockStacks

MCReadCaps == {0, 1, 2, 5}
MCReadPres == {0, 1, 3}
MCUBs      == BOOLEAN
MCUBsOne   == {TRUE}
MCWriteLens == {0, 1, 3}
MCVecLens  == {<<1, 2>>, <<0, 2>>, <<2, 0, 1>>, <<0, 0>>}
MCRInj     == {"full", "s1", "s2", "pend", "eof", "err"}
MCWInj     == {"full", "s1", "s2", "pend", "eof", "err"}
MCCInj     == {"full", "pend", "err"}
MCRInjFew  == {"full", "s1", "pend", "eof", "err"}

(* pure model checking: the history is not part of the state *)
MCView == <<stack, ms, ref, bad, ev>>

(* generation: print every complete op sequence as JSON (one line per behaviour) *)
Done == ms.i = MaxSteps
GenPrint == Done => PrintT(<<"SEQ", ToJson([stack |-> stack, ops |-> hist])>>)

(* exhaustive read-only sequences for the stateful adapter (Rewind): reads of every cap/pre against every
   remaining-prefix length *)
NextReads == Read
SpecReads == Init /\ [][NextReads]_vars

(* pseudo-random op sequences computed by TLC: GENK (env) sequences per stack, reproducible for a given
   GENSEED (env).  The first element of hist (op "id", skipped by the harness) carries the sequence number in
   `pre` and the state of a small linear congruential generator in `cap`. *)
GenK     == atoi(IOEnv.GENK)
GenSeed  == atoi(IOEnv.GENSEED)
StackSeq == SetToSeq(Stacks)
LCG(r)   == (r * 75 + 74) % 65537
Pick(s, r) == s[((r \div 3) % Len(s)) + 1]
GCaps == <<0, 1, 2, 5>>
GPres == <<0, 1, 3>>
GBool == <<TRUE, FALSE>>
GWLens == <<0, 1, 3>>
GVLens == <<<<1, 2>>, <<0, 2>>, <<2, 0, 1>>, <<0, 0>>>>
GInj  == <<"full", "s1", "s2", "pend", "eof", "err", "full">>
GCInj == <<"full", "pend", "err", "full">>
GenInit == \E idx \in 1..Len(StackSeq), k \in 1..GenK :
           /\ stack = StackSeq[idx]
           /\ ms = MS0(stack)
           /\ ref = Ref0(stack)
           /\ bad = {}
           /\ ev = NoEv
           /\ hist = <<[In0 EXCEPT !.op = "id", !.pre = k,
                                   !.cap = LCG(LCG((GenSeed % 4099) * 13 + idx * 1009 + k * 31) + k)]>>
GenOp(S, r0) ==
  LET r1 == LCG(r0)  r2 == LCG(r1)  r3 == LCG(r2)  r4 == LCG(r3)  r5 == LCG(r4)  r6 == LCG(r5)
      k  == ((r1 \div 3) % 10) + 1
      sc == S.mode = "script"
      d  == IF sc THEN "ab" ELSE Pick(<<"ab", "ba">>, r2)
      ij == IF sc THEN Pick(GInj, r3) ELSE "full"
      cj == IF sc THEN Pick(GCInj, r3) ELSE "full"
  IN [r  |-> r6,
      in |-> CASE k <= 4 -> [In0 EXCEPT !.op = "read", !.dir = d, !.cap = Pick(GCaps, r4), !.pre = Pick(GPres, r5),
                                        !.ub = Pick(GBool, r6), !.inj = ij]
               [] k <= 6 -> [In0 EXCEPT !.op = "write", !.dir = d, !.lens = <<Pick(GWLens, r4)>>, !.inj = ij]
               [] k <= 8 -> [In0 EXCEPT !.op = "writev", !.dir = d, !.lens = Pick(GVLens, r4), !.inj = ij]
               [] k = 9  -> [In0 EXCEPT !.op = "flush", !.dir = d, !.inj = cj]
               [] OTHER  -> [In0 EXCEPT !.op = "shutdown", !.dir = d, !.inj = cj]]
GenNext == LET g == GenOp(stack, hist[1].cap)
           IN DoH(g.in, Append([hist EXCEPT ![1].cap = g.r], g.in))
SpecGen == GenInit /\ [][GenNext]_vars
=============================================================================
