---- MODULE MC_Eyeballs ----
EXTENDS Eyeballs
\* quick: N = 3, 82 000 scenarios
qGrid     == {0, 1, 2, 4}
qDelays   == {NONE, 0, 1, 3}
qTimeouts == {NONE, 0, 2, 3, 5}
qConcs    == {NONE, 0, 1, 2, 3}
\* thorough: N = 4, 5-point grid
tGrid     == {0, 1, 2, 3, 5}
tDelays   == {NONE, 0, 1, 2, 3}
tTimeouts == {NONE, 0, 2, 3, 5, 7}
tConcs    == {NONE, 0, 1, 2, 3, 4}
\* quick, directed family with FOUR attempts (interactions that need a 4th candidate, e.g. a second failure
\* while another attempt is still running and a candidate is still queued): n = 4 only, small grids
dGrid     == {0, 1}
dDelays   == {NONE, 1}
dTimeouts == {NONE, 3}
dConcs    == {1, 2}
Init4     == Init /\ n = N
====
