---- MODULE MC_Eyeballs ----
EXTENDS Eyeballs
\* quick: N = 3, 82 000 scenarios
qGrid     == {0, 1, 2, 4}
qDelays   == {NONE, 0, 1, 3}
qTimeouts == {NONE, 0, 2, 3, 5}
qConcs    == {NONE, 0, 1, 2, 3}
\* thorough: N = 4, 5-point grid
tGrid     == {0, 1, 2, 3, 5}
tDelays   == {NONE, 0, 1, 2, 3}
tTimeouts == {NONE, 0, 2, 3, 5, 7}
tConcs    == {NONE, 0, 1, 2, 3, 4}
====
