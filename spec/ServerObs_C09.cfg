SPECIFICATION Spec
CONSTANT Which = "C09"
INVARIANTS C09_Quiescent C09_SrvStable C09_EndsOnlyOnAllowed C09_ProbeServed C09_Isolation C09_OthersServed C09_DriversEnd
