----------------------------- MODULE MC_Sni -----------------------------
(* Model-checking instance of Sni.tla: variant selection and generation helpers. *)
EXTENDS Sni, Json, IOUtils, SequencesExt

MCIntended == "intended"
MCAsBuilt  == "asbuilt"
MCShared   == "shared"
MCTaken    == "taken"

\* _gen: one JSON line per vector with the expected outcome (intended), the as-built prediction,
\* and whether the property text constrains the outcome at all.
GenLine(v) == [v |-> v, exp |-> Intended(v), asbuilt |-> AsBuilt(v), subject |-> Subject(v),
               match |-> Match(v), named |-> NamedHost(v),
               predicted_violation |-> ~C20(v, AsBuilt(v))]
Gen == st = "arrived" => PrintT(<<"VEC", ToJson(GenLine(vec))>>)

\* as-built prediction: every vector on which the transcription of the pinned code breaks C20
\* (run with -continue: one BAD line per vector)
InvC20Report == st = "done" =>
    (C20(vec, out) \/ ~PrintT(<<"BAD", ToJson([v |-> vec, o |-> out, clause |-> FailedClause(vec, out)])>>))

\* chain binding: every maximal behaviour of the connection machine x every scenario, with the request
\* statuses the model expects after each event, written as ndjson to the file named by GEN_OUT
ChainLine(p) == [beh |-> p[1], scn |-> [ver |-> p[2].ver, sni |-> p[2].sni, cls |-> [r \in Reqs |-> p[2].cls[r]]],
                 trace |-> StatusTrace(ConnInit0, p[1])]
ChainSeq == LET s == SetToSeq(Behaviours(ConnInit0) \X Scenarios) IN [i \in 1..Len(s) |-> ChainLine(s[i])]
ChainGenInit == /\ ndJsonSerialize(IOEnv.GEN_OUT, ChainSeq)
                /\ PrintT(<<"CHAINGEN", Cardinality(Behaviours(ConnInit0)), Cardinality(Scenarios)>>)
                /\ vec = "gen" /\ st = "gen" /\ out = "gen"
ChainGenNext == UNCHANGED vars

\* report form of ConnInvInfo for the refuted variant (run with -continue)
ConnInvReport == ConnInvC20 \/ ~PrintT(<<"CONNBAD", ToJson([scn |-> vec, rq |-> out.rq])>>)
=============================================================================
