----------------------------- MODULE MC_Sni -----------------------------
(* Model-checking instance of Sni.tla: variant selection and generation helpers. *)
EXTENDS Sni, Json

MCIntended == "intended"
MCAsBuilt  == "asbuilt"

\* _gen: one JSON line per vector with the expected outcome (intended), the as-built prediction,
\* and whether the property text constrains the outcome at all.
GenLine(v) == [v |-> v, exp |-> Intended(v), asbuilt |-> AsBuilt(v), subject |-> Subject(v),
               match |-> Match(v), named |-> NamedHost(v),
               predicted_violation |-> ~C20(v, AsBuilt(v))]
Gen == st = "arrived" => PrintT(<<"VEC", ToJson(GenLine(vec))>>)

\* as-built prediction: every vector on which the transcription of the pinned code breaks C20
\* (run with -continue: one BAD line per vector)
InvC20Report == st = "done" =>
    (C20(vec, out) \/ ~PrintT(<<"BAD", ToJson([v |-> vec, o |-> out, clause |-> FailedClause(vec, out)])>>))
=============================================================================
