CONSTANTS
  NCli = 34
  Cap = 32
  MaxHandles = 2
  BufSizes <- B12
  LBufs <- L02
  MaxBytes = 3
  WriteLens <- W12
  ReadCaps <- R12
  DataClients <- DataActive
  Spurious = TRUE
  Variant = "ok"
  NActive = 4
  GenDepth = 36
  FillB = 1
INIT InitH
NEXT GenNext
INVARIANT Emit
CHECK_DEADLOCK FALSE
