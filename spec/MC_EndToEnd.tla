---------------------------- MODULE MC_EndToEnd ----------------------------
(* Model-checking instances of EndToEnd.tla (constants are overridden with `<-` in the cfg files). *)
EXTENDS EndToEnd

MCReq2 == 1..2
MCReq3 == 1..3
MCReq4 == 1..4
MCConn2 == 1..2
MCConn3 == 1..3
MCOrigin2 == {"o1", "o2"}
MCOrigin1 == {"o1"}
MCBoth == {"h1", "h2"}
MCH1 == {"h1"}

MCNoBug == {}
MCBugCrossOrigin == {"cross-origin"}
MCBugReuse == {"reuse-before-drained"}
MCBugReturnOnly == {"return-before-ready"}
MCBugPopOnly == {"pop-ignores-ready"}
MCBugNoPoison == {"no-poison-on-cancel"}
MCBugUpgrade == {"reuse-after-upgrade"}

\* the history-free part of the state (ev is a function of the last transition)
View == <<req, conn>>
=============================================================================
