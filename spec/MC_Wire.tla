----------------------------- MODULE MC_Wire -----------------------------
(* Model-checking instance of Wire.tla: domains per tier and vector generation. *)
EXTENDS Wire, Json, IOUtils, SequencesExt

AllMethods == {"GET", "POST", "CONNECT", "EXT"}
AllSchemes == {"http", "https", "ws", "wss", "other"}
\* quick: no header, all of them, and two complementary halves (every header occurs present and absent,
\* with and without the others); thorough: every subset
QuickHdrSets    == {{}, Hdrs, {"connection", "upgrade", "te"}, {"keep-alive", "proxy-connection", "transfer-encoding"}}
ThoroughHdrSets == SUBSET Hdrs
\* pooled-history vectors (kind "seq"), replayed through the REAL hyperdriver::Client::builder() stack
ClientAlpns == {"notls", "noalpn", "http/1.1", "h2"}   \* what a real TLS peer can be made to negotiate
QuickSeqDom == [alpn |-> {"notls", "http/1.1", "h2"}, method |-> {"GET", "CONNECT"}, scheme |-> {"http", "https"},
                host |-> {"name", "v6"}, port |-> {"absent", "other"}, path |-> {"empty", "long"}, hdrs |-> {{}, Hdrs}]
ThoroughSeqDom == [alpn |-> ClientAlpns, method |-> AllMethods, scheme |-> AllSchemes, host |-> HostKinds,
                   port |-> Ports, path |-> Paths, hdrs |-> QuickHdrSets]
\* the earlier request of a seq run: a plain GET with version prv to the same origin, judged like an e2e run
FirstVec(v) == [kind |-> "req", conn |-> ExpProto([rv |-> v.prv, alpn |-> v.alpn]), rv |-> v.prv, method |-> "GET",
                scheme |-> v.scheme, host |-> v.host, port |-> v.port, path |-> "long", query |-> TRUE,
                preset |-> "none", hdrs |-> {}]
SeqLine(v) == [v |-> v, first |-> FirstVec(v), exp |-> Expected(v)]

\* _gen: TLC writes every vector of the configured cross product, with the expected outcome, as one
\* JSON object per line into the file named by the environment variable GEN_OUT.
\*   {"v":req-or-sel vector,"exp":...}            layer-level / selection vectors (the model's Vectors)
\*   {"v":req vector,"alpn":a,"exp":...}          end-to-end runs: a req vector joined with every ALPN result
\*                                                 for which the text selects the protocol v.conn
GenLine(v) == [v |-> v, exp |-> Expected(v)]
E2ePairs(F(_)) == {p \in {r \in ReqVectors : F(r)} \X Alpns : ExpProto([rv |-> p[1].rv, alpn |-> p[2]]) = p[1].conn}
E2eLine(p) == [v |-> p[1], alpn |-> p[2], exp |-> Expected(p[1])]
E2eQuick(r)    == r.hdrs \in {{}, Hdrs} /\ r.method \in {"GET", "CONNECT"} /\ r.scheme \in {"http", "https"}
E2eThorough(r) == r.hdrs \in QuickHdrSets
GenSeq(F(_)) == LET s == SetToSeq(ReqVectors \cup SelVectors)
                    e == SetToSeq(E2ePairs(F))
                    q == SetToSeq(SeqVectors)
                IN  [i \in 1..Len(s) |-> GenLine(s[i])] \o [i \in 1..Len(e) |-> E2eLine(e[i])]
                    \o [i \in 1..Len(q) |-> SeqLine(q[i])]
GenDump(F(_)) == /\ ndJsonSerialize(IOEnv.GEN_OUT, GenSeq(F))
                 /\ PrintT(<<"GENERATED", Cardinality(ReqVectors), Cardinality(SelVectors), Cardinality(E2ePairs(F)),
                             Cardinality(SeqVectors)>>)
                 /\ vec = [kind |-> "sel", rv |-> "1.1", alpn |-> "notls"] /\ stage = "new" /\ req = [proto |-> "none"]
GenInitQuick    == GenDump(E2eQuick)
GenInitThorough == GenDump(E2eThorough)
GenNext == UNCHANGED vars
=============================================================================
