---------------------------- MODULE MC_PoolGoals ----------------------------
(***************************************************************************)
(* Test purposes for the pool: each Gk describes a corner of the design    *)
(* (a critical action taken in a particular context).  TLC is asked for    *)
(* the invariant ~Gk; its counterexample is the shortest behaviour that    *)
(* reaches the corner.  The behaviours are dumped as JSON (-dumpTrace),     *)
(* replayed on the real pool, continued by the drain + probe, and decided  *)
(* by PoolObs.tla.  They complement uniform simulation and random walks,   *)
(* which reach conjunctions of several unlikely choices only rarely.       *)
(***************************************************************************)
EXTENDS MC_Pool

ActiveCo(k) == co[k].st = "active"
LiveIdleWaiter(except) == \E k \in Req \ {except} : ActiveCo(k) /\ co[k].waiter = "Idle" /\ chan[k].st = "open"
ReleasedStandby == \E k \in Req : ActiveCo(k) /\ co[k].standby /\ chan[k].st = "txdropped"
WaitingStandby == \E k \in Req : ActiveCo(k) /\ co[k].standby /\ chan[k].st = "open"
IdleFull(o) == Len(idle[o]) >= cfg.maxIdle
InWr(c) == \E h \in wr : h.c = c

\* cancelling a request that holds a connection taken from the pool at checkout time (action goals: they
\* look at the state before the step)
Popped(r) == co[r].h.c
A01 == ev'.e = "Cancel" /\ ev'.stage = "checkout" /\ Popped(ev'.r) # 0 /\ conn[Popped(ev'.r)].st = "closed" /\ LiveIdleWaiter(ev'.r)
A02 == ev'.e = "Cancel" /\ ev'.stage = "checkout" /\ Popped(ev'.r) # 0 /\ IsOpen(Popped(ev'.r)) /\ ~conn[Popped(ev'.r)].h2
          /\ IdleFull(req[ev'.r].o) /\ cfg.maxIdle > 0
A03 == ev'.e = "Cancel" /\ ev'.stage = "checkout" /\ Popped(ev'.r) # 0 /\ IsOpen(Popped(ev'.r)) /\ LiveIdleWaiter(ev'.r)
NotA01 == [][~A01]_vars
NotA02 == [][~A02]_vars
NotA03 == [][~A03]_vars
\* the owner of an HTTP/2 attempt goes away while others wait for it (action goals: the acting request is the owner)
IsOwner(r) == co[r].owner /\ co[r].st \in {"active", "bg"}
A04 == ev'.e = "Cancel" /\ IsOwner(ev'.r) /\ WaitingStandby
A05 == ev'.e = "PollErr" /\ IsOwner(ev'.r) /\ WaitingStandby
A06 == ev'.e = "BgFail" /\ IsOwner(ev'.r) /\ WaitingStandby
\* the owner is pre-empted: it is served by a connection that arrived through its waiter while its own attempt is unfinished
A07 == ev'.e = "Handoff" /\ IsOwner(ev'.r) /\ chan[ev'.r].st = "sent" /\ ~cfg.cap /\ WaitingStandby
A08 == ev'.e = "Handoff" /\ IsOwner(ev'.r) /\ chan[ev'.r].st = "sent" /\ cfg.cap /\ WaitingStandby
\* ... while TWO checkouts stand by, the one in front an HTTP/1 request (it takes the attempt over as an independent checkout and
\* announces nothing: whoever stands behind it must have been released by the pool itself), and: a released standby is cancelled
\* before it is polled again while another released standby exists
StandbyWaiting(k) == ActiveCo(k) /\ co[k].standby /\ chan[k].st = "open"
A09 == ev'.e \in {"PollErr", "Cancel"} /\ IsOwner(ev'.r)
          /\ \E k1, k2 \in Req : k1 < k2 /\ StandbyWaiting(k1) /\ StandbyWaiting(k2) /\ ~req[k1].h2 /\ req[k2].h2
A10 == ev'.e = "Cancel" /\ ActiveCo(ev'.r) /\ co[ev'.r].standby /\ chan[ev'.r].st = "txdropped"
          /\ \E k \in Req \ {ev'.r} : ActiveCo(k) /\ co[k].standby /\ chan[k].st = "txdropped"
NotA09 == [][~A09]_vars
NotA10 == [][~A10]_vars
NotA04 == [][~A04]_vars
NotA05 == [][~A05]_vars
NotA06 == [][~A06]_vars
NotA07 == [][~A07]_vars
NotA08 == [][~A08]_vars
\* released standby checkouts: one takes over, another waits for it
G09 == ev.e = "PollPending" /\ co[ev.r].standby /\ rxw[ev.r] /\ (\E k \in Req : k # ev.r /\ co[k].owner /\ co[k].d # 0 /\ req[k].st = "checkout")
           /\ \E q \in Req : req[q].st \in {"cancelled", "error"}
G10 == ev.e = "DialStart" /\ co[ev.r].owner /\ \E q \in Req : req[q].st \in {"cancelled", "error"} /\ req[q].h2
\* hand-backs
G11 == ev.e = "HandBack" /\ (\E k \in Req : chan[k].st = "sent" /\ chan[k].h.c = ev.c) /\ LiveIdleWaiter(0)
G12 == ev.e = "HandBack" /\ ~ev.ok
G13 == ev.e = "HandBackDrop" /\ conn[ev.c].st = "closed" /\ LiveIdleWaiter(0)
G14 == ev.e = "HandBackDrop" /\ conn[ev.c].up /\ LiveIdleWaiter(0)
G15 == ev.e = "HandBack" /\ (\E k \in Req : chan[k].st = "sent" /\ chan[k].h.c = ev.c) /\ \E q \in Req : req[q].st = "done" /\ q # dl[ev.c].r /\ Cardinality({x \in Req : req[x].st = "done"}) >= 2
\* pre-emption
G16 == ev.e = "Handoff" /\ co[ev.r].st = "bg" /\ co[ev.r].d # 0
G17 == ev.e = "Handoff" /\ co[ev.r].fin = "dropped"
G18 == ev.e = "BgDone" /\ ~dl[ev.c].h2 /\ IdleFull(dl[ev.c].o)
G19 == ev.e = "BgDone" /\ dl[ev.c].h2 /\ (\E k \in Req : chan[k].st = "sent" /\ chan[k].h.c = ev.c)
G20 == ev.e = "Cancel" /\ co[ev.r].st = "bg" /\ co[ev.r].d = 0
\* closes at awkward moments
G21 == ev.e = "PeerClose" /\ \E k \in Req : chan[k].st = "sent" /\ chan[k].h.c = ev.c /\ ActiveCo(k)
G22 == ev.e = "PeerClose" /\ \E k \in Req : ActiveCo(k) /\ co[k].h.c = ev.c
G23 == ev.e = "Issue" /\ co[ev.r].h.c # 0 /\ \E c \in Dial : conn[c].st = "closed" /\ Live(c) = 0 /\ c # co[ev.r].h.c
\* shared connections
G24 == ev.e = "Handoff" /\ (\E k \in Req : chan[k].st = "sent" /\ chan[k].h.z) /\ conn[ev.c].h2
G25 == ev.e = "Issue" /\ ~ev.h2 /\ co[ev.r].h.z
G26 == ev.e = "Cancel" /\ ev.stage = "sending" /\ (\E h \in wr : ~conn[h.c].h2 /\ conn[h.c].busy) /\ LiveIdleWaiter(ev.r)
\* expiry (slices with MaxTick > 0 and the small idle timeout)
G27 == ev.e = "Issue" /\ now > 0 /\ co[ev.r].h.c = 0 /\ \E c \in Dial : conn[c].st = "open" /\ ~conn[c].busy /\ Live(c) = 0
G28 == ev.e = "Issue" /\ now > 0 /\ co[ev.r].h.c # 0 /\ \E c \in Dial : conn[c].st = "open" /\ Live(c) = 0
G29 == ev.e = "Issue" /\ now > 0 /\ co[ev.r].h.c # 0 /\ Len(idle[ev.o]) >= 1
G32 == ev.e = "Issue" /\ now > 0 /\ co[ev.r].h.c = 0 /\ \E c \in Dial : conn[c].h2 /\ conn[c].st = "open" /\ IdleOf(c) = {}
G33 == ev.e = "Issue" /\ now > 0 /\ co[ev.r].h.c # 0 /\ conn[co[ev.r].h.c].h2
\* the pool is dropped
G30 == ev.e = "DropPool" /\ ReleasedStandby
G31 == ev.e = "HandBack" /\ ~cfg.alive /\ ~cfg.nopool
\* the service has no pool (`without_pool`): detached checkouts
G34 == ev.e = "Handoff" /\ cfg.nopool /\ conn[ev.c].h2 /\ \E k \in Req : k # ev.r /\ req[k].st = "checkout" /\ req[k].h2
G35 == ev.e = "Cancel" /\ cfg.nopool /\ ev.stage = "checkout" /\ ndial > 0
G36 == ev.e = "HandBackDrop" /\ cfg.nopool
G37 == ev.e = "PollErr" /\ cfg.nopool /\ \E k \in Req : req[k].st = "checkout"

NotG09 == ~G09  NotG10 == ~G10  NotG11 == ~G11  NotG12 == ~G12  NotG13 == ~G13  NotG14 == ~G14  NotG15 == ~G15  NotG16 == ~G16
NotG17 == ~G17  NotG18 == ~G18  NotG19 == ~G19  NotG20 == ~G20  NotG21 == ~G21  NotG22 == ~G22  NotG23 == ~G23  NotG24 == ~G24
NotG25 == ~G25  NotG26 == ~G26  NotG27 == ~G27  NotG28 == ~G28  NotG29 == ~G29  NotG30 == ~G30  NotG31 == ~G31
NotG32 == ~G32  NotG33 == ~G33  NotG34 == ~G34  NotG35 == ~G35  NotG36 == ~G36  NotG37 == ~G37
=============================================================================
