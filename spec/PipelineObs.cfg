INIT ObsInit
NEXT ObsNext
INVARIANT WellFormed
INVARIANT R_NoPanic
INVARIANT R_NoStall
INVARIANT Unresolved
INVARIANT ObsDrift
POSTCONDITION Consumed
CHECK_DEADLOCK FALSE
