------------------------------ MODULE EndToEnd ------------------------------
(***************************************************************************)
(* C01 -- requests and responses arrive intact and correctly matched.      *)
(*                                                                         *)
(* Explicit model of                                                       *)
(*   - the life cycle of one request:                                      *)
(*       new -> waiting -> holding(c) -> sent -> reading -> done           *)
(*                                 \-> failed / cancelled at any point     *)
(*   - the in-flight structure of one connection:                          *)
(*       HTTP/1: a FIFO `q` of exchanges on the client side; the client    *)
(*               attributes the NEXT response arriving on c to Head(q).    *)
(*               The server handles requests strictly in arrival order,    *)
(*               one at a time (`c2s`, `handling`, `s2c` are the wire and  *)
(*               the server side of the connection).                       *)
(*       HTTP/2: a set `streams`; responses are matched by stream id; a    *)
(*               response for a stream that was reset is discarded.        *)
(*   - the pool rules that make the FIFO attribution correct:              *)
(*       (S1) a connection belongs to one origin and is only handed to     *)
(*            requests for that origin;                                    *)
(*       (S2) an HTTP/1 connection goes back to the pool only when the     *)
(*            previous response completed (`ReturnToPool` needs q empty)   *)
(*            and the pool re-checks readiness when popping (`Acquire`);   *)
(*       (S3) cancelling an in-flight HTTP/1 exchange poisons (closes) the *)
(*            connection: the stale response must never be read by the     *)
(*            next user; on HTTP/2 it only resets the stream;              *)
(*       (S4) after a 101 the connection left HTTP: never pooled again.    *)
(*                                                                         *)
(* `Buggy` removes safeguards one at a time so that TLC exhibits the       *)
(* mismatch on the model (vacuity guard for the invariants):               *)
(*   "cross-origin"          drops S1                                      *)
(*   "reuse-before-drained"  drops both halves of S2                       *)
(*   "return-before-ready" / "pop-ignores-ready"  drop one half of S2      *)
(*                           (each alone is still safe: defence in depth)  *)
(*   "no-poison-on-cancel"   drops S3                                      *)
(*   "reuse-after-upgrade"   drops S4                                      *)
(*                                                                         *)
(* The property formulas are the operators of EndToEndProps (the same ones *)
(* the trace monitor evaluates on real executions), applied to the event   *)
(* of every transition (action properties), plus their state forms.        *)
(***************************************************************************)
EXTENDS Naturals, Sequences, FiniteSets, TLC, EndToEndProps

CONSTANTS Req,          \* request ids: a set of positive naturals
          Conn,         \* connection slots: a set of positive naturals
          Origin,       \* origins (strings)
          Versions,     \* subset of {"h1","h2"} a request may ask for
          Buggy,        \* safeguards removed (subset of BugNames)
          AllowBreak,   \* BOOLEAN: the peer may break connections
          AllowUpgrade  \* BOOLEAN: requests may ask for an upgrade

BugNames == {"cross-origin", "reuse-before-drained", "return-before-ready",
             "pop-ignores-ready", "no-poison-on-cancel", "reuse-after-upgrade"}

ASSUME /\ Buggy \subseteq BugNames
       /\ Versions \subseteq {"h1", "h2"} /\ Versions # {}
       /\ AllowBreak \in BOOLEAN /\ AllowUpgrade \in BOOLEAN
       /\ 0 \notin Req /\ 0 \notin Conn

VARIABLES req, conn
vars == <<req, conn>>

FirstOrigin == CHOOSE o \in Origin : TRUE
NoResp == [for |-> 0, by |-> "none"]

ReadyAtReturn == Buggy \cap {"reuse-before-drained", "return-before-ready"} = {}
ReadyAtPop    == Buggy \cap {"reuse-before-drained", "pop-ignores-ready"} = {}

BlankConn == [st |-> "unused", origin |-> "none", ver |-> "h1", idle |-> FALSE, holder |-> 0,
              q |-> <<>>, streams |-> {}, c2s |-> <<>>, s2c |-> <<>>]
ClosedConn == [BlankConn EXCEPT !.st = "closed"]
FreshConn(o, v, r) == [BlankConn EXCEPT !.st = "open", !.origin = o, !.ver = v,
                                        !.idle = (v = "h2"),          \* h2 is shared through the pool at once
                                        !.holder = IF v = "h1" THEN r ELSE 0]

Remove(s, x) == SelectSeq(s, LAMBDA y : y # x)
RemoveAt(s, i) == [j \in 1..(Len(s) - 1) |-> IF j < i THEN s[j] ELSE s[j + 1]]
Range(s) == {s[i] : i \in DOMAIN s}

InFlightSt == {"holding", "sent", "reading"}
Users(c) == {r \in Req : req[r].c = c /\ req[r].st \in InFlightSt}
Terminal == {"done", "failed", "cancelled"}

Issued == {r \in Req : req[r].st # "new"}
OriginOf == [r \in Issued |-> req[r].origin]
Excused == {r \in Req : req[r].broke}

TypeOK ==
    /\ \A r \in Req :
         /\ req[r].st \in {"new", "waiting", "holding", "sent", "reading"} \cup Terminal
         /\ req[r].origin \in Origin \cup {"none"}
         /\ req[r].ver \in {"h1", "h2"}
         /\ req[r].c \in Conn \cup {0}
         /\ req[r].broke \in BOOLEAN /\ req[r].upg \in BOOLEAN
    /\ \A c \in Conn :
         /\ conn[c].st \in {"unused", "open", "closed", "upgraded"}
         /\ conn[c].holder \in Req \cup {0}
         /\ conn[c].streams \subseteq Req
         /\ conn[c].idle \in BOOLEAN

Init ==
    /\ req = [r \in Req |-> [st |-> "new", origin |-> "none", ver |-> "h1", upg |-> FALSE,
                             c |-> 0, got |-> NoResp, broke |-> FALSE]]
    /\ conn = [c \in Conn |-> BlankConn]

-----------------------------------------------------------------------------
(* client: issue, obtain a connection *)

\* ids are interchangeable: issue them in increasing order (symmetry reduction by hand)
Issue(r, o, v, u) ==
    /\ req[r].st = "new"
    /\ \A r2 \in Req : r2 < r => req[r2].st # "new"
    /\ (\A r2 \in Req : req[r2].st = "new") => o = FirstOrigin     \* origins are interchangeable too
    /\ u => (v = "h1" /\ AllowUpgrade)
    /\ req' = [req EXCEPT ![r].st = "waiting", ![r].origin = o, ![r].ver = v, ![r].upg = u]
    /\ UNCHANGED conn

FreeSlot(c) == conn[c].st \in {"unused", "closed"} /\ Users(c) = {}

Dial(r, c) ==
    /\ req[r].st = "waiting"
    /\ FreeSlot(c)
    /\ \A c2 \in Conn : c2 < c => ~FreeSlot(c2)       \* slots are interchangeable
    /\ conn' = [conn EXCEPT ![c] = FreshConn(req[r].origin, req[r].ver, r)]
    /\ req' = [req EXCEPT ![r].st = "holding", ![r].c = c]

\* pop an idle connection (S1, second half of S2, S4)
Acquire(r, c) ==
    /\ req[r].st = "waiting"
    /\ conn[c].idle
    /\ \/ conn[c].st = "open"
       \/ "reuse-after-upgrade" \in Buggy /\ conn[c].st = "upgraded"
    /\ conn[c].origin = req[r].origin \/ "cross-origin" \in Buggy
    /\ (conn[c].ver = "h1" /\ ReadyAtPop) => conn[c].q = <<>>
    /\ conn' = IF conn[c].ver = "h1"
                 THEN [conn EXCEPT ![c].idle = FALSE, ![c].holder = r]
                 ELSE conn
    /\ req' = [req EXCEPT ![r].st = "holding", ![r].c = c]

GetConn(r) == \E c \in Conn : Dial(r, c) \/ Acquire(r, c)

Send(r) ==
    LET c == req[r].c
        cn == conn[c]
        h1 == cn.ver = "h1"
    IN /\ req[r].st = "holding"
       /\ cn.st \in {"open", "upgraded"}
       /\ conn' = [conn EXCEPT ![c].q = IF h1 THEN Append(@, r) ELSE @,
                               ![c].streams = IF h1 THEN @ ELSE @ \cup {r},
                               ![c].c2s = Append(@, r)]
       /\ req' = [req EXCEPT ![r].st = "sent"]

-----------------------------------------------------------------------------
(* server side of a connection *)

\* The server takes a request off the wire and puts its response on the wire (handler start and
\* response production are one step here: their interleaving with the client adds nothing to the
\* matching argument; a reset / closed connection simply discards what was produced).
\* HTTP/1: strictly in arrival order. HTTP/2: any stream.
SrvRespond(c, r) ==
    /\ conn[c].st = "open"
    /\ conn[c].c2s # <<>>
    /\ IF conn[c].ver = "h1" THEN r = Head(conn[c].c2s) ELSE r \in Range(conn[c].c2s)
    /\ conn' = [conn EXCEPT ![c].c2s = Remove(@, r),
                            ![c].s2c = Append(@, [for |-> r, by |-> conn[c].origin,
                                                  upg |-> (req[r].upg /\ conn[c].ver = "h1")])]
    /\ UNCHANGED req

-----------------------------------------------------------------------------
(* client: response attribution *)

Deliver(c, r, resp, rest) ==
    /\ conn' = [conn EXCEPT ![c].s2c = rest,
                            ![c].holder = IF @ = r THEN 0 ELSE @,      \* Pooled is dropped at the head
                            ![c].st = IF resp.upg THEN "upgraded" ELSE @]
    /\ req' = [req EXCEPT ![r].st = "reading", ![r].got = [for |-> resp.for, by |-> resp.by]]

\* HTTP/1: the next response on c belongs to the head of c's queue
DeliverH1(c, r) ==
    /\ conn[c].st = "open" /\ conn[c].ver = "h1"
    /\ conn[c].q # <<>> /\ r = Head(conn[c].q) /\ req[r].st = "sent"
    /\ conn[c].s2c # <<>>
    /\ Deliver(c, r, Head(conn[c].s2c), Tail(conn[c].s2c))

\* HTTP/2: matched by stream id
DeliverH2(c, r) ==
    /\ conn[c].st = "open" /\ conn[c].ver = "h2"
    /\ r \in conn[c].streams /\ req[r].st = "sent"
    /\ \E i \in DOMAIN conn[c].s2c :
         /\ conn[c].s2c[i].for = r
         /\ Deliver(c, r, conn[c].s2c[i], RemoveAt(conn[c].s2c, i))

DiscardH2(c) ==
    /\ conn[c].st = "open" /\ conn[c].ver = "h2"
    /\ \E i \in DOMAIN conn[c].s2c :
         /\ conn[c].s2c[i].for \notin conn[c].streams
         /\ conn' = [conn EXCEPT ![c].s2c = RemoveAt(@, i)]
    /\ UNCHANGED req

BodyDone(r) ==
    LET c == req[r].c IN
    /\ req[r].st = "reading"
    /\ conn[c].st \in {"open", "upgraded"}
    /\ conn[c].ver = "h1" => r = Head(conn[c].q)
    /\ conn' = IF conn[c].st = "upgraded" /\ "reuse-after-upgrade" \notin Buggy
                 THEN [conn EXCEPT ![c] = ClosedConn]            \* the upgraded session ended (S4)
                 ELSE [conn EXCEPT ![c].q = Remove(@, r), ![c].streams = @ \ {r}]
    /\ req' = [req EXCEPT ![r].st = "done"]

\* first half of S2 (WhenReady): back to the pool only once the response completed
ReturnToPool(c) ==
    /\ conn[c].ver = "h1" /\ ~conn[c].idle /\ conn[c].holder = 0
    /\ \/ conn[c].st = "open"
       \/ "reuse-after-upgrade" \in Buggy /\ conn[c].st = "upgraded"
    /\ ReadyAtReturn => conn[c].q = <<>>
    /\ conn' = [conn EXCEPT ![c].idle = TRUE]
    /\ UNCHANGED req

Evict(c) ==
    /\ conn[c].st = "open" /\ conn[c].idle /\ Users(c) = {}
    /\ conn' = [conn EXCEPT ![c] = ClosedConn]
    /\ UNCHANGED req

-----------------------------------------------------------------------------
(* cancellation at any point, failures *)

Cancel(r) ==
    LET c == req[r].c
        cn == conn[c]
    IN /\ req[r].st \in {"waiting"} \cup InFlightSt
       /\ req' = [req EXCEPT ![r].st = "cancelled"]
       /\ CASE req[r].st = "waiting" -> UNCHANGED conn
            [] req[r].st = "holding" ->
                   conn' = [conn EXCEPT ![c].holder = IF @ = r THEN 0 ELSE @]
            [] req[r].st \in {"sent", "reading"} /\ cn.st = "closed" -> UNCHANGED conn
            [] req[r].st \in {"sent", "reading"} /\ cn.st # "closed" /\ cn.ver = "h2" ->   \* reset the stream
                   conn' = [conn EXCEPT ![c].streams = @ \ {r}, ![c].c2s = Remove(@, r)]
            [] req[r].st \in {"sent", "reading"} /\ cn.st # "closed" /\ cn.ver = "h1" ->
                   IF "no-poison-on-cancel" \in Buggy
                     THEN conn' = [conn EXCEPT ![c].q = Remove(@, r),
                                               ![c].holder = IF @ = r THEN 0 ELSE @]
                     ELSE conn' = [conn EXCEPT ![c] = ClosedConn]                    \* S3

Fail(r) ==
    /\ req[r].st \in InFlightSt
    /\ conn[req[r].c].st = "closed"
    /\ req' = [req EXCEPT ![r].st = "failed"]
    /\ UNCHANGED conn

PeerBreak(c) ==
    /\ AllowBreak
    /\ conn[c].st \in {"open", "upgraded"}
    /\ conn' = [conn EXCEPT ![c] = ClosedConn]
    /\ req' = [r \in Req |-> IF r \in Users(c) THEN [req[r] EXCEPT !.broke = TRUE] ELSE req[r]]

-----------------------------------------------------------------------------
Next ==
    \/ \E r \in Req, o \in Origin, v \in Versions, u \in BOOLEAN : Issue(r, o, v, u)
    \/ \E r \in Req : GetConn(r) \/ Send(r) \/ BodyDone(r) \/ Cancel(r) \/ Fail(r)
    \/ \E c \in Conn, r \in Req : SrvRespond(c, r) \/ DeliverH1(c, r) \/ DeliverH2(c, r)
    \/ \E c \in Conn : DiscardH2(c) \/ ReturnToPool(c) \/ Evict(c) \/ PeerBreak(c)

Spec == Init /\ [][Next]_vars

\* everything the implementation and the server do is fair; Issue, Cancel, PeerBreak (the
\* environment) are not.
Fairness ==
    /\ \A r \in Req : /\ WF_vars(GetConn(r)) /\ WF_vars(Send(r))
                      /\ WF_vars(BodyDone(r)) /\ WF_vars(Fail(r))
    /\ \A c \in Conn : /\ WF_vars(\E r \in Req : SrvRespond(c, r))
                       /\ WF_vars(\E r \in Req : DeliverH1(c, r) \/ DeliverH2(c, r))
                       /\ WF_vars(DiscardH2(c)) /\ WF_vars(ReturnToPool(c)) /\ WF_vars(Evict(c))
FairSpec == Spec /\ Fairness

-----------------------------------------------------------------------------
(* the property: event form (shared with the trace monitor) and state form *)
(*                                                                         *)
(* The events of a step are reconstructed from the pair (state, state') so *)
(* that they need not be stored in the state; the P-operators of           *)
(* EndToEndProps are then checked on every transition as action properties.*)

SendEvent(r) ==      \* enabled-step form: evaluated in the state BEFORE Send(r)
    LET cn == conn[req[r].c] IN
    [e |-> "Send", r |-> r, c |-> req[r].c, corigin |-> cn.origin, ver |-> cn.ver,
     inflight |-> IF cn.ver = "h1" THEN Len(cn.q) ELSE Cardinality(cn.streams),
     afterUpgrade |-> (cn.st = "upgraded"), broken |-> FALSE]
ResponseEvent(r) ==  \* evaluated on the transition that delivered a response head to r
    [e |-> "Response", r |-> r, echo |-> req'[r].got.for, stamp |-> req'[r].got.by,
     statusOk |-> TRUE, headersOk |-> TRUE, bodyOk |-> TRUE]
HandleEvent(c, r) == \* the server of connection c took request r off the wire
    [e |-> "Handle", sconn |-> c, origin |-> conn[c].origin,
     idPath |-> r, idHeader |-> r, idBody |-> r, intact |-> TRUE]
ErrorEvent(r) == [e |-> "Error", r |-> r, kind |-> "closed"]

IsSend(r)     == req[r].st = "holding" /\ req'[r].st = "sent"
IsResponse(r) == req[r].st = "sent" /\ req'[r].st = "reading"
IsHandle(c, r) == r \in Range(conn[c].c2s) /\ conn'[c].st = "open" /\ r \notin Range(conn'[c].c2s)
                     /\ Len(conn'[c].s2c) > Len(conn[c].s2c)
IsError(r)    == req[r].st # "failed" /\ req'[r].st = "failed"

Matched == [][\A r \in Req : IsResponse(r) => PMatched(ResponseEvent(r), OriginOf)]_vars
ResponseIntact == [][\A r \in Req : IsResponse(r) => PResponseIntact(ResponseEvent(r))]_vars
RequestIntact == [][\A c \in Conn, r \in Req : IsHandle(c, r) => PRequestIntact(HandleEvent(c, r), OriginOf)]_vars
H1Exclusive == [][\A r \in Req : IsSend(r) => PH1Exclusive(SendEvent(r))]_vars
NoReuseAfterUpgrade == [][\A r \in Req : IsSend(r) => PNoSendAfterUpgrade(SendEvent(r))]_vars
NoCrossOrigin == [][\A r \in Req : IsSend(r) => PNoCrossOrigin(SendEvent(r), OriginOf)]_vars
NoSpuriousFailure == [][\A r \in Req : IsError(r) => PNoSpuriousFailure(ErrorEvent(r), Excused)]_vars

MatchedState == \A r \in Req : req[r].got # NoResp =>
                    req[r].got.for = r /\ req[r].got.by = req[r].origin
H1ExclusiveState == \A c \in Conn : conn[c].ver = "h1" => Len(conn[c].q) <= 1
NoCrossOriginState == \A r \in Req : req[r].st \in InFlightSt /\ conn[req[r].c].st \in {"open", "upgraded"}
                          => conn[req[r].c].origin = req[r].origin
FailedOnlyIfBroken == \A r \in Req : req[r].st = "failed" => req[r].broke

\* a request that is not cancelled and whose peer does not break the connection reaches done
\* (FailedOnlyIfBroken rules out the third way of leaving)
Completes == \A r \in Req : (req[r].st = "waiting") ~> (req[r].st \in Terminal)

=============================================================================
