\* TlsStream generation (simulation, no fault actions): behaviours with data in both directions, close_notify, backpressure
SPECIFICATION SpecHappy
CONSTANTS
  MaxOps = 14
  MaxBytes = 6
  MaxRx = 2
  Bug = "none"
  Sides <- MCSides
  Certs <- MCCertsOk
  ReadCaps <- MCReadCapsW
  WriteLens <- MCWriteLensW
  SendLens <- MCSendLens
INVARIANTS
  GenPrintHappy
