--------------------------- MODULE MC_DuplexGen ---------------------------
(* Generation instance of Duplex.tla: history of [event, observable state after it], one JSON line per     *)
(* behaviour (PrintT(<<"REPLAY", json>>)), replayed step by step on the real types by harness bin `duplex`. *)
EXTENDS MC_Duplex

CONSTANTS GenDepth,    \* behaviours are printed at this length (counted after the fill phase)
          FillB        \* max_buf_size of the fillers

VARIABLE hist

-----------------------------------------------------------------------------
(* Generation.  The real channel has capacity 32, so the generated behaviours use Cap = 32.  To reach the  *)
(* parking region, the behaviour may begin with a FILL PHASE: clients NActive+1..NCli ("fillers") start     *)
(* and are polled once, one after the other, so that their requests sit in the channel; afterwards the      *)
(* active clients, the listener and the data operations run freely while a filler is only polled when it    *)
(* was woken, or cancelled.                                                                                 *)
Fillers == {c \in Clients : c > NActive}
Unfilled == {f \in Fillers : cst[f] \in {"idle", "new"}}
FillStep == LET f == SetMin(Unfilled) IN IF cst[f] = "idle" THEN Start(f, FillB) ELSE Poll(f)
LiveFillers == {f \in Fillers : cst[f] \in Live}
FillerStep == \/ \E f \in Fillers : cw[f] /\ Poll(f)
              \/ (LiveFillers # {} /\ (Cancel(SetMin(LiveFillers)) \/ Cancel(SetMax(LiveFillers))))
NFill == 2 * Cardinality(Fillers)

InitH == Init /\ hist = <<>>
GenNext == /\ Len(hist) < GenDepth + NFill
           /\ IF Unfilled # {} THEN FillStep ELSE (NextC(1..NActive) \/ FillerStep)
           \* uniform simulation over-samples the two steps that end everything: they come late in a behaviour
           /\ (lst' # lst \/ (handles' = 0 /\ handles # 0)) => Len(hist) >= NFill + (2 * GenDepth) \div 3
           \* (no expected observation during the fill phase: 34 clients x 60 steps of JSON for nothing)
           /\ hist' = Append(hist, IF Unfilled # {} THEN [ev |-> ev'] ELSE [ev |-> ev', obs |-> Obs'])
Beh == [cfg |-> [lbuf |-> lbuf, cap |-> Cap, ncli |-> NCli, nactive |-> NActive], steps |-> hist]
Emit == (Len(hist) >= GenDepth + NFill \/ (Len(hist) > 0 /\ ~ENABLED GenNext)) => PrintT(<<"REPLAY", ToJson(Beh)>>)
=============================================================================
