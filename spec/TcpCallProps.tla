--------------------------- MODULE TcpCallProps ---------------------------
(* C10 / C11 / C17 lifted to ONE WHOLE TRANSPORT CALL                                                     *)
(*    <TcpTransport | SimpleTcpTransport as Service<http::request::Parts>>::call(parts)                    *)
(* as constant operators over a pair                                                                       *)
(*    v : the scenario   (request URI class, resolver script, candidates, configuration, caller's drop)   *)
(*    o : the observation (what a caller and the peers on the network can see)                             *)
(* The SAME operators are (a) invariants of the model TcpCall.tla at terminal states and (b) evaluated by  *)
(* TLC in TcpCallObs.tla over records of the REAL transports on loopback (harness/src/bin/tcpcall.rs).     *)
(* Nothing here refers to how the transport is built.                                                      *)
(*                                                                                                         *)
(*  v = [ transport : "tcp" | "simple",                                                                    *)
(*        scheme : "http"|"https"|"ws"|"wss"|"other"|"none",  host : "dns"|"v4"|"v6"|"none",               *)
(*        port : "explicit"|"absent",  uport : the explicit port (0 if absent),                            *)
(*        res  : "error" | "empty" | "list" | "never"   what the resolver does,                            *)
(*        rlat : it does so rlat time units after it was called,                                           *)
(*        n, fam : <<4|6,..>>, oc : <<"ok"|"err"|"never",..>>, lat : <<..>>   the resolver's answer IN THE *)
(*               RESOLVER'S ORDER: family of address i, what a connection attempt to it does (accepts /    *)
(*               refuses / does not answer) and after how many units (accept only; refusals are immediate) *)
(*        bind : "none"|"v4"|"v6"|"both" local addresses configured (all usable),                          *)
(*        ct : connect_timeout, heT : happy_eyeballs_timeout, conc : happy_eyeballs_concurrency (NONE = -1)*)
(*        dropT : the caller drops the call future dropT units after the call (NONE = never),              *)
(*        unit : length of a time unit on the scale of o.elapsed (model 1; loopback: milliseconds),        *)
(*        margin : slack on that scale by which "surely before / after" is decided (model 0) ]             *)
(*  o = [ kind : "ok"|"invaliduri"|"dnserr"|"dnstimeout"|"err"|"timeout"|"noprogress"|"hang"|"dropped"|    *)
(*               "panic"|"other",                                                                          *)
(*        id : resolver index of the connected address (0 if none),                                        *)
(*        errclass : "refused"|"timedout"|"" class of the reported connect error,                          *)
(*        elapsed : completion (or drop) instant, the call starts at 0,                                    *)
(*        acc : <<..>> connections that arrived at address i,  accAt : <<..>> instant of the first (-1),    *)
(*        cport : port of the connection returned (0 if none), wrongPort : connections that arrived at a   *)
(*        port other than the expected one, taskPanics, rleft : resolver futures neither completed nor     *)
(*        dropped when the observation ended ]                                                             *)
EXTENDS EyeballsProps

CINF == 100000000
Cap(x) == IF x >= CINF THEN CINF ELSE x
SetMin(S) == CHOOSE x \in S : \A y \in S : x <= y
SetMax(S) == CHOOSE x \in S : \A y \in S : x >= y

\* the preference sort is NOT restated: AddrSort.tla's decision function is instantiated (its state variables and
\* grid constants are irrelevant for the operators used here)
AS == INSTANCE AddrSort WITH MaxLen <- 3, Tags <- {1, 2, 3}, Ports <- {0}, FullPortLen <- 3, DefaultPort <- 0,
                             SortAlways <- TRUE, list <- <<>>, bind <- "none", he <- TRUE, port <- 0,
                             stage <- "x", plan <- <<>>

T(v, x)    == x * v.unit
CSimple(v) == v.transport = "simple"
NCand(v)   == IF v.res = "list" THEN v.n ELSE 0

(* the order in which candidates are attempted, as resolver indices: the preference sort for the happy-eyeballs *)
(* transport, the first address only for the simple transport                                                    *)
PlanOf(v) ==
  LET s == [i \in 1..NCand(v) |-> [f |-> v.fam[i], t |-> i]]
  IN IF CSimple(v) THEN (IF NCand(v) = 0 THEN <<>> ELSE <<1>>)
     ELSE LET r == AS!SortPreferred(s, AS!FromBinding(v.bind)) IN [k \in 1..Len(r) |-> r[k].t]
PosOf(v, i) == LET pl == PlanOf(v) IN IF \E k \in 1..Len(pl) : pl[k] = i THEN CHOOSE k \in 1..Len(pl) : pl[k] = i ELSE 0

CBatch(v) == LET m == Len(PlanOf(v)) IN
             IF CSimple(v) THEN m ELSE IF v.conc = NONE THEN m ELSE EMin(m, EMax(v.conc, 1))
\* TcpConnecting::connect: stagger = happy_eyeballs_timeout / number of addresses
CDelay(v) == IF CSimple(v) \/ v.heT = NONE \/ Len(PlanOf(v)) = 0 THEN NONE ELSE T(v, v.heT) \div Len(PlanOf(v))

\* how long after its start the attempt at plan position k FAILS (CINF: it never fails)
Fd(v, k) == LET i == PlanOf(v)[k] IN
  CASE v.oc[i] = "err"   -> 0
    [] v.oc[i] = "never" -> IF v.ct = NONE THEN CINF ELSE T(v, v.ct)
    [] OTHER             -> IF v.ct # NONE /\ v.lat[i] > v.ct THEN T(v, v.ct) ELSE CINF
FdPossible(v, k) == LET i == PlanOf(v)[k] IN          \* ... MAY fail (ties at the connect timeout included)
  \/ v.oc[i] = "err" \/ (v.oc[i] = "never" /\ v.ct # NONE) \/ (v.oc[i] = "ok" /\ v.ct # NONE /\ v.lat[i] >= v.ct)
AccSure(v, k) == LET i == PlanOf(v)[k] IN v.oc[i] = "ok" /\ (v.ct = NONE \/ v.lat[i] < v.ct)   \* accepts within its own timeout
AccPossible(v, k) == LET i == PlanOf(v)[k] IN v.oc[i] = "ok" /\ (v.ct = NONE \/ v.lat[i] <= v.ct)
LatOf(v, k) == T(v, v.lat[PlanOf(v)[k]])
ClassOf(v, k) == IF v.oc[PlanOf(v)[k]] = "err" THEN "refused" ELSE "timedout"

(* Bounds on the instant (relative to the end of the resolution) at which the attempt at plan position k is     *)
(* started.  Upper bound: the initial batch at once; a further attempt one stagger after the previous start or   *)
(* at the (k - batch)-th failure, whichever is earlier.  Lower bound: not before the previous start, and not     *)
(* before the earlier of (previous start + stagger) and the first failure of an earlier attempt.                 *)
SUb(v) ==
  LET m == Len(PlanOf(v)) B == CBatch(v) D == CDelay(v)
      F[k \in 0..m] ==
        IF k <= B THEN 0
        ELSE LET ft(i) == Cap(F[i] + Fd(v, i))
                 ts    == {ft(i) : i \in 1..(k-1)}
                 ok    == {t \in ts : Cardinality({i \in 1..(k-1) : ft(i) <= t}) >= k - B}
                 byFail == IF ok = {} THEN CINF ELSE SetMin(ok)
                 byTick == IF D = NONE THEN CINF ELSE Cap(F[k-1] + D)
             IN EMin(byFail, byTick)
  IN F
SLb(v) ==
  LET m == Len(PlanOf(v)) B == CBatch(v) D == CDelay(v)
      F[k \in 0..m] ==
        IF k <= B THEN 0
        ELSE LET ts == {Cap(F[i] + Fd(v, i)) : i \in 1..(k-1)}
                 byTick == IF D = NONE THEN CINF ELSE Cap(F[k-1] + D)
             IN EMax(F[k-1], EMin(SetMin(ts), byTick))
  IN F

Pos(v) == 1..Len(PlanOf(v))
ResAt(v) == T(v, v.rlat)
(* the resolution runs under connect_timeout (ResolverExt::resolve) *)
SureResolved(v)   == v.res \in {"list", "empty", "error"} /\ (v.ct = NONE \/ ResAt(v) + v.margin < T(v, v.ct))
SureResTimeout(v) == v.ct # NONE /\ (v.res = "never" \/ ResAt(v) > T(v, v.ct) + v.margin)
BeforeDeadline(v, x) == CSimple(v) \/ v.heT = NONE \/ x < T(v, v.heT)

(* a request URI determines host and port when it has a host and either an explicit port or a scheme whose      *)
(* default port everybody agrees on; without a host, or with neither port nor a known scheme, it cannot          *)
UriMustPass(v) == v.host # "none" /\ (v.port = "explicit" \/ v.scheme \in {"http", "https"})
UriMustFail(v) == v.host = "none" \/ (v.port = "absent" /\ v.scheme \in {"other", "none"})
ExpectedPort(v) == IF v.port = "explicit" THEN v.uport
                   ELSE CASE v.scheme \in {"http", "ws"} -> 80 [] v.scheme \in {"https", "wss"} -> 443 [] OTHER -> 0
MustRun(v) == UriMustPass(v) /\ v.dropT = NONE       \* the call is left alone and gets past the URI stage
NoAttempt(v, o) == \A i \in 1..v.n : o.acc[i] = 0

-----------------------------------------------------------------------------
(* C17  "returns a response or an error to the caller. It never panics, whether in the caller's task or in a   *)
(*       task the library spawned"                                                                               *)
KC17_NoPanic(v, o) == o.kind # "panic" /\ o.taskPanics = 0

-----------------------------------------------------------------------------
CallKinds == {"ok", "invaliduri", "dnserr", "dnstimeout", "err", "timeout", "noprogress", "hang", "dropped"}
(* every call ends in one of the outcomes the statement talks about (or in a failure of the stages in front of  *)
(* the candidates); an invalid-URI error only for a URI that does not determine host and port                    *)
KC10_Outcome(v, o) ==
  /\ o.kind \in CallKinds
  /\ o.kind = "invaliduri" => ~UriMustPass(v)
  /\ UriMustFail(v) => o.kind = "invaliduri" /\ NoAttempt(v, o)
  /\ o.kind = "dropped" => v.dropT # NONE

(* the resolver stage: its error is the call's error and nothing is attempted *)
KC10_Resolver(v, o) ==
  /\ o.kind = "dnserr" => v.res = "error" \/ (CSimple(v) /\ v.res = "empty")
  /\ o.kind = "dnstimeout" => v.ct # NONE /\ ~SureResolved(v) /\ o.elapsed >= T(v, v.ct)
  /\ o.kind \in {"dnserr", "dnstimeout", "invaliduri"} => NoAttempt(v, o)
  /\ (MustRun(v) /\ SureResolved(v) /\ v.res = "error") => o.kind = "dnserr"
  /\ (MustRun(v) /\ SureResolved(v) /\ v.res = "empty" /\ CSimple(v)) => o.kind = "dnserr"
  /\ (MustRun(v) /\ SureResTimeout(v)) => o.kind = "dnstimeout"
  /\ (MustRun(v) /\ v.res = "never" /\ v.ct = NONE) => o.kind = "hang"

(* "with no candidates it fails immediately with a no-progress error" (and attempts nothing) *)
KC10_NoCandidates(v, o) ==
  /\ o.kind = "noprogress" => ~CSimple(v) /\ v.res = "empty" /\ NoAttempt(v, o)
  /\ (MustRun(v) /\ SureResolved(v) /\ v.res = "empty" /\ ~CSimple(v)) => o.kind = "noprogress"

(* "yields the connection of the attempt that succeeds first" *)
KC10_FirstSuccessWins(v, o) ==
  o.kind = "ok" =>
    /\ v.res = "list" /\ o.id \in 1..v.n /\ PosOf(v, o.id) > 0
    /\ LET k == PosOf(v, o.id) IN
       /\ AccPossible(v, k) /\ o.acc[o.id] >= 1
       /\ o.elapsed >= ResAt(v) + SLb(v)[k] + LatOf(v, k)             \* it had been started and had accepted
       /\ \A j \in Pos(v) : ~(AccSure(v, j) /\ SUb(v)[j] + LatOf(v, j) + v.margin < SLb(v)[k] + LatOf(v, k))

(* "it succeeds whenever some candidate, once attempted, accepts before the configured overall deadline"       *)
(*  - and before its own connect_timeout.  Here: a candidate that is attempted at once.                          *)
KC10_SucceedsWhenever(v, o) ==
  (/\ MustRun(v) /\ SureResolved(v) /\ v.res = "list"
   /\ \E k \in Pos(v) : AccSure(v, k) /\ SUb(v)[k] = 0 /\ BeforeDeadline(v, LatOf(v, k) + v.margin))
  => o.kind = "ok"

(* "It reports failure only after every candidate has been tried and has failed - returning the first failure  *)
(*  observed - or after the overall deadline has expired"                                                        *)
LastFailUb(v) == SetMax({Cap(SUb(v)[k] + Fd(v, k)) : k \in Pos(v)})
LastFailLb(v) == SetMax({Cap(SLb(v)[k] + Fd(v, k)) : k \in Pos(v)})
KC10_FailureOnlyAfter(v, o) ==
  /\ o.kind = "err" =>
       /\ Pos(v) # {} /\ \A k \in Pos(v) : FdPossible(v, k)
       /\ (\A k \in Pos(v) : Fd(v, k) < CINF) => o.elapsed >= ResAt(v) + LastFailLb(v)
       /\ o.errclass \in {ClassOf(v, k) : k \in Pos(v)}
       \* the FIRST failure: when every failure of one class surely precedes every failure of the other
       /\ \A c \in {"refused", "timedout"} :
            (/\ \A k \in Pos(v) : Fd(v, k) < CINF
             /\ \E k \in Pos(v) : ClassOf(v, k) = c
             /\ \A k, j \in Pos(v) : (ClassOf(v, k) = c /\ ClassOf(v, j) # c)
                    => SUb(v)[k] + Fd(v, k) + v.margin < SLb(v)[j] + Fd(v, j))
            => o.errclass = c
  /\ o.kind = "timeout" => ~CSimple(v) /\ v.heT # NONE /\ Pos(v) # {} /\ o.elapsed >= ResAt(v) + T(v, v.heT)
  /\ (/\ MustRun(v) /\ SureResolved(v) /\ Pos(v) # {} /\ \A k \in Pos(v) : Fd(v, k) < CINF
      /\ BeforeDeadline(v, LastFailUb(v) + v.margin)) => o.kind = "err"

(* the candidates are the resolver's addresses AT THE PORT OF THE REQUEST URI (explicit, or the scheme default) *)
KC10_Port(v, o) == o.wrongPort = 0 /\ (o.kind = "ok" => o.cport = ExpectedPort(v))

KC10_Call(v, o) == /\ KC10_Outcome(v, o) /\ KC10_Resolver(v, o) /\ KC10_NoCandidates(v, o) /\ KC10_FirstSuccessWins(v, o)
                  /\ KC10_SucceedsWhenever(v, o) /\ KC10_FailureOnlyAfter(v, o) /\ KC10_Port(v, o)

-----------------------------------------------------------------------------
(* C11 "each candidate at most once" (and, for the simple transport, the first address only) *)
KC11_AtMostOnce(v, o) == \A i \in 1..v.n : o.acc[i] <= 1 /\ (PosOf(v, i) = 0 => o.acc[i] = 0)

(* "started in the given order": a candidate is not reached while a candidate in front of it, started clearly   *)
(*  earlier, accepts (the operation would have ended with that one)                                              *)
KC11_Order(v, o) ==
  \A k \in Pos(v) : o.acc[PlanOf(v)[k]] >= 1 =>
     \A j \in 1..(k-1) : ~(AccSure(v, j) /\ SUb(v)[j] + LatOf(v, j) + v.margin < SLb(v)[k])

(* "no more than the configured number started at once initially ... and never earlier": a connection arrives   *)
(*  at a candidate only if it can have been started, and not before its earliest possible start                  *)
KC11_NeverEarlier(v, o) ==
  \A k \in Pos(v) : o.acc[PlanOf(v)[k]] >= 1 =>
     /\ SLb(v)[k] < CINF
     /\ o.accAt[PlanOf(v)[k]] >= ResAt(v) + SLb(v)[k]

(* "a further attempt is started as soon as the stagger delay has elapsed or a running attempt has failed":     *)
(*  an accepting candidate beyond the initial batch that is reached by stagger / failures (a connect timeout is  *)
(*  that candidate's failure) before the deadline makes the call succeed                                         *)
KC11_AsSoonAs(v, o) ==
  (/\ MustRun(v) /\ SureResolved(v) /\ v.res = "list"
   /\ \E k \in Pos(v) : /\ AccSure(v, k) /\ SUb(v)[k] > 0 /\ SUb(v)[k] < CINF
                        /\ BeforeDeadline(v, SUb(v)[k] + LatOf(v, k) + v.margin))
  => o.kind = "ok"

(* "the whole operation completes no later than the configured overall deadline".  The deadline covers the      *)
(*  connection attempts, NOT the resolution (the clock starts when the candidates are known); the resolution and *)
(*  every single attempt are bounded by connect_timeout.  A call may stay pending for ever only without them.    *)
KC11_Deadline(v, o) ==
  /\ o.kind = "hang" => v.dropT = NONE /\ v.ct = NONE /\ (v.res = "never" \/ CSimple(v) \/ v.heT = NONE)
  /\ o.kind = "timeout" => v.heT # NONE /\ o.elapsed >= ResAt(v) + T(v, v.heT)

KC11_Call(v, o) == /\ KC11_AtMostOnce(v, o) /\ KC11_Order(v, o) /\ KC11_NeverEarlier(v, o) /\ KC11_AsSoonAs(v, o)
                  /\ KC11_Deadline(v, o)

-----------------------------------------------------------------------------
(* cancellation (NOT part of a fixed property text; reported as drift): dropping the call future leaves nothing *)
(* running - the resolver future is gone and no candidate is reached that cannot have been started before        *)
Cancel(v, o) ==
  o.kind = "dropped" =>
    /\ o.rleft = 0
    /\ \A k \in Pos(v) : o.acc[PlanOf(v)[k]] >= 1 => ResAt(v) + SLb(v)[k] <= T(v, v.dropT)
    /\ (v.res # "list" \/ ResAt(v) > T(v, v.dropT) + v.margin) => NoAttempt(v, o)

Call_Clauses(v, o) ==
  (IF KC17_NoPanic(v, o) THEN {} ELSE {"C17_NoPanic"}) \cup
  (IF KC10_Outcome(v, o) THEN {} ELSE {"C10_Outcome"}) \cup
  (IF KC10_Resolver(v, o) THEN {} ELSE {"C10_Resolver"}) \cup
  (IF KC10_NoCandidates(v, o) THEN {} ELSE {"C10_NoCandidates"}) \cup
  (IF KC10_FirstSuccessWins(v, o) THEN {} ELSE {"C10_FirstSuccessWins"}) \cup
  (IF KC10_SucceedsWhenever(v, o) THEN {} ELSE {"C10_SucceedsWhenever"}) \cup
  (IF KC10_FailureOnlyAfter(v, o) THEN {} ELSE {"C10_FailureOnlyAfter"}) \cup
  (IF KC10_Port(v, o) THEN {} ELSE {"C10_Port"}) \cup
  (IF KC11_AtMostOnce(v, o) THEN {} ELSE {"C11_AtMostOnce"}) \cup
  (IF KC11_Order(v, o) THEN {} ELSE {"C11_Order"}) \cup
  (IF KC11_NeverEarlier(v, o) THEN {} ELSE {"C11_NeverEarlier"}) \cup
  (IF KC11_AsSoonAs(v, o) THEN {} ELSE {"C11_AsSoonAs"}) \cup
  (IF KC11_Deadline(v, o) THEN {} ELSE {"C11_Deadline"}) \cup
  (IF Cancel(v, o) THEN {} ELSE {"Cancel"})
=============================================================================
