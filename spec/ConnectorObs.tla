---------------------------- MODULE ConnectorObs ----------------------------
(***************************************************************************)
(* Property monitor for the connector stage (spec/Connector.tla), evaluated *)
(* by TLC over a trace RECORDED FROM THE REAL CODE                           *)
(* (harness/src/bin/connector.rs: one ndjson record per action with what    *)
(* the caller got back, what the doubles did during the step, and the       *)
(* observable state after it).  The monitor constrains nothing but the      *)
(* clauses: its next-state relation is "take the next record"; it does not  *)
(* know the model's stages.  Every falsified clause is collected with its   *)
(* record index and a stable key, and printed once at the end.              *)
(*                                                                          *)
(* Keys (all start with "connector/"):                                      *)
(*  K1-panic/<where>                 a panic was caught (call, poll, drop, poll_ready)                        *)
(*  K1-error-class/<stage>-err       the caller's error class is not the class of the stage that failed       *)
(*  K1-error-class/invented-<cls>    an error although nothing the call waited for failed                     *)
(*  K1-error-class/unsupported-...   the version gate fired for a supported version / did not fire            *)
(*  K1-error-source/<stage>-err      the error is not the one the failing thing produced                      *)
(*  K1-error-swallowed/<stage>       Ok although a thing of the call failed in this poll                      *)
(*  K1-result-mismatch               the response / connection belongs to another call                        *)
(*  K1-stranded/<waiting-on>         after the drain (every gate decided, everybody woken polled) still live   *)
(*  K2-connect-twice, K2-handshake-twice, K2-send-twice                                                      *)
(*  K2-connect-before-transport-ready, K2-handshake-before-connect, K2-handshake-before-protocol-ready,       *)
(*  K2-send-before-handshake, K2-stage-skipped/<stage>                                                        *)
(*  K2-handshake-stream, K2-handshake-version/<req>-as-<proto>, K2-send-connection,                            *)
(*  K2-request-altered/<what>, K2-connect-parts/<what>                                                        *)
(*  K3-lost-wakeup/<stage>           Pending, but the thing it waits for does not hold the latest waker       *)
(*  K3-lost-wakeup/ready-on-forced-repoll, K3-lost-wakeup/gate-open-no-wake                                   *)
(*  K4-resource-leak/<what>, K4-waker-kept/<thing>     after the drop of the future                           *)
(*  K4-polled-after-drop/<counter>, K4-polled-after-completion/<counter>, K4-leak-after-completion/<what>     *)
(*  K5-interference/<action>         a step on one call changed what is observable of another                 *)
(*  K5-probe-failed/<result>         the fresh call after the drain was not served                            *)
(***************************************************************************)
EXTENDS Naturals, Sequences, FiniteSets, TLC, Json, IOUtils

Rec == ndJsonDeserialize(IOEnv.TRACE)
N == Len(Rec)

VARIABLES l, h
vars == <<l, h>>

H0 == [run |-> 0, base |-> 0, src |-> "", viol |-> <<>>]
Init == l = 0 /\ h = H0

S(q) == {q[i] : i \in 1..Len(q)}
If(c, v) == IF c THEN <<v>> ELSE <<>>
V(key, c) == [l |-> l + 1, key |-> "connector/" \o key, c |-> c]
First(q) == IF Len(q) = 0 THEN "none" ELSE q[1]

Things == <<"tready", "connect", "pready", "handshake", "send">>
Idx(x) == CHOOSE i \in 1..5 : Things[i] = x
Name(x) == CASE x = "tready" -> "transport-ready" [] x = "connect" -> "connect" [] x = "pready" -> "handshake-ready"
             [] x = "handshake" -> "handshake" [] x = "send" -> "send" [] OTHER -> "none"
Class(x) == IF x \in {"tready", "connect"} THEN "Connecting" ELSE IF x \in {"pready", "handshake"} THEN "Handshaking" ELSE "Inner"
Proto(v) == IF v = "h2" THEN "Http2" ELSE "Http1"
Counters == <<"cn", "hs", "ic", "tr", "cp", "pr", "hp", "ir", "ip">>

Idle0 == [st |-> "idle", kind |-> "", ver |-> "", res |-> "", polled |-> FALSE, woken |-> FALSE,
          n |-> [cn |-> 0, hs |-> 0, ic |-> 0, tr |-> 0, cp |-> 0, pr |-> 0, hp |-> 0, ir |-> 0, ip |-> 0, bg |-> 0],
          seen |-> <<>>, live |-> <<>>, over |-> <<>>, reg |-> <<>>, stale |-> <<>>,
          gates |-> <<"none", "none", "none", "none", "none">>, hs |-> [io |-> 0, ver |-> ""],
          ex |-> [conn |-> 0, same |-> TRUE, alt |-> <<>>], pa |-> <<>>]
OC(o, c) == IF c \in 1..Len(o.calls) THEN o.calls[c] ELSE Idle0
NC(o1, o2) == IF Len(o1.calls) > Len(o2.calls) THEN Len(o1.calls) ELSE Len(o2.calls)

\* the events of call c during the step, in order
EvC(e, c) == SelectSeq(e.evs, LAMBDA r : r[1] = c)
Hit(q, t, o, i) == q[i][2] = t /\ q[i][3] = o
Pos(q, t, o) == IF \E i \in 1..Len(q) : Hit(q, t, o, i)
                THEN CHOOSE i \in 1..Len(q) : Hit(q, t, o, i) /\ \A j \in 1..(i - 1) : ~Hit(q, t, o, j) ELSE 0
\* thing t answered Ok before `callthing` was called: in an earlier step, or earlier in this one
Before(P, q, t, callthing) == t \in S(P.seen) \/ (Pos(q, t, "ok") # 0 /\ Pos(q, t, "ok") < Pos(q, callthing, "call"))
Changed(P, Q) == SelectSeq(Counters, LAMBDA k : P.n[k] # Q.n[k])

-----------------------------------------------------------------------------
(* K2: evaluated for the acting call on every record that can run code of the call *)
K2Clauses(c, P, Q, e) ==
  LET q == EvC(e, c) IN
     If(Q.n.cn > 1 /\ P.n.cn <= 1, V("K2-connect-twice", c))
  \o If(Q.n.hs > 1 /\ P.n.hs <= 1, V("K2-handshake-twice", c))
  \o If(Q.n.ic > 1 /\ P.n.ic <= 1, V("K2-send-twice", c))
  \o If(Q.n.cn > P.n.cn /\ ~Before(P, q, "tready", "connect"), V("K2-connect-before-transport-ready", c))
  \o If(Q.n.cn > P.n.cn /\ Len(Q.pa) > 0, V("K2-connect-parts/" \o First(Q.pa), c))
  \o If(Q.n.hs > P.n.hs /\ ~Before(P, q, "connect", "handshake"), V("K2-handshake-before-connect", c))
  \o If(Q.n.hs > P.n.hs /\ ~Before(P, q, "pready", "handshake"), V("K2-handshake-before-protocol-ready", c))
  \o If(Q.n.hs > P.n.hs /\ Q.hs.io # c, V("K2-handshake-stream", c))
  \o If(Q.n.hs > P.n.hs /\ Q.hs.ver # Proto(Q.ver), V("K2-handshake-version/" \o Q.ver \o "-as-" \o Q.hs.ver, c))
  \o If(Q.n.ic > P.n.ic /\ ~Before(P, q, "handshake", "send"), V("K2-send-before-handshake", c))
  \o If(Q.n.ic > P.n.ic /\ Q.ex.conn # c, V("K2-send-connection", c))
  \o If(Q.n.ic > P.n.ic /\ ~Q.ex.same, V("K2-request-altered/" \o First(Q.ex.alt), c))

PollClauses(c, P, Q, e) ==
  LET q == EvC(e, c)
      errs == SelectSeq(q, LAMBDA r : r[3] = "err")
      pend == SelectSeq(q, LAMBDA r : r[3] = "pending")
      lastIdx == IF Q.kind = "svc" THEN 5 ELSE 4
  IN
  IF e.res = "panic" THEN <<V("K1-panic/poll-" \o P.kind, c)>>
  ELSE IF e.res = "pending" THEN
       \* K3: somebody the call waits for (undecided) holds the waker of this very poll
       If(~Q.woken /\ ~(\E t \in S(Q.reg) : Q.gates[Idx(t)] = "none"),
          V("K3-lost-wakeup/" \o (IF Len(pend) > 0 THEN Name(pend[Len(pend)][2]) ELSE "nothing-polled"), c))
  ELSE
       If(e.forced, V("K3-lost-wakeup/ready-on-forced-repoll", c))
    \o (IF e.res \in {"Connecting", "Handshaking", "Inner"} THEN
          IF Len(errs) = 0 THEN <<V("K1-error-class/invented-" \o e.res, c)>>
          ELSE LET t == errs[1][2] IN
                  If(e.res # Class(t), V("K1-error-class/" \o Name(t) \o "-err", c))
               \o If(e.thing # t \/ e.ecall # c, V("K1-error-source/" \o Name(t) \o "-err", c))
        ELSE IF e.res = "Unsupported" THEN
          If(P.ver # "h3" \/ P.kind # "svc" \/ Len(q) > 0, V("K1-error-class/unsupported-for-" \o P.ver, c))
        ELSE IF e.res = "Ok" THEN
             If(Len(errs) > 0, V("K1-error-swallowed/" \o Name(IF Len(errs) > 0 THEN errs[1][2] ELSE ""), c))
          \o If(e.detail # "", V("K1-result-mismatch", c))
          \o If(P.ver = "h3" /\ P.kind = "svc", V("K1-error-class/unsupported-not-rejected", c))
          \o (LET missing == SelectSeq(SubSeq(Things, 1, lastIdx), LAMBDA t : t \notin S(Q.seen))
              IN If(Len(missing) > 0, V("K2-stage-skipped/" \o Name(First(missing)), c)))
        ELSE <<V("K1-error-class/unexpected-" \o e.res, c)>>)
       \* K4 (completion): nothing of a resolved call stays behind, except the connection a connector future returned
    \o (LET keep == IF Q.kind = "fut" /\ e.res = "Ok" THEN {"cn", "io"} ELSE {}
            left == SelectSeq(Q.live, LAMBDA r : r \notin keep)
        IN If(Len(left) > 0, V("K4-leak-after-completion/" \o First(left), c)))

CancelClauses(c, P, Q, e) ==
     If(e.res = "panic", V("K1-panic/drop", c))
  \o If(Len(Q.live) > 0, V("K4-resource-leak/" \o First(Q.live), c))
  \o If(Len(Q.reg) + Len(Q.stale) > 0, V("K4-waker-kept/" \o First(Q.reg \o Q.stale), c))

\* every record: calls that were dropped or resolved before it stay as they are; other calls than the acting one too
Quiet(pre, post, e) ==
  LET F(d) ==
        LET P == OC(pre, d) Q == OC(post, d) IN
           If(P.st = "dropped" /\ Len(Changed(P, Q)) > 0, V("K4-polled-after-drop/" \o First(Changed(P, Q)), d))
        \o If(P.st = "dropped" /\ Len(Q.live) > Len(P.live), V("K4-resource-leak/late-" \o First(Q.live), d))
        \o If(P.st = "done" /\ Len(Changed(P, Q)) > 0, V("K4-polled-after-completion/" \o First(Changed(P, Q)), d))
        \o If(P.st \notin {"dropped", "done"} /\ d # e.c /\ (P # Q \/ Len(EvC(e, d)) > 0), V("K5-interference/" \o e.e, d))
      G[d \in 0..NC(pre, post)] == IF d = 0 THEN <<>> ELSE G[d - 1] \o F(d)
  IN G[NC(pre, post)]

EndClauses(e, post) ==
  LET G[d \in 0..Len(post.calls)] ==
        IF d = 0 THEN <<>>
        ELSE G[d - 1] \o If(post.calls[d].st = "live",
                            V("K1-stranded/" \o (IF Len(post.calls[d].reg) > 0 THEN Name(post.calls[d].reg[1]) ELSE "unregistered"), d))
  IN G[Len(post.calls)] \o If(e.res # "Ok", V("K5-probe-failed/" \o e.res, e.c))

Clauses(pre, e, post) ==
  LET c == e.c P == OC(pre, c) Q == OC(post, c) IN
  (CASE e.e = "Poll" -> PollClauses(c, P, Q, e) \o K2Clauses(c, P, Q, e)
     [] e.e = "Start" -> If(e.res = "panic", V("K1-panic/call-" \o e.v, c)) \o K2Clauses(c, P, Q, e)
     [] e.e = "Cancel" -> CancelClauses(c, P, Q, e) \o K2Clauses(c, P, Q, e)
     [] e.e = "Env" -> If(e.x \in S(P.reg) /\ ~Q.woken, V("K3-lost-wakeup/gate-open-no-wake", c))
     [] e.e = "SvcReady" ->
            If(e.res = "panic", V("K1-panic/poll_ready", 0))
         \o If(e.res \notin {"panic", "pending", "ok", "Connecting"} \/ (e.res = "Connecting" /\ (e.thing # "tready" \/ e.ecall # 0)),
               V("K1-error-class/poll_ready-" \o e.res, 0))
     [] e.e = "End" -> EndClauses(e, post)
     [] OTHER -> <<>>)
  \o (IF e.e = "End" THEN <<>> ELSE Quiet(pre, post, e))

Step ==
  /\ l < N
  /\ l' = l + 1
  /\ LET e == Rec[l + 1] IN
     IF e.e = "Reset"
     THEN h' = [run |-> e.run, base |-> l + 1, src |-> e.src, viol |-> h.viol]
     ELSE LET new == Clauses(Rec[l].obs, e, e.obs)
          IN h' = [h EXCEPT !.viol = @ \o [i \in 1..Len(new) |-> new[i] @@ [run |-> h.run, base |-> h.base, src |-> h.src]]]

Spec == Init /\ [][Step]_vars

\* the trace is well-formed (a failure here is a tool error, not a verdict)
Sane == l > 0 => Rec[l].e \in {"Reset", "Start", "Env", "Poll", "Cancel", "EnvSvc", "SvcReady", "End"}
\* the whole trace was read
Consumed == TLCGet("stats").diameter - 1 = N
\* printed once, at the end of the trace: every falsified clause
Report == l = N => PrintT(<<"VIOL", ToJson(h.viol)>>)
=============================================================================
