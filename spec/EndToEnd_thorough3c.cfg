CONSTANTS
  Req <- MCReq3
  Conn <- MCConn3
  Origin <- MCOrigin2
  Versions <- MCBoth
  Buggy <- MCNoBug
  AllowBreak = TRUE
  AllowUpgrade = TRUE
INIT Init
NEXT Next
INVARIANTS TypeOK MatchedState H1ExclusiveState NoCrossOriginState FailedOnlyIfBroken
PROPERTIES Matched ResponseIntact RequestIntact H1Exclusive NoReuseAfterUpgrade NoCrossOrigin NoSpuriousFailure
CHECK_DEADLOCK FALSE
