CONSTANTS
  NReq = 3
  NOrig = 1
  MaxDial = 3
  MaxTick = 0
  AsBuilt <- AllD
  Caps = {TRUE, FALSE}
  MaxIdles = {1, 2}
  IdleTimeouts = {0}
  Protos = {TRUE, FALSE}
  Faults <- AllFaults
  Spurious = FALSE
  AllowDrop = FALSE
  GenDepth = 30
  MaxCancel = 1
INIT InitH
NEXT NextH
INVARIANT Emit
CHECK_DEADLOCK FALSE
