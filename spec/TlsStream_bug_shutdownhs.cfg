\* TlsStream vacuity guard / standing demonstration: the design variant "shutdownhs" MUST violate T3_ShutdownReady
SPECIFICATION Spec
CONSTANTS
  MaxOps = 4
  MaxBytes = 3
  MaxRx = 1
  Bug = "shutdownhs"
  Sides <- MCSides
  Certs <- MCCerts
  ReadCaps <- MCReadCaps
  WriteLens <- MCWriteLens
  SendLens <- MCSendLens
VIEW MCView
INVARIANTS
  T3_ShutdownReady
