---------------------------- MODULE PipelineObs ----------------------------
(***************************************************************************)
(* C17 property monitor over records taken from the REAL client stacks      *)
(* (harness bin `pipeline`, release build and release + debug assertions).  *)
(* One record per (vector, payload, spelling): the concrete request, the    *)
(* configuration and the history it was sent with, what the caller got, and *)
(* every panic the global hook saw while the previous requests, the request *)
(* and all tasks spawned for them ran to quiescence.  Every record is one   *)
(* initial state; the property formulas of Pipeline.tla are evaluated on    *)
(* the real observation.  This module decides VIOLATION.                    *)
(*   PipelineObs.cfg         report mode (always-TRUE invariants printing a  *)
(*                           BAD line for every clause evaluated to FALSE)   *)
(*   PipelineObs_strict.cfg  the clauses are the INVARIANTs (replay)         *)
(* A real outcome class outside the set the model allows for the vector, or *)
(* a connection re-used / dialled against the model's prediction, is DRIFT  *)
(* (DIFF lines), never a violation.                                         *)
(***************************************************************************)
EXTENDS Pipeline, Json, IOUtils

Rec == ndJsonDeserialize(IOEnv.TRACE)
N == Len(Rec)

VARIABLE l

R == Rec[l]
X == [ver |-> R.v.ver, method |-> R.v.method, uri |-> R.v.uri, host |-> R.v.host, stack |-> R.v.stack,
      transport |-> R.v.transport, net |-> R.v.net, pool |-> R.v.pool, idle |-> R.v.idle, maxidle |-> R.v.maxidle,
      cap |-> R.v.cap, rto |-> R.v.rto, redir |-> R.v.redir, ct |-> R.v.ct, het |-> R.v.het, hec |-> R.v.hec,
      ka |-> R.v.ka, buf |-> R.v.buf, hist |-> R.v.hist, da |-> R.v.da]

Range(s) == {s[i] : i \in DOMAIN s}

\* the real observation in the vocabulary of the property
O == [panicked |-> R.obs.panicked,                      \* a caller's task unwound, or the hook saw a panic in any task
      returned |-> R.obs.result \in {"resp", "err"},
      stuck    |-> R.obs.stuck]                         \* the request's future did not return from a poll (wall clock)

ObsInit == /\ l \in 1..N
           /\ v = X /\ asBuilt = FALSE /\ pc = "done" /\ conn = "none"
           /\ out = [classes |-> {R.obs.class}, stage |-> "real", reuse |-> "none"]
ObsNext == UNCHANGED <<l, vars>>

\* "notrun": not executed because the probe of one of its configuration classes is stuck (no observation)
Executed == R.obs.class # "notrun"

WellFormed == /\ IsVector(v)
              /\ [hdr |-> R.v.hdr, body |-> R.v.body] \in Payloads
              /\ R.obs.panicked \in BOOLEAN /\ R.obs.stuck \in BOOLEAN
              /\ R.obs.class \in {"resp", "err", "panic", "task-panic", "hang", "stuck", "notrun"}
              /\ (R.obs.class \in {"panic", "task-panic"}) = R.obs.panicked
              /\ (R.obs.class = "stuck") = R.obs.stuck
              /\ R.build = (IF v.da THEN "da" ELSE "release")     \* executed by the build the vector names

Bad(c) == PrintT(<<"BAD", ToJson([i |-> l, clause |-> c])>>)

\* report mode
R_NoPanic == P_NoPanic(v, O) \/ Bad("NoPanic")
R_NoStall == P_NoStall(v, O) \/ Bad("NoStall")
\* strict mode: the property itself
C17_NoPanic == P_NoPanic(v, O)
C17_NoStall == P_NoStall(v, O)

\* not part of the oracle (a request that is neither answered nor failed within 30 s of virtual time): reported
Unresolved == ~Executed \/ O.returned \/ O.panicked \/ O.stuck \/ PrintT(<<"HANG", ToJson([i |-> l])>>)

\* conformance (DRIFT only): R.exp / R.expAsBuilt = outcome classes TLC computed on Pipeline.tla for the vector;
\* R.exp.reuse = the model's statement about the connection ("yes": one of a previous request, "no": a new one)
RealClass == CASE R.obs.class = "task-panic" -> "panic"
               [] R.obs.class = "stuck" -> "stall"
               [] OTHER -> R.obs.class
\* "yes": no connection is dialled for the request; "no": a response needs a connection dialled for it (an error can
\* precede the dial: the server-name conversion, the HTTP/2 and HTTP/1 checks of a request that is never sent)
ReuseOk == /\ (Range(R.exp.reuse) = {"yes"} /\ O.returned) => R.obs.dialsFinal = 0
           /\ (Range(R.exp.reuse) = {"no"} /\ R.obs.result = "resp") => R.obs.dialsFinal > 0
ObsDrift == ~Executed \/
            /\ (RealClass \in Range(R.exp.classes) \/ PrintT(<<"DIFFI", ToJson([i |-> l])>>))
            /\ (RealClass \in Range(R.expAsBuilt.classes) \/ PrintT(<<"DIFFA", ToJson([i |-> l])>>))
            /\ (ReuseOk \/ PrintT(<<"DIFFR", ToJson([i |-> l])>>))

Consumed == PrintT(<<"CONSUMED", TLCGet("stats").distinct, N>>) /\ TLCGet("stats").distinct = N
=============================================================================
