---------------------------- MODULE PipelineObs ----------------------------
(***************************************************************************)
(* C17 property monitor over records taken from the REAL client stacks      *)
(* (harness bin `pipeline`, release build and release + debug assertions).  *)
(* One record per (vector, payload, spelling): the concrete request, what   *)
(* the caller got, and every panic the global hook saw while the request    *)
(* and all tasks spawned for it ran to quiescence.  Every record is one     *)
(* initial state; the property formulas of Pipeline.tla are evaluated on    *)
(* the real observation.  This module decides VIOLATION.                    *)
(*   PipelineObs.cfg         report mode (always-TRUE invariants printing a  *)
(*                           BAD line for every clause evaluated to FALSE)   *)
(*   PipelineObs_strict.cfg  the clauses are the INVARIANTs (replay)         *)
(* A real outcome class outside the set the model allows for the vector is  *)
(* DRIFT (DIFF lines), never a violation.                                   *)
(***************************************************************************)
EXTENDS Pipeline, Sequences, Json, IOUtils

Rec == ndJsonDeserialize(IOEnv.TRACE)
N == Len(Rec)

VARIABLE l

R == Rec[l]
X == [ver |-> R.v.ver, method |-> R.v.method, uri |-> R.v.uri, host |-> R.v.host, stack |-> R.v.stack,
      transport |-> R.v.transport, da |-> R.v.da]

Range(s) == {s[i] : i \in DOMAIN s}

\* the real observation in the vocabulary of the property
O == [panicked |-> R.obs.panicked,                      \* caller's task unwound, or the hook saw a panic in any task
      returned |-> R.obs.result \in {"resp", "err"}]

ObsInit == /\ l \in 1..N
           /\ v = X /\ asBuilt = FALSE /\ pc = "done" /\ conn = "none"
           /\ out = [classes |-> {R.obs.class}, stage |-> "real"]
ObsNext == UNCHANGED <<l, vars>>

WellFormed == /\ v \in Vectors
              /\ [hdr |-> R.v.hdr, body |-> R.v.body] \in Payloads
              /\ R.obs.panicked \in BOOLEAN
              /\ R.obs.class \in {"resp", "err", "panic", "task-panic", "hang"}
              /\ (R.obs.class \in {"panic", "task-panic"}) = R.obs.panicked
              /\ R.build = (IF v.da THEN "da" ELSE "release")     \* executed by the build the vector names

Bad(c) == PrintT(<<"BAD", ToJson([i |-> l, clause |-> c])>>)

\* report mode
R_NoPanic == P_NoPanic(v, O) \/ Bad("NoPanic")
\* strict mode: the property itself
C17_NoPanic == P_NoPanic(v, O)

\* not part of the oracle (a request that is neither answered nor failed within 30 s of virtual time): reported
Unresolved == O.returned \/ O.panicked \/ PrintT(<<"HANG", ToJson([i |-> l])>>)

\* conformance (DRIFT only): R.exp / R.expAsBuilt = outcome classes TLC computed on Pipeline.tla for the vector
RealClass == IF R.obs.class = "task-panic" THEN "panic" ELSE R.obs.class
ObsDrift == /\ (RealClass \in Range(R.exp.classes) \/ PrintT(<<"DIFFI", ToJson([i |-> l])>>))
            /\ (RealClass \in Range(R.expAsBuilt.classes) \/ PrintT(<<"DIFFA", ToJson([i |-> l])>>))

Consumed == PrintT(<<"CONSUMED", TLCGet("stats").distinct, N>>) /\ TLCGet("stats").distinct = N
=============================================================================
