------------------------------ MODULE MC_Pool ------------------------------
(* Model-checking instance of Pool.tla (no history variable). *)
EXTENDS Pool

AllD == {"D1", "D2", "D3", "D4", "D5", "D11", "D13", "D17"}
NoFaults == {}
AllFaults == {"connect", "handshake", "close", "upgrade"}
SomeFaults == {"connect", "handshake", "close"}
CloseOnly == {"close"}
=============================================================================
