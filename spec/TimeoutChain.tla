---------------------------- MODULE TimeoutChain ----------------------------
(***************************************************************************)
(* C19, the redirect dimension of Timeout.tla.                              *)
(*                                                                          *)
(* client/builder.rs stacks   SharedService -> Timeout -> FollowRedirect -> *)
(* ... -> ConnectionPool.  tower-http's FollowRedirect calls its inner       *)
(* service once per hop, so what the caller issued is a CHAIN of 1..MaxHops  *)
(* inner calls (each with its own completion time); the property's deadline  *)
(* is measured from the ORIGINAL issue, which holds because the timeout      *)
(* layer is OUTSIDE the redirect layer: one Sleep for the whole chain.       *)
(* (What a single inner call does with the pool at expiry is Timeout.tla;    *)
(* here a hop is just "an inner call whose response arrives `delay` after    *)
(* it was made, or never".)                                                  *)
(*                                                                          *)
(* A vector (n, delay[1..n], dur) is chosen in Init.  Steps: Arrive (the     *)
(* response of the current hop reaches the client), Poll (one poll of the    *)
(* caller's future: the redirect future first - a 3xx starts the next hop at *)
(* once, the last response is the result - then the Sleep), Advance.  When   *)
(* an arrival and the expiry fall on the same instant both orders are        *)
(* possible (the response travels through the connection's tasks while the   *)
(* timer wakes the caller directly): the model keeps both outcomes, Outcomes *)
(* of a vector = the set of terminal results.                                *)
(*                                                                          *)
(* AsBuilt = {"TimeoutInsideRedirect"}: the two layers swapped - every hop   *)
(* gets a fresh Sleep.  TLC refutes ChainByDeadline with a two-hop witness.  *)
(***************************************************************************)
EXTENDS Naturals, Sequences, TLC, Json

CONSTANTS MaxHops,   \* 1..3
          Delays,    \* hop completion delays to explore; Never is added
          Durs,      \* durations
          AsBuilt,   \* {} or {"TimeoutInsideRedirect"}
          Gen        \* BOOLEAN: print every terminal state as a vector with its outcome

Never == 99
MaxT == 12

VARIABLES n, delay, dur,   \* the vector
          t,               \* virtual clock
          hop,             \* current hop (0: not issued yet)
          hopAt,           \* when the current hop's inner call was made
          arr,             \* its response has reached the client
          iss,             \* when the caller issued the request
          tmAt,            \* base of the Sleep that guards the current poll
          out, at          \* result "none" | "ok" | "timeout" and when
vars == <<n, delay, dur, t, hop, hopAt, arr, iss, tmAt, out, at>>

Inside == "TimeoutInsideRedirect" \in AsBuilt

Init ==
  /\ n \in 1..MaxHops
  /\ delay \in [1..MaxHops -> Delays \cup {Never}]
  /\ \A i \in (n + 1)..MaxHops : delay[i] = 0          \* unused entries are fixed (no duplicate vectors)
  /\ dur \in Durs
  /\ t = 0 /\ hop = 0 /\ hopAt = 0 /\ arr = FALSE /\ iss = 0 /\ tmAt = 0 /\ out = "none" /\ at = 0

Active == hop > 0 /\ out = "none"
Due == Active /\ ~arr /\ delay[hop] # Never /\ t >= hopAt + delay[hop]     \* the response is on its way in
Elapsed == Active /\ t >= tmAt + dur

Issue ==
  /\ hop = 0
  /\ hop' = 1 /\ hopAt' = t /\ iss' = t /\ tmAt' = t
  /\ UNCHANGED <<n, delay, dur, t, arr, out, at>>

Arrive ==
  /\ Due
  /\ arr' = TRUE
  /\ UNCHANGED <<n, delay, dur, t, hop, hopAt, iss, tmAt, out, at>>

\* one poll of the caller's future (it is polled when something woke it: an arrival or the timer)
Poll ==
  /\ Active /\ (arr \/ Elapsed)
  /\ IF arr
     THEN IF hop = n
          THEN /\ out' = "ok" /\ at' = t                       \* the final response: returned unchanged
               /\ UNCHANGED <<hop, hopAt, arr, tmAt>>
          ELSE /\ hop' = hop + 1 /\ hopAt' = t /\ arr' = FALSE  \* 3xx: FollowRedirect calls its inner service again
               /\ tmAt' = IF Inside THEN t ELSE tmAt            \* as built: that call creates a fresh Sleep
               /\ UNCHANGED <<out, at>>
     ELSE /\ out' = "timeout" /\ at' = t
          /\ UNCHANGED <<hop, hopAt, arr, tmAt>>
  /\ UNCHANGED <<n, delay, dur, t, iss>>

\* time passes only when nothing is due (arrivals are delivered and woken tasks are polled first)
Advance ==
  /\ Active /\ ~Due /\ ~arr /\ ~Elapsed
  /\ t < MaxT
  /\ t' = t + 1
  /\ UNCHANGED <<n, delay, dur, hop, hopAt, arr, iss, tmAt, out, at>>

Next == Issue \/ Arrive \/ Poll \/ Advance
Spec == Init /\ [][Next]_vars

-----------------------------------------------------------------------------
RECURSIVE SumTo(_)
SumTo(i) == IF i = 0 THEN 0 ELSE IF delay[i] = Never \/ SumTo(i - 1) >= Never THEN Never ELSE delay[i] + SumTo(i - 1)
Total == SumTo(n)                 \* when the final response arrives, counted from the issue (Never if some hop never answers)

\* "resolves with the configured timeout error no later than the configured duration after it was issued ..."
ChainByDeadline == out # "none" => at <= iss + dur
ChainNoStall == Active => t <= iss + dur
ChainNotEarly == out = "timeout" => at >= iss + dur
\* "... unless the inner service resolved first, in which case the inner result is returned"
ChainInnerFirst == out = "timeout" => Total >= dur
ChainOkIsInner == out = "ok" => at = iss + Total

Vector == [n |-> n, delay |-> [i \in 1..n |-> delay[i]], dur |-> dur]
Emit == (Gen /\ out # "none") => PrintT(<<"VECTOR", ToJson([v |-> Vector, res |-> out, at |-> at])>>)
=============================================================================
