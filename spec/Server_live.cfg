SPECIFICATION Spec
CONSTANTS
  NConn = 2
  MaxReq = 1
  MaxReq2 = 1
  Protos <- H1Only
  TlsModes <- BothBool
  MakeModes <- OnlyFalse
  MaxFaults = 1
  AsBuiltD8 = FALSE
  SigOnMake <- SigNever
  Hoisted = FALSE
  GenMode = FALSE
  GenLen = 0
INVARIANTS TypeOK
PROPERTIES C07_SignalReturns C09_AcceptNeverBlocked
