------------------------------ MODULE TcpCall ------------------------------
(* One transport call, stage by stage, structured like src/client/conn/transport/tcp.rs:                        *)
(*                                                                                                              *)
(*   call(parts)            get_host_and_port(&uri)?  -> Box::pin(async { transport.connect(host, port) })       *)
(*   get_host_and_port      uri.host() or "missing host"; brackets trimmed; uri.port_u16() or the default of     *)
(*                          "http" (80) / "https" (443) or "missing port"            [stage "uri"]               *)
(*   connect -> resolve     resolver.resolve(host, connect_timeout): the resolver future under                   *)
(*                          tokio::time::timeout(connect_timeout) when configured     [stage "resolve"]           *)
(*   connect                addrs.set_port(port)                                      [stage "setport"]           *)
(*   connecting()           addrs.sort_preferred(IpVersion::from_binding(v4, v6))     [stage "sort"]              *)
(*   TcpConnecting::connect delay = he_timeout / len; EyeballSet::new(delay, he_timeout, he_concurrency);         *)
(*                          one TcpConnectionAttempt per address, pushed in order     [stage "connect"]           *)
(*   attempt                connect(addr, connect_timeout, config): socket set-up, then                          *)
(*                          tokio::time::timeout(connect_timeout, socket.connect(addr)): an attempt that does     *)
(*                          not complete in time FAILS with TimedOut - that is this candidate's failure and lets  *)
(*                          the set start the next one                               [stage "eyeballs"]           *)
(*   attempts.finish()      Error(e) -> e | Timeout -> "timed out" | NoProgress -> "exhausted"  [stage "done"]    *)
(*                                                                                                              *)
(* SimpleTcpTransport is the second machine: FirstAddrResolver (empty answer = resolver error), the first       *)
(* address only, no sorting, one attempt under connect_timeout.                                                 *)
(* The happy-eyeballs set itself is NOT restated: the timed transcription Eyeballs.tla is extended, its scenario  *)
(* (n, outcome, lat, delay, tmo, conc) is derived from the call's candidates when the stage is entered.          *)
(* The preference sort is AddrSort.tla's decision function (instantiated in TcpCallProps).                       *)
(* The caller may drop the call future (cv.dropT): the resolver future and every attempt are dropped with it.    *)
(*                                                                                                              *)
(* As-built-style switches (all FALSE in the intended variant; each TRUE variant is refuted by TLC):             *)
(*   TimeoutWholeSet       connect_timeout bounds the whole set of attempts instead of each attempt              *)
(*   WrongDefaultPort      the default port is taken from the wrong scheme (https -> 80, http -> 443)            *)
(*   SwallowResolverError  a resolver error is turned into an empty address list                                 *)
(*   DetachedCall          the work runs in a detached task: dropping the call future stops nothing              *)
EXTENDS Eyeballs, TcpCallProps

CONSTANTS TimeoutWholeSet, WrongDefaultPort, SwallowResolverError, DetachedCall,
          WsDefaults       \* TRUE: ws / wss get the default ports 80 / 443; FALSE (as built): "missing port"

VARIABLES cv,       \* the call vector (see TcpCallProps; without unit / margin)
          stg,      \* "uri" | "resolve" | "resolving" | "setport" | "sort" | "connect" | "eyeballs" | "done" | "dropped"
          hp,       \* port extracted from the URI (0 = none yet)
          addrs,    \* the address list as it travels through the stages: <<[f, t, port]>>, t = resolver index
          tRes,     \* instant at which the resolution completed (the set's clock `now` is relative to it)
          rfut,     \* the resolver future: "none" | "pending" | "done" | "dropped"
          dropped,  \* the caller has dropped the call future
          cres      \* result of the call [kind, id, errclass, at]
cvars == <<cv, stg, hp, addrs, tRes, rfut, dropped, cres>>

NoRes == [kind |-> "none", id |-> 0, errclass |-> "", at |-> NONE]
Res(k, i, c, t) == [kind |-> k, id |-> i, errclass |-> c, at |-> t]

\* the set's variables before the stage "eyeballs" is entered
EbIdle == /\ n = 0 /\ outcome = [i \in Att |-> "never"] /\ lat = [i \in Att |-> 0]
          /\ delay = NONE /\ tmo = NONE /\ conc = NONE /\ now = 0 /\ q = <<>> /\ cur = 0
          /\ running = {} /\ fresh = <<>> /\ comp = {} /\ start = [i \in Att |-> NONE]
          /\ ord = [i \in Att |-> 0] /\ nord = 0 /\ firstErr = 0 /\ phase = "init" /\ stepDl = NONE
          /\ result = [kind |-> "none", id |-> 0, at |-> NONE]

CallInitWith(vec) == /\ cv = vec /\ stg = "uri" /\ hp = 0 /\ addrs = <<>> /\ tRes = 0 /\ rfut = "none"
                     /\ dropped = FALSE /\ cres = NoRes /\ EbIdle

---------------------------------------------------------------------------
\* get_host_and_port
SchemeDefault(s) ==
  CASE s = "http"  -> IF WrongDefaultPort THEN 443 ELSE 80
    [] s = "https" -> IF WrongDefaultPort THEN 80 ELSE 443
    [] s = "ws"    -> IF WsDefaults THEN 80 ELSE 0
    [] s = "wss"   -> IF WsDefaults THEN 443 ELSE 0
    [] OTHER       -> 0
Extract ==
  /\ stg = "uri"
  /\ LET p == IF cv.port = "explicit" THEN cv.uport ELSE SchemeDefault(cv.scheme) IN
     IF cv.host = "none" \/ p = 0
     THEN /\ cres' = Res("invaliduri", 0, "", 0) /\ stg' = "done" /\ UNCHANGED hp
     ELSE /\ hp' = p /\ stg' = "resolve" /\ UNCHANGED cres
  /\ UNCHANGED <<cv, addrs, tRes, rfut, dropped, vars>>

\* resolver.resolve(host, connect_timeout): the resolver is called (its future exists from now on)
ResolveStart ==
  /\ stg = "resolve" /\ stg' = "resolving" /\ rfut' = "pending"
  /\ UNCHANGED <<cv, hp, addrs, tRes, dropped, cres, vars>>

RawList == [i \in 1..cv.n |-> [f |-> cv.fam[i], t |-> i, port |-> 7]]      \* the resolver's answer carries some port
ResTimeoutFires == cv.ct # NONE /\ (cv.res = "never" \/ cv.rlat > cv.ct)   \* timeout() polls the resolver first
ResEndsAt == IF ResTimeoutFires THEN cv.ct ELSE IF cv.res = "never" THEN INF ELSE cv.rlat
DropBeforeResolved == cv.dropT # NONE /\ cv.dropT < ResEndsAt

ResolveDone ==
  /\ stg = "resolving" /\ ~dropped /\ ~DropBeforeResolved
  /\ IF ResTimeoutFires
     THEN /\ cres' = Res("dnstimeout", 0, "", cv.ct) /\ stg' = "done" /\ rfut' = "dropped" /\ UNCHANGED <<addrs, tRes>>
     ELSE IF cv.res = "never"
     THEN /\ cres' = Res("hang", 0, "", NONE) /\ stg' = "done" /\ UNCHANGED <<addrs, tRes, rfut>>
     ELSE /\ rfut' = "done" /\ tRes' = cv.rlat
          /\ LET err   == cv.res = "error" /\ ~SwallowResolverError
                 empty == cv.res = "empty" \/ (cv.res = "error" /\ SwallowResolverError)
             IN IF err \/ (empty /\ CSimple(cv))                    \* FirstAddrResolver: "no address found"
                THEN /\ cres' = Res("dnserr", 0, "", cv.rlat) /\ stg' = "done" /\ UNCHANGED addrs
                ELSE /\ addrs' = IF empty THEN <<>> ELSE IF CSimple(cv) THEN <<RawList[1]>> ELSE RawList
                     /\ stg' = "setport" /\ UNCHANGED cres
  /\ UNCHANGED <<cv, hp, dropped, vars>>

\* addrs.set_port(port) / SocketAddr::new(ip, port)
SetPortStep ==
  /\ stg = "setport"
  /\ addrs' = [k \in 1..Len(addrs) |-> [addrs[k] EXCEPT !.port = hp]]
  /\ stg' = IF CSimple(cv) THEN "connect" ELSE "sort"
  /\ UNCHANGED <<cv, hp, tRes, rfut, dropped, cres, vars>>

\* connecting(): sort_preferred(from_binding(..)) - AddrSort.tla's function
SortStep ==
  /\ stg = "sort"
  /\ addrs' = AS!SortPreferred(addrs, AS!FromBinding(cv.bind))
  /\ stg' = "connect"
  /\ UNCHANGED <<cv, hp, tRes, rfut, dropped, cres, vars>>

\* what the attempt for resolver index i does once started: (outcome, latency) given to the set
EffOc(i) == IF TimeoutWholeSet THEN cv.oc[i]
            ELSE CASE cv.oc[i] = "err" -> "err"
                   [] cv.oc[i] = "never" -> IF cv.ct = NONE THEN "never" ELSE "err"
                   [] OTHER -> IF cv.ct # NONE /\ cv.lat[i] > cv.ct THEN "err" ELSE "ok"
EffLat(i) == IF TimeoutWholeSet THEN (IF cv.oc[i] = "ok" THEN cv.lat[i] ELSE 0)
             ELSE CASE cv.oc[i] = "err" -> 0
                    [] cv.oc[i] = "never" -> IF cv.ct = NONE THEN 0 ELSE cv.ct
                    [] OTHER -> IF cv.ct # NONE /\ cv.lat[i] > cv.ct THEN cv.ct ELSE cv.lat[i]

\* TcpConnecting::connect (or the single attempt of the simple transport): fill the set
ConnectStep ==
  /\ stg = "connect" /\ stg' = "eyeballs"
  /\ LET m == Len(addrs)
         he == IF CSimple(cv) THEN NONE ELSE cv.heT
     IN /\ n' = m
        /\ outcome' = [k \in Att |-> IF k <= m THEN EffOc(addrs[k].t) ELSE "never"]
        /\ lat' = [k \in Att |-> IF k <= m THEN EffLat(addrs[k].t) ELSE 0]
        /\ delay' = IF he = NONE THEN NONE ELSE IF m = 0 THEN he ELSE he \div m
        /\ tmo' = IF TimeoutWholeSet /\ cv.ct # NONE
                  THEN (IF he = NONE THEN cv.ct ELSE EMin(he, cv.ct)) ELSE he
        /\ conc' = IF CSimple(cv) THEN NONE ELSE cv.conc
        /\ q' = [k \in 1..m |-> k]
  /\ UNCHANGED <<now, cur, running, fresh, comp, start, ord, nord, firstErr, phase, stepDl, result>>
  /\ UNCHANGED <<cv, hp, addrs, tRes, rfut, dropped, cres>>

\* the caller's drop while the set runs: at instant cv.dropT, after everything due by then has happened
DropRel == cv.dropT - tRes
DropNowEb == /\ stg = "eyeballs" /\ ~dropped /\ cv.dropT # NONE /\ phase # "done"
             /\ InnerQuiet /\ OverallDl > now /\ now <= DropRel
             /\ \A e \in NextEvents : e > DropRel

EyeballsStep == /\ stg = "eyeballs" /\ phase # "done" /\ ~DropNowEb /\ Next /\ UNCHANGED cvars

\* attempts.finish() returned: error mapping
Finish ==
  /\ stg = "eyeballs" /\ phase = "done" /\ stg' = "done"
  /\ cres' = IF dropped THEN cres
             ELSE CASE result.kind = "ok"  -> Res("ok", addrs[result.id].t, "", tRes + result.at)
                    [] result.kind = "err" -> Res("err", 0, IF cv.oc[addrs[result.id].t] = "err" THEN "refused" ELSE "timedout",
                                                  tRes + result.at)
                    [] result.kind = "hang" -> Res("hang", 0, "", NONE)
                    [] OTHER -> Res(result.kind, 0, "", tRes + result.at)          \* timeout, noprogress
  /\ UNCHANGED <<cv, hp, addrs, tRes, rfut, dropped, vars>>

\* the caller drops the call future
Drop ==
  /\ ~dropped /\ cv.dropT # NONE
  /\ \/ stg = "resolving" /\ DropBeforeResolved
     \/ DropNowEb
  /\ dropped' = TRUE /\ cres' = Res("dropped", 0, "", cv.dropT)
  /\ IF DetachedCall
     THEN UNCHANGED <<stg, rfut, vars>>                          \* nothing is stopped
     ELSE /\ stg' = "dropped"
          /\ rfut' = IF rfut = "pending" THEN "dropped" ELSE rfut
          /\ running' = {} /\ fresh' = <<>> /\ q' = <<>> /\ cur' = 0 /\ phase' = "done"
          /\ UNCHANGED <<scn, now, comp, start, ord, nord, firstErr, stepDl, result>>
  /\ UNCHANGED <<cv, hp, addrs, tRes>>

\* DetachedCall only: the detached work goes on after the drop
DetachedResolveDone ==
  /\ DetachedCall /\ dropped /\ stg = "resolving" /\ cv.res = "list" /\ ~ResTimeoutFires
  /\ rfut' = "done" /\ tRes' = cv.rlat /\ addrs' = RawList /\ stg' = "setport"
  /\ UNCHANGED <<cv, hp, dropped, cres, vars>>

CallNext == \/ Extract \/ ResolveStart \/ ResolveDone \/ SetPortStep \/ SortStep \/ ConnectStep
            \/ EyeballsStep \/ Finish \/ Drop \/ DetachedResolveDone
allvars == <<vars, cvars>>

---------------------------------------------------------------------------
Terminal == stg \in {"done", "dropped"}
\* the scenario and the observation in the shape TcpCallProps talks about (model: unit 1, exact times: margin 0)
VC == [transport |-> cv.transport, scheme |-> cv.scheme, host |-> cv.host, port |-> cv.port, uport |-> cv.uport,
       res |-> cv.res, rlat |-> cv.rlat, n |-> cv.n, fam |-> cv.fam, oc |-> cv.oc, lat |-> cv.lat, bind |-> cv.bind,
       ct |-> cv.ct, heT |-> cv.heT, conc |-> cv.conc, dropT |-> cv.dropT, unit |-> 1, margin |-> 0]
PosIn(i) == IF \E k \in 1..Len(addrs) : addrs[k].t = i THEN CHOOSE k \in 1..Len(addrs) : addrs[k].t = i ELSE 0
Reached(i) == PosIn(i) > 0 /\ stg \in {"eyeballs", "done", "dropped"} /\ start[PosIn(i)] # NONE /\ cv.oc[i] = "ok"
OC == [kind |-> cres.kind, id |-> cres.id, errclass |-> cres.errclass,
       elapsed |-> IF cres.at = NONE THEN 0 ELSE cres.at,
       acc   |-> [i \in Att |-> IF i <= cv.n /\ Reached(i) THEN 1 ELSE 0],
       accAt |-> [i \in Att |-> IF i <= cv.n /\ Reached(i) THEN tRes + start[PosIn(i)] ELSE NONE],
       cport |-> IF cres.kind = "ok" THEN hp ELSE 0, wrongPort |-> 0, taskPanics |-> 0,
       rleft |-> IF rfut = "pending" /\ cres.kind # "hang" THEN 1 ELSE 0]

\* the lifted property formulas as invariants of the model
CallC10Inv == Terminal => KC10_Call(VC, OC)
CallC11Inv == Terminal => KC11_Call(VC, OC)
CallC17Inv == Terminal => KC17_NoPanic(VC, OC)
CancelInv  == /\ Terminal => Cancel(VC, OC)
              /\ dropped => /\ running = {} /\ fresh = <<>> /\ rfut # "pending"
                            /\ \A k \in Att : start[k] # NONE => tRes + start[k] <= cv.dropT
\* the set itself satisfies C10 / C11 on the scenario it was given (Eyeballs.tla's own invariants)
EbRan      == stg = "done" /\ result.kind # "none"
EbC10Inv   == EbRan => C10(V, O)
EbC11Inv   == EbRan => C11(V, O)

\* model-only facts (a real observation that breaks one of them is DRIFT)
CallTight == Terminal =>
  \* the start bounds the outcome-level clauses are built on really bound the set's start instants
  /\ \A k \in 1..Len(addrs) : (stg # "uri" /\ start[k] # NONE /\ Len(PlanOf(VC)) = Len(addrs))
        => SLb(VC)[k] <= start[k] /\ start[k] <= SUb(VC)[k]
  \* the attempt order is the sorted plan
  /\ (cres.kind \in {"ok", "err", "timeout", "noprogress"} \/ (cres.kind = "hang" /\ rfut = "done"))
        => [k \in 1..Len(addrs) |-> addrs[k].t] = PlanOf(VC)
  \* every attempted address carries the extracted port; the stagger is timeout / number of addresses
  /\ \A k \in 1..Len(addrs) : stg \in {"done", "dropped"} /\ start[k] # NONE => addrs[k].port = hp
  /\ (result.kind # "none" /\ ~CSimple(cv) /\ cv.heT # NONE /\ n > 0) => delay = cv.heT \div n
  \* the deadline counts from the end of the resolution; with no candidates the failure is immediate
  /\ (cres.kind \in {"ok", "err", "timeout", "noprogress"} /\ ~CSimple(cv) /\ cv.heT # NONE) => cres.at <= tRes + cv.heT
  /\ cres.kind = "noprogress" => cres.at = tRes
  /\ cres.kind = "dnserr" => cres.at = cv.rlat /\ \A k \in Att : start[k] = NONE

CallTypeOK == /\ stg \in {"uri", "resolve", "resolving", "setport", "sort", "connect", "eyeballs", "done", "dropped"}
              /\ rfut \in {"none", "pending", "done", "dropped"} /\ dropped \in BOOLEAN /\ Len(addrs) <= N
              /\ TypeOK

CallEmit == Terminal => PrintT(<<"CALLVEC", ToJson([v |-> VC, o |-> OC])>>)
=============================================================================
