--------------------------- MODULE EndToEndProps ---------------------------
(***************************************************************************)
(* C01 -- the property formulas, written ONCE over event records.          *)
(*                                                                         *)
(* The same operators are the INVARIANTs of                                *)
(*   - EndToEnd.tla       (the model; `ev` is the event of the last step)  *)
(*   - EndToEndTrace.tla  (the monitor over ndjson traces recorded from    *)
(*                         the real hyperdriver client + server).          *)
(*                                                                         *)
(* Event schema (identical in the model and in the harness trace):         *)
(*  Issue    r origin ver upg          caller issues request r             *)
(*  Send     r c corigin ver inflight afterUpgrade broken                  *)
(*              request r is written to connection c; `corigin` is the     *)
(*              origin c was dialled for, `ver` the protocol of c,         *)
(*              `inflight` the number of exchanges on c whose response has *)
(*              not completed yet (read atomically with the increment),    *)
(*              `afterUpgrade` c already carried a 101, `broken` the peer  *)
(*              (test environment) broke c before this send.               *)
(*  Handle   sconn origin idPath idHeader idBody intact                    *)
(*              a server handler received a complete request               *)
(*  Response r echo stamp statusOk headersOk bodyOk                        *)
(*              caller of r received a complete response; `echo` is the id *)
(*              the server produced it for, `stamp` the producing origin   *)
(*  Error    r kind       the caller of r got an error                     *)
(*  Stuck    r            r neither completed nor failed (watchdog)        *)
(*  Cancel   r            the caller dropped r                             *)
(***************************************************************************)

\* every response a caller receives is the one the server produced for that
\* caller's own request (and it was produced by the origin the caller addressed)
PMatched(e, originOf) ==
    e.e = "Response" => /\ e.echo = e.r
                        /\ e.stamp = originOf[e.r]

\* status, headers and the complete body are unaltered
PResponseIntact(e) ==
    e.e = "Response" => e.statusOk /\ e.headersOk /\ e.bodyOk

\* every request the server handles carries the method, path, query, headers and
\* complete body the caller sent (the three copies of the id agree, the payload
\* is the one derived for that id, and it reached the origin it was sent to)
PRequestIntact(e, originOf) ==
    e.e = "Handle" => /\ e.idPath = e.idHeader
                      /\ e.idPath = e.idBody
                      /\ e.intact
                      /\ (e.idPath \in DOMAIN originOf => e.origin = originOf[e.idPath])

\* an HTTP/1 connection carries one exchange at a time
PH1Exclusive(e) ==
    e.e = "Send" /\ e.ver = "h1" => e.inflight = 0

\* after a 101 the connection has left HTTP and is never used for a request again
PNoSendAfterUpgrade(e) ==
    e.e = "Send" => ~e.afterUpgrade

\* a connection is only ever used for the origin it was dialled for
PNoCrossOrigin(e, originOf) ==
    e.e = "Send" => e.corigin = originOf[e.r]

\* a request that is not cancelled (cancelled requests end in Cancel, not Error) and
\* whose connection the peer did not break completes successfully
PNoSpuriousFailure(e, excused) ==
    e.e \in {"Error", "Stuck"} => e.r \in excused

=============================================================================
