\* Upgrade generation (simulation): scenarios of 2-4 requests for the auto server / auto client, quiescent discipline; one JSON line per finished behaviour
SPECIFICATION SpecGen
CONSTANTS
  KindVecs <- VecsGen
  MaxConn = 4
  Server = "auto"
  Client = "pool"
  HL = 1
  SniffMax = 3
  MaxW = 6
  WSizes <- W13
  MaxEnv = 6
  HoldSets <- HoldAll
  DHoldSets <- DHold12
  AllowShutdown = TRUE
  AllowDrop = TRUE
  Quiescent = TRUE
  Bug = "none"
INVARIANTS
  Emit
