------------------------------- MODULE Wire -------------------------------
(***************************************************************************)
(* C13 -- the request put on the wire matches the connection's protocol.   *)
(*                                                                         *)
(* A "vector spec".  Init chooses an abstract vector out of the full cross *)
(* product of the input classes:                                           *)
(*   kind "req": connection version x request version x method x scheme x  *)
(*               host kind x port class x path class x query x pre-set     *)
(*               Host x subset of connection-specific headers              *)
(*   kind "sel": request version x ALPN result   (protocol selection)      *)
(*                                                                         *)
(*  * Expected* / C13*: the property text, clause by clause.  Values are   *)
(*    written symbolically as token sequences (<<"PATH","?","QUERY">>):    *)
(*    the model compares token sequences, the monitor WireObs.tla          *)
(*    instantiates the tokens with the concrete strings of a real request. *)
(*  * The actions SetHost, H2Checks*, H1Checks*, Handshake* transcribe     *)
(*    what the code does, layer by layer in the order of                   *)
(*    client/builder.rs (SetHostHeader -> Http2Checks -> Http1Checks ->    *)
(*    executor) resp. protocol/auto.rs + pool/service.rs (selection).      *)
(*    InvC13 states that the transcription yields the expected outcome on  *)
(*    every vector.                                                        *)
(*                                                                         *)
(* Reading of the text (literal):                                          *)
(*  - selection: HTTP/2 iff (request version is HTTP/2) or (TLS and ALPN   *)
(*    negotiated h2); HTTP/1.1 otherwise.                                  *)
(*  - HTTP/1 connection: request target = origin-form: path and query      *)
(*    exactly as given, empty path -> "/"; CONNECT -> authority-form (the  *)
(*    URI authority).  Exactly one Host header: the caller's if one was    *)
(*    supplied (unchanged), else URI host, plus ":"port iff a port is      *)
(*    given explicitly and is not the scheme's default (http, ws: 80;      *)
(*    https, wss: 443; other schemes have no known default, so the vectors *)
(*    carry no "default" port class for them).                             *)
(*  - HTTP/2 connection: CONNECT -> error; otherwise version HTTP/2, no    *)
(*    Host header, none of the connection-specific headers (RFC 9113       *)
(*    8.2.2: connection, keep-alive, proxy-connection, transfer-encoding,  *)
(*    upgrade; `te` is NOT connection-specific there and is not named).    *)
(*  - components the text does not name (request version on HTTP/1, other  *)
(*    headers, the URI on HTTP/2, errors on HTTP/1) are conformance only.  *)
(***************************************************************************)
EXTENDS Naturals, Sequences, FiniteSets, TLC

CONSTANTS HdrSets,      \* the subsets of Hdrs enumerated in this configuration
          Methods,      \* subset of {"GET","POST","CONNECT","EXT"}
          Schemes,      \* subset of {"http","https","ws","wss","other"}
          SeqDom        \* domains of the pooled-history vectors (kind "seq"): a record of sets
                        \* [alpn, method, scheme, host, port, path, hdrs]

ConnVers  == {"h1", "h2"}
ReqVers   == {"1.0", "1.1", "2"}
Alpns     == {"notls", "noalpn", "http/1.1", "h2", "h3", "spdy/3.1"}      \* no TLS | TLS without ALPN | TLS + ALPN result (only h2 selects HTTP/2)
HostKinds == {"name", "v4", "v6"}
Ports     == {"absent", "default", "xdefault", "other"} \* xdefault: the default port of the OTHER scheme family
Paths     == {"empty", "slash", "long"}
Presets   == {"none", "same", "other"}                  \* caller-supplied Host header
Hdrs      == {"connection", "keep-alive", "proxy-connection", "transfer-encoding", "upgrade", "te"}
ConnSpecific == {"connection", "keep-alive", "proxy-connection", "transfer-encoding", "upgrade"}

ReqVectors == { v \in [kind : {"req"}, conn : ConnVers, rv : ReqVers, method : Methods, scheme : Schemes,
                       host : HostKinds, port : Ports, path : Paths, query : BOOLEAN, preset : Presets,
                       hdrs : HdrSets] :
                  v.scheme = "other" => v.port \in {"absent", "other"} }
SelVectors == [kind : {"sel"}, rv : ReqVers, alpn : Alpns]
\* kind "seq": a request with version rv that is served by a POOLED connection which an earlier request of the same
\* client (version prv, ALPN result alpn) opened to the same origin.  The pool key is scheme + authority only, so
\* the connection's protocol is the one selected for (prv, alpn), whatever rv asks for.  (A TLS connection is only
\* made for https/wss, so ALPN results other than "notls" are paired with those schemes.)
SeqVectors == { v \in [kind : {"seq"}, prv : ReqVers, alpn : SeqDom.alpn, rv : ReqVers, method : SeqDom.method,
                       scheme : SeqDom.scheme, host : SeqDom.host, port : SeqDom.port, path : SeqDom.path,
                       query : BOOLEAN, preset : Presets, hdrs : SeqDom.hdrs] :
                  /\ (v.scheme = "other" => v.port \in {"absent", "other"})
                  /\ (v.alpn # "notls" => v.scheme \in {"https", "wss"}) }
Vectors == ReqVectors \cup SelVectors \cup SeqVectors
\* the request of a seq vector as a req vector on a connection of version c
AsReq(v, c) == [kind |-> "req", conn |-> c, rv |-> v.rv, method |-> v.method, scheme |-> v.scheme, host |-> v.host,
                port |-> v.port, path |-> v.path, query |-> v.query, preset |-> v.preset, hdrs |-> v.hdrs]

---------------------------------------------------------------------------
(* The property text.                                                      *)
ExpProto(v) == IF v.rv = "2" \/ v.alpn = "h2" THEN "h2" ELSE "h1"

PortShown(v) == v.port \in {"xdefault", "other"}        \* explicit and not the scheme's default
ExpHost(v)   == IF v.preset # "none" THEN <<"PRESET">>
                ELSE <<"HOST">> \o (IF PortShown(v) THEN <<":", "PORT">> ELSE <<>>)
ExpTarget(v) == IF v.method = "CONNECT" THEN <<"AUTHORITY">>
                ELSE (IF v.path = "empty" THEN <<"/">> ELSE <<"PATH">>)
                     \o (IF v.query THEN <<"?", "QUERY">> ELSE <<>>)

(* An outcome o:                                                           *)
(*   req: [kind : {"sent","error","panicked"}, target, hosts (sequence of  *)
(*         Host header values), ver, hdrs (which of Hdrs are present)]      *)
(*   sel: [kind : {"connected","error","panicked"}, proto]                  *)
(* I(_) maps a token sequence into the value domain of the observation     *)
(* (identity on the model, string instantiation in the monitor).           *)
C13select(v, o)          == v.kind = "sel" => o.kind = "connected" /\ o.proto = ExpProto(v)
C13h1target(v, o, I(_))  == v.kind = "req" /\ v.conn = "h1" /\ o.kind = "sent" => o.target = I(ExpTarget(v))
C13h1host(v, o, I(_))    == v.kind = "req" /\ v.conn = "h1" /\ o.kind = "sent" => o.hosts = <<I(ExpHost(v))>>
C13h2version(v, o)       == v.kind = "req" /\ v.conn = "h2" /\ o.kind = "sent" => o.ver = "2"
C13h2headers(v, o)       == v.kind = "req" /\ v.conn = "h2" /\ o.kind = "sent" =>
                               o.hosts = <<>> /\ o.hdrs \cap ConnSpecific = {}
C13h2connect(v, o)       == v.kind = "req" /\ v.conn = "h2" /\ v.method = "CONNECT" => o.kind = "error"
C13(v, o, I(_)) == /\ C13select(v, o) /\ C13h1target(v, o, I) /\ C13h1host(v, o, I)
                   /\ C13h2version(v, o) /\ C13h2headers(v, o) /\ C13h2connect(v, o)

FailedClause(v, o, I(_)) ==
    CASE ~C13select(v, o)        -> "select"
      [] ~C13h2connect(v, o)     -> "h2connect"
      [] ~C13h1target(v, o, I)   -> "h1target"
      [] ~C13h1host(v, o, I)     -> "h1host"
      [] ~C13h2version(v, o)     -> "h2version"
      [] ~C13h2headers(v, o)     -> "h2headers"
      [] OTHER -> "none"

\* the whole expected outcome (named components; the rest follows the transcription below)
RECURSIVE Expected(_)
Expected(v) ==
    IF v.kind = "seq" THEN Expected(AsReq(v, ExpProto([rv |-> v.prv, alpn |-> v.alpn])))
    ELSE IF v.kind = "sel" THEN [kind |-> "connected", proto |-> ExpProto(v)]
    ELSE IF v.conn = "h1"
      THEN [kind |-> "sent", target |-> ExpTarget(v), hosts |-> <<ExpHost(v)>>, ver |-> v.rv, hdrs |-> v.hdrs]
    ELSE IF v.method = "CONNECT" THEN [kind |-> "error"]
    ELSE [kind |-> "sent", target |-> <<"ABSOLUTE">>, hosts |-> <<>>, ver |-> "2", hdrs |-> v.hdrs \ ConnSpecific]

---------------------------------------------------------------------------
(* Transcription of the code.                                              *)
Secure(v)  == v.scheme \in {"https", "wss"}                       \* host.rs is_schema_secure
Is443(v)   == (Secure(v) /\ v.port = "default") \/ (~Secure(v) /\ v.port = "xdefault")
Is80(v)    == (~Secure(v) /\ v.port = "default") \/ (Secure(v) /\ v.port = "xdefault")
\* host.rs get_non_default_port: (443, secure) -> None; (80, not secure) -> None; else the port
CodePortShown(v) == v.port # "absent" /\ ~((Is443(v) /\ Secure(v)) \/ (Is80(v) /\ ~Secure(v)))
CodeHost(v) == <<"HOST">> \o (IF CodePortShown(v) THEN <<":", "PORT">> ELSE <<>>)
\* http.rs origin_form: path-and-query kept unless it is exactly "/"; Uri display puts "/" for an empty path
CodeOrigin(v) == (IF v.path = "empty" THEN <<"/">> ELSE <<"PATH">>) \o (IF v.query THEN <<"?", "QUERY">> ELSE <<>>)

VARIABLES vec, stage, req
vars == <<vec, stage, req>>

InitReq(v) == IF v.kind = "req"
                THEN [target |-> <<"ABSOLUTE">>,
                      hosts  |-> IF v.preset = "none" THEN <<>> ELSE <<(<<"PRESET">>)>>,
                      ver    |-> v.rv, hdrs |-> v.hdrs]
                ELSE IF v.kind = "seq"
                THEN [target |-> <<"ABSOLUTE">>,
                      hosts  |-> IF v.preset = "none" THEN <<>> ELSE <<(<<"PRESET">>)>>,
                      ver    |-> v.rv, hdrs |-> v.hdrs, conn |-> "none"]
                ELSE [proto |-> "none"]

Init == /\ vec \in Vectors
        /\ stage = "new"
        /\ req = InitReq(vec)

\* the request as the layers see it: on the connection named by the vector (kind "req") or on the pooled
\* connection it was handed (kind "seq")
IsReq == vec.kind \in {"req", "seq"}
View  == IF vec.kind = "seq" THEN AsReq(vec, req.conn) ELSE vec
LayerStart == IF vec.kind = "seq" THEN "reused" ELSE "new"
\* pooled history (kind "seq"): the earlier request opens the connection (pool/service.rs connect_to + protocol/auto.rs
\* handshake, decided by ITS version and the ALPN result), the connection goes idle / stays shareable in the pool ...
EstablishH2byVersion == /\ vec.kind = "seq" /\ stage = "new" /\ vec.prv = "2"
                        /\ req' = [req EXCEPT !.conn = "h2"] /\ stage' = "pooled" /\ UNCHANGED vec
EstablishH2byAlpn    == /\ vec.kind = "seq" /\ stage = "new" /\ vec.prv # "2" /\ vec.alpn = "h2"
                        /\ req' = [req EXCEPT !.conn = "h2"] /\ stage' = "pooled" /\ UNCHANGED vec
EstablishH1          == /\ vec.kind = "seq" /\ stage = "new" /\ vec.prv # "2" /\ vec.alpn # "h2"
                        /\ req' = [req EXCEPT !.conn = "h1"] /\ stage' = "pooled" /\ UNCHANGED vec
\* ... and pool/mod.rs checkout hands it to the next request for that origin: the key is scheme + authority, the
\* request's version plays no role, the connection keeps ITS version
PoolReuse == /\ vec.kind = "seq" /\ stage = "pooled"
             /\ stage' = "reused" /\ UNCHANGED <<vec, req>>
\* service/host.rs SetHostHeader (ExecuteRequest impl, below the pool): only below HTTP/2, only if absent
SetHostInsert == /\ IsReq /\ stage = LayerStart /\ View.conn = "h1" /\ req.hosts = <<>>
                 /\ req' = [req EXCEPT !.hosts = <<CodeHost(View)>>]
                 /\ stage' = "hosted" /\ UNCHANGED vec
SetHostKeep   == /\ IsReq /\ stage = LayerStart /\ ~(View.conn = "h1" /\ req.hosts = <<>>)
                 /\ stage' = "hosted" /\ UNCHANGED <<vec, req>>
\* service/http.rs http2::check_http2_request
H2Reject == /\ IsReq /\ stage = "hosted" /\ View.conn = "h2" /\ vec.method = "CONNECT"
            /\ stage' = "error" /\ UNCHANGED <<vec, req>>
H2Strip  == /\ IsReq /\ stage = "hosted" /\ View.conn = "h2" /\ vec.method # "CONNECT"
            /\ req' = [req EXCEPT !.ver = "2", !.hdrs = @ \ ConnSpecific, !.hosts = <<>>]
            /\ stage' = "h2checked" /\ UNCHANGED vec
H2Skip   == /\ IsReq /\ stage = "hosted" /\ View.conn = "h1"
            /\ stage' = "h2checked" /\ UNCHANGED <<vec, req>>
\* service/http.rs http1::check_http1_request
H1Authority == /\ IsReq /\ stage = "h2checked" /\ View.conn = "h1" /\ vec.method = "CONNECT"
               /\ req' = [req EXCEPT !.target = <<"AUTHORITY">>]
               /\ stage' = "sent" /\ UNCHANGED vec
H1Origin    == /\ IsReq /\ stage = "h2checked" /\ View.conn = "h1" /\ vec.method # "CONNECT"
               /\ req' = [req EXCEPT !.target = CodeOrigin(View)]
               /\ stage' = "sent" /\ UNCHANGED vec
H1Skip      == /\ IsReq /\ stage = "h2checked" /\ View.conn = "h2"
               /\ stage' = "sent" /\ UNCHANGED <<vec, req>>
\* pool/service.rs connect_to (request version -> HttpProtocol) + protocol/auto.rs handshake (ALPN switch)
IsSel == vec.kind = "sel"
HandshakeH2byVersion == /\ IsSel /\ stage = "new" /\ vec.rv = "2"
                        /\ req' = [proto |-> "h2"] /\ stage' = "connected" /\ UNCHANGED vec
HandshakeH2byAlpn    == /\ IsSel /\ stage = "new" /\ vec.rv # "2" /\ vec.alpn = "h2"
                        /\ req' = [proto |-> "h2"] /\ stage' = "connected" /\ UNCHANGED vec
HandshakeH1          == /\ IsSel /\ stage = "new" /\ vec.rv # "2" /\ vec.alpn # "h2"
                        /\ req' = [proto |-> "h1"] /\ stage' = "connected" /\ UNCHANGED vec

Next == \/ SetHostInsert \/ SetHostKeep \/ H2Reject \/ H2Strip \/ H2Skip
        \/ H1Authority \/ H1Origin \/ H1Skip
        \/ HandshakeH2byVersion \/ HandshakeH2byAlpn \/ HandshakeH1
        \/ EstablishH2byVersion \/ EstablishH2byAlpn \/ EstablishH1 \/ PoolReuse
Spec == Init /\ [][Next]_vars

Done == stage \in {"sent", "error", "connected"}
Outcome == IF stage = "error" THEN [kind |-> "error"]
           ELSE IF stage = "connected" THEN [kind |-> "connected", proto |-> req.proto]
           ELSE [kind |-> "sent", target |-> req.target, hosts |-> req.hosts, ver |-> req.ver, hdrs |-> req.hdrs]

Id(t) == t
TypeOK == /\ vec \in Vectors
          /\ stage \in {"new", "pooled", "reused", "hosted", "h2checked", "sent", "error", "connected"}
\* the property on the model (a seq vector is judged as its request on the connection it was REALLY handed)
InvC13 == Done => C13(View, Outcome, Id)
\* the pooled connection of a seq vector has the protocol the text selects for the request that opened it
InvSeqConn == vec.kind = "seq" /\ stage # "new" => req.conn = ExpProto([rv |-> vec.prv, alpn |-> vec.alpn])
\* the transcription produces exactly the expected outcome, unnamed components included
InvExpected == Done => Outcome = Expected(vec)
=============================================================================
