CONSTANTS
  NReq = 32
  NOrig = 13
  MaxDial = 32
  MaxTick = 60
  AsBuilt = {}
  Caps = {TRUE, FALSE}
  MaxIdles = {0, 1, 2, 3, 32}
  IdleTimeouts = {0, 1, 2, 3}
  Protos = {TRUE, FALSE}
  Faults <- AllFaults
  Spurious = TRUE
  AllowDrop = TRUE
SPECIFICATION TraceSpec
POSTCONDITION Accepted
CHECK_DEADLOCK FALSE
